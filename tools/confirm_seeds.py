#!/usr/bin/env python3
"""Confirm seeded changes: for each /tmp/seedout/<ID>/changeN.diff in worktree /tmp/seed/<ID>:
   clean build -> demo exits 0; apply -> build -> demo exits non-zero; suite summary with change == baseline."""
import json, os, re, subprocess, sys, glob
from concurrent.futures import ThreadPoolExecutor
PY='/venv/bin/python'
def sh(cmd, cwd, timeout=1800):
    p=subprocess.run(cmd,cwd=cwd,shell=True,capture_output=True,text=True,timeout=timeout)
    return p.returncode,(p.stdout+p.stderr)
def build(wt):
    return sh(f'{PY} setup.py build_ext --inplace --force', wt)
def one(pid):
    wt=f'/tmp/seed/{pid}'; out=f'/tmp/seedout/{pid}'; res={}
    sh('git checkout -- . ', wt)
    for k in (1,2):
        diff=f'{out}/change{k}.diff'
        demo=None
        for cand in (f'{out}/demo{k}.py',):
            if os.path.exists(cand): demo=cand
        if not os.path.exists(diff) or not demo:
            res[k]={'error':'missing files'}; continue
        r={}
        sh('git checkout -- .', wt); rc,o=build(wt); r['clean_build']=rc
        rc,o=sh(f'{PY} {demo}', wt, 1200); r['demo_clean']=rc
        rc,o=sh(f'git apply {diff}', wt); r['apply']=rc
        rc,o=build(wt); r['build']=rc
        rc,o=sh(f'{PY} {demo}', wt, 1200); r['demo_changed']=rc; r['demo_tail']=o[-300:]
        rc,o=sh(f'{PY} -m pytest -q -p no:cacheprovider --timeout=900', wt, 3000)
        m=re.findall(r'^(\d+ failed.*|\d+ passed.*)$', o, re.M); r['suite']=m[-1] if m else o[-200:]
        fails=sorted(re.findall(r'^(?:FAILED|ERROR) (\S+)', o, re.M)); r['suite_fail']=fails
        sh('git checkout -- .', wt)
        r['confirmed']= (r['demo_clean']==0 and r['apply']==0 and r['build']==0 and r['demo_changed']!=0 and '873 passed' in r['suite'])
        res[k]=r
    build(wt)
    return pid,res
ids=sys.argv[1:] or sorted(os.path.basename(p) for p in glob.glob('/tmp/seedout/C*'))
allres={}
if os.path.exists('/tmp/seedout/confirm.json'): allres=json.load(open('/tmp/seedout/confirm.json'))
with ThreadPoolExecutor(6) as ex:
    for pid,res in ex.map(one, ids):
        allres[pid]=res
        json.dump(allres,open('/tmp/seedout/confirm.json','w'),indent=1)
        print(pid,{k:(v.get('confirmed'),v.get('suite')) for k,v in res.items()},flush=True)
