#!/usr/bin/env python3
"""Confirm seeded changes: for each /tmp/seedout/<ID>/changeN.diff in worktree /tmp/seed/<ID>:
   clean build -> demo exits 0; apply -> build -> demo exits non-zero; suite summary with change == baseline."""
import json, os, re, subprocess, sys, glob, threading
SEEDOUT=os.environ.get('SEEDOUT','/tmp/seedout')
LOCK=threading.Lock()
BASE_FAIL={'rebound/tests/test_horizons.py::test_earth'}
from concurrent.futures import ThreadPoolExecutor
PY='/venv/bin/python'
def sh(cmd, cwd, timeout=1800):
    p=subprocess.run(cmd,cwd=cwd,shell=True,capture_output=True,text=True,timeout=timeout)
    return p.returncode,(p.stdout+p.stderr)
def build(wt):
    return sh(f'{PY} setup.py build_ext --inplace --force', wt)
def one(pid):
    wt=os.environ.get('SEEDWT','/tmp/seed')+f'/{pid}'; out=f'{SEEDOUT}/{pid}'; res={}
    sh('git checkout -- . ', wt)
    for k in (1,2,3):
        diff=f'{out}/change{k}.diff'
        demo=None
        for cand in (f'{out}/demo{k}.py',):
            if os.path.exists(cand): demo=cand
        if not os.path.exists(diff) or not demo:
            if k<3: res[k]={'error':'missing files'}
            continue
        r={}
        sh('git checkout -- .', wt); rc,o=build(wt); r['clean_build']=rc
        rc,o=sh(f'{PY} {demo}', wt, 1200); r['demo_clean']=rc
        rc,o=sh(f'git apply {diff}', wt); r['apply']=rc
        rc,o=build(wt); r['build']=rc
        rc,o=sh(f'{PY} {demo}', wt, 1200); r['demo_changed']=rc; r['demo_tail']=o[-300:]
        rc,o=sh(f'{PY} -m pytest -q -p no:cacheprovider --timeout=900', wt, 3000)
        m=re.findall(r'^(\d+ failed.*|\d+ passed.*)$', o, re.M); r['suite']=m[-1] if m else o[-200:]
        fails=sorted(re.findall(r'^(?:FAILED|ERROR) (\S+)', o, re.M)); r['suite_fail']=fails
        extra=[f for f in fails if f not in BASE_FAIL and '::' in f]
        if extra:
            with LOCK:
                rc2,o2=sh(f'{PY} -m pytest -q -p no:cacheprovider --timeout=900 '+' '.join(extra), wt, 3000)
            r['rerun']=(extra, rc2, o2[-200:])
            if rc2==0:
                r['suite']=r['suite']+' [rerun alone: '+', '.join(extra)+' passed]'
                m2=re.search(r'(\d+) passed', r['suite'])
                if m2 and int(m2.group(1))+len(extra)==873: r['suite']='873 passed (after sequential rerun of %d port-colliding tests) | '%len(extra)+r['suite']
        sh('git checkout -- .', wt)
        r['confirmed']= (r['demo_clean']==0 and r['apply']==0 and r['build']==0 and r['demo_changed']!=0 and '873 passed' in r['suite'])
        res[k]=r
    build(wt)
    return pid,res
ids=sys.argv[1:] or sorted(os.path.basename(p) for p in glob.glob(SEEDOUT+'/C*'))
allres={}
if os.path.exists(SEEDOUT+'/confirm.json'): allres=json.load(open(SEEDOUT+'/confirm.json'))
with ThreadPoolExecutor(6) as ex:
    for pid,res in ex.map(one, ids):
        allres[pid]=res
        json.dump(allres,open(SEEDOUT+'/confirm.json','w'),indent=1)
        print(pid,{k:(v.get('confirmed'),v.get('suite')) for k,v in res.items()},flush=True)
