#!/usr/bin/env python3
"""Run every check on every behaviour-preserving refactoring kept in selftest/refactorings/<group>/refactor*.diff
(written by independent agents, each verified bit-identical and suite-neutral). Every check must stay silent.
usage: refrun.py [group-or-patch-substring ...]   -> summary table, exit 1 if any check fired."""
import glob, os, re, subprocess, sys
from concurrent.futures import ThreadPoolExecutor
VERIF = os.path.dirname(os.path.dirname(os.path.abspath(__file__)))
pats = sorted(glob.glob(os.path.join(VERIF, 'selftest', 'refactorings', '*', 'refactor*.diff')))
if len(sys.argv) > 1:
    pats = [p for p in pats if any(a in p for a in sys.argv[1:])]


def run(p):
    q = subprocess.run([sys.executable, os.path.join(VERIF, 'tools', 'seedrun.py'), p], capture_output=True, text=True)
    out = q.stdout
    e1 = re.findall(r'^== (C\d+) exit 1', out, re.M)
    e2 = re.findall(r'^== (C\d+) exit 2', out, re.M)
    na = 'PATCH DOES NOT APPLY' in out
    first = {}
    cur = None
    for l in out.split('\n'):
        m = re.match(r'^== (C\d+) exit', l)
        if m:
            cur = m.group(1)
        elif cur and cur not in first and ('REPORT' in l or 'ANALYSIS-ERROR' in l):
            first[cur] = l.strip()[:200]
    return p, e1, e2, na, first


bad = 0
with ThreadPoolExecutor(3) as ex:
    for p, e1, e2, na, first in ex.map(run, pats):
        name = '/'.join(p.split('/')[-2:])
        if na:
            print('%-34s does not apply to the current tree (the tree moved on)' % name)
        elif not e1 and not e2:
            print('%-34s silent' % name)
        else:
            bad += 1
            print('%-34s VIOLATION %s  ANALYSIS-ERROR %s' % (name, ','.join(e1) or '-', ','.join(e2) or '-'))
            for c, l in first.items():
                print('      %s' % l)
sys.exit(1 if bad else 0)
