#!/usr/bin/env python3
"""Rewrite the catch matrix between the markers in DESIGN.md from seeded/MATRIX.json and seeded/*/meta.json."""
import json, os, re
V=os.path.dirname(os.path.dirname(os.path.abspath(__file__)))
m=json.load(open(os.path.join(V,'seeded','MATRIX.json')))
rows=['| seeded change | property | what it changes | caught by (check: rules) |','|---|---|---|---|']
for s in sorted(m):
    d=os.path.join(V,'seeded',s)
    if not os.path.isdir(d): continue
    meta=json.load(open(os.path.join(d,'meta.json')))
    patch=open(os.path.join(d,'patch.diff')).read()
    files=sorted(set(re.findall(r'^\+\+\+ b?/?(\S+)',patch,re.M)))
    funcs=[f for f in re.findall(r'^@@.*@@ .*?(\w+)\s*\(',patch,re.M)]
    what=meta.get('summary') or (', '.join(os.path.basename(f) for f in files)+(' ('+funcs[0]+')' if funcs else ''))
    f=m[s]
    caught='; '.join('%s: %s'%(k,', '.join(v['rules'])) for k,v in sorted(f.items()) if v.get('exit')==1)
    if not caught:
        caught='**missed**' if not any(v.get('exit')==2 for v in f.values()) else 'analysis error (fail closed): '+', '.join(k for k,v in f.items() if v.get('exit')==2)
    rows.append('| %s | %s | %s | %s |'%(s,meta.get('property'),what,caught))
table='\n'.join(rows)
p=os.path.join(V,'DESIGN.md'); s=open(p).read()
a='<!-- CATCH-MATRIX-BEGIN -->'; b='<!-- CATCH-MATRIX-END -->'
if a in s:
    s=s[:s.index(a)+len(a)]+'\n'+table+'\n'+s[s.index(b):]
    open(p,'w').write(s)
    print('DESIGN.md catch matrix updated: %d rows'%(len(rows)-2))
else:
    print(table)
