#!/usr/bin/env python3
"""Regenerate rebverif/refnames.json: per function of /repo/src, the hash of its name-free AST and the names of its locals
and parameters. Checks analyse a function that is alpha-equivalent to its reference under the reference names (see cfront.py)."""
import json, os, sys
os.environ['REBVERIF_RAWNAMES'] = '1'
VERIF = os.path.dirname(os.path.dirname(os.path.abspath(__file__)))
sys.path.insert(0, VERIF)
from rebverif import cfront
tus = cfront.load_tus()
out = {}
n = 0
for c, tu in sorted(tus.items()):
    for name, fn in sorted(tu.funcs.items()):
        if cfront.basename(fn.get('_locfile') or fn.get('_file')) != c:
            continue
        h, names = cfront.skeleton(fn)
        out.setdefault(c, {})[name] = {'skeleton': h, 'names': names, 'tokens': cfront.skeleton_tokens(fn)}
        n += 1
    out.setdefault(c, {})['__statics__'] = cfront.statics_signature(tu)
json.dump(out, open(os.path.join(VERIF, 'rebverif', 'refnames.json'), 'w'), separators=(',', ':'), sort_keys=True)
print('refnames.json: %d functions in %d files' % (n, len(out)))
