#!/usr/bin/env python3
"""Run the registered checks against a scratch copy of /repo with a patch applied (never touches /repo).
usage: seedrun.py <patch.diff> [ID ...]     prints, per check, exit code and the REPORT lines."""
import json, os, shutil, subprocess, sys, tempfile
from concurrent.futures import ThreadPoolExecutor
VERIF=os.path.dirname(os.path.dirname(os.path.abspath(__file__)))
def main():
    patch=os.path.abspath(sys.argv[1]); ids=sys.argv[2:]
    if not ids and os.environ.get('VERIF_ONLY'):
        ids=os.environ['VERIF_ONLY'].split()          # targeted regression: only the checks whose rules changed
    if not ids:
        ids=[c['property_id'] for c in json.load(open(os.path.join(VERIF,'MANIFEST.json')))['checks']]
    tmp=tempfile.mkdtemp(prefix='rebverif_seed_')
    try:
        for d in ('src','rebound'):
            shutil.copytree(os.path.join('/repo',d), os.path.join(tmp,d), symlinks=True, ignore=shutil.ignore_patterns('__pycache__','tests'))
        shutil.copy('/repo/setup.py', tmp)
        p=subprocess.run(['git','apply','--whitespace=nowarn',patch],cwd=tmp,capture_output=True,text=True)
        if p.returncode!=0:
            p=subprocess.run(['patch','-p1','-i',patch],cwd=tmp,capture_output=True,text=True)
            if p.returncode!=0:
                print('PATCH DOES NOT APPLY:',p.stdout[-500:],p.stderr[-500:]); return 3
        env=dict(os.environ, REBVERIF_REPO=tmp, REBVERIF_EVIDENCE_DIR=os.path.join(tmp,'evidence'))
        def run(i):
            q=subprocess.run(['python3-vt','-m','rebverif','check',i],cwd=VERIF,env=env,capture_output=True,text=True)
            return i,q.returncode,[l for l in q.stdout.split('\n') if l.startswith(('REPORT','ANALYSIS-ERROR','VIOLATION'))]
        fired=[]
        with ThreadPoolExecutor(8) as ex:
            for i,rc,lines in ex.map(run,ids):
                if rc!=0:
                    fired.append(i)
                    print('== %s exit %d'%(i,rc))
                    for l in lines[:12]: print('   ',l[:400])
        print('FIRED:',' '.join(fired) if fired else 'none')
        return 0
    finally:
        shutil.rmtree(tmp,ignore_errors=True)
sys.exit(main())
