#!/usr/bin/env python3
"""Run every seeded change in /verif/seeded against every registered check (scratch copies of /repo) and
write /verif/seeded/MATRIX.json + a markdown table: which checks fire (exit 1 = VIOLATION, 2 = ANALYSIS-ERROR)."""
import json, os, subprocess, sys, re
from concurrent.futures import ThreadPoolExecutor
VERIF=os.path.dirname(os.path.dirname(os.path.abspath(__file__)))
seeds=sorted(d for d in os.listdir(os.path.join(VERIF,'seeded')) if os.path.isdir(os.path.join(VERIF,'seeded',d)))
if len(sys.argv)>1: seeds=[s for s in seeds if any(s.startswith(a) for a in sys.argv[1:])]
def run(s):
    p=subprocess.run([sys.executable, os.path.join(VERIF,'tools','seedrun.py'), os.path.join(VERIF,'seeded',s,'patch.diff')],capture_output=True,text=True)
    fired={}
    cur=None
    for l in p.stdout.split('\n'):
        m=re.match(r'^== (C\d+) exit (\d)',l)
        if m: cur=m.group(1); fired[cur]={'exit':int(m.group(2)),'rules':[]}
        m=re.match(r'^\s+REPORT (\S+) ',l)
        if m and cur and m.group(1) not in fired[cur]['rules']: fired[cur]['rules'].append(m.group(1))
        if 'PATCH DOES NOT APPLY' in l: fired['APPLY']={'exit':3,'rules':[]}
    return s,fired
res={}
with ThreadPoolExecutor(4) as ex:
    for s,f in ex.map(run,seeds):
        res[s]=f
        meta=json.load(open(os.path.join(VERIF,'seeded',s,'meta.json')))
        own=meta.get('property')
        print('%-28s own=%s %s'%(s,own,'CAUGHT by own check' if own in f and f[own]['exit']==1 else ('caught elsewhere: '+','.join(k for k,v in f.items() if v['exit']==1) if any(v['exit']==1 for v in f.values()) else 'MISSED')), {k:v['rules'] for k,v in f.items()},flush=True)
old={}
mp=os.path.join(VERIF,'seeded','MATRIX.json')
if os.path.exists(mp): old=json.load(open(mp))
if os.environ.get('VERIF_ONLY'):
    # targeted run: keep the recorded outcome of the checks that were not run
    for s_,f_ in res.items():
        keep={k:v for k,v in old.get(s_,{}).items() if k not in os.environ['VERIF_ONLY'].split() and k!='APPLY'}
        keep.update(f_); res[s_]=keep
old.update(res)
json.dump(old,open(mp,'w'),indent=1,sort_keys=True)
