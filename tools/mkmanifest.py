#!/usr/bin/env python3
"""Regenerate /verif/MANIFEST.json from rebverif/claims.py (run after adding or changing a check)."""
import json, os, sys
HERE = os.path.dirname(os.path.dirname(os.path.abspath(__file__)))
sys.path.insert(0, HERE)
from rebverif.claims import CLAIMS, NOT_APPLICABLE, NOT_BUILT_REASON

props = [json.loads(l)['id'] for l in open(os.path.join(HERE, 'properties.jsonl'))]
checks = []
for pid in props:
    if pid not in CLAIMS:
        continue
    c = CLAIMS[pid]
    checks.append({
        'property_id': pid,
        'quick_cmd': 'python3-vt -m rebverif check %s --tier quick' % pid,
        'thorough_cmd': 'python3-vt -m rebverif check %s --tier thorough' % pid,
        'evidence_file': '/verif/evidence/%s.json' % pid,
        'replay_cmd_template': 'python3-vt -m rebverif explain {path}',
        'engine': 'rebverif',
        'level_claimed': {
            'category': c['level'],
            'text': 'Static analysis of the current /repo source; decides necessary conditions of the property on every path / table row / member, not the behaviour itself. DECIDED: '
                    + c['decided'] + ' NOT DECIDED: ' + c['not_decided'],
            'design_ref': 'DESIGN.md section ' + c['design_ref'],
        },
        'level_note': 'Trusted base: clang 14 front end (parser, record layouts, constant folding to LLVM IR), Python ast, sympy/mpmath where algebraic identities are used, and the rule code in /verif/rebverif. Only the default build configuration (setup.py flags) is decided in the quick tier.',
        'technique': c['technique'],
    })
na = []
for pid in props:
    if pid in CLAIMS:
        continue
    na.append({'property_id': pid, 'reason': NOT_APPLICABLE.get(pid, NOT_BUILT_REASON)})
m = {
    'version': 1,
    'setup_cmd': 'python3-vt -m compileall -q rebverif && clang --version >/dev/null && python3-vt -c "import sympy, mpmath, networkx"',
    'hooks': {
        'guard': 'REBOUND_VERIF',
        'enable': 'none - static analysis reads the source and needs no instrumentation in /repo',
        'baseline_off_cmd': 'cd /repo && /venv/bin/python -m pytest -ra -q -p no:cacheprovider --timeout=900 --continue-on-collection-errors',
        'source_commits': [],
        'add_only': True,
    },
    'engines': [
        {'name': 'rebverif', 'path': '/verif/rebverif', 'serves_properties': [c['property_id'] for c in checks],
         'kind_free_text': 'repository-specific static analysis: clang JSON AST / record layouts / LLVM IR constants for C, stdlib ast for Python; rule catalogue in DESIGN.md'},
    ],
    'checks': checks,
    'not_applicable': na,
    'notes': 'All checks are static (no REBOUND code is executed). Exit 0 = rules hold (KNOWN-FINDING lines for entries of KNOWN_FINDINGS.txt), 1 = VIOLATION, 2 = ANALYSIS-ERROR (fail closed).',
}
json.dump(m, open(os.path.join(HERE, 'MANIFEST.json'), 'w'), indent=1)
print('MANIFEST.json: %d checks, %d not_applicable' % (len(checks), len(na)))
