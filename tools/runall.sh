#!/bin/bash
# usage: runall.sh [quick|thorough]   - runs every registered check, prints one line per property
tier=${1:-quick}
cd "$(dirname "$0")/.."
for i in $(python3 -c "import json;print(' '.join(c['property_id'] for c in json.load(open('MANIFEST.json'))['checks']))"); do
  ( s=$(date +%s.%N); out=$(VERIF_TIER=$tier python3-vt -m rebverif check $i --tier $tier 2>&1); rc=$?; e=$(date +%s.%N);
    printf "%s exit=%d %.1fs %s\n" $i $rc $(echo "$e - $s" | bc) "$(echo "$out" | grep -E '^(OK|VIOLATION|ANALYSIS-ERROR)' | head -1 | cut -c1-120)" ) &
done; wait
