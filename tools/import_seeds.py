#!/usr/bin/env python3
"""Copy confirmed seeded changes from /tmp/seedout into /verif/seeded/<ID>-<k>/ (patch.diff, demo, meta.json)."""
import json, os, shutil, re, sys
SEEDOUT = os.environ.get('SEEDOUT', '/tmp/seedout')
TAG = os.environ.get('SEEDTAG', '')      # e.g. r2- for the second round
ONLY = set(sys.argv[1:])
conf = json.load(open(SEEDOUT + '/confirm.json'))
props = {json.loads(l)['id']: json.loads(l) for l in open('/verif/properties.jsonl')}
for pid in sorted(conf):
    for k, r in sorted(conf[pid].items()):
        if ONLY and ('%s/%s' % (pid, k)) not in ONLY:
            continue
        if not r.get('confirmed'):
            print('skip (unconfirmed)', pid, k); continue
        src = '%s/%s' % (SEEDOUT, pid)
        dst = '/verif/seeded/%s-%s%s' % (pid, TAG, k)
        os.makedirs(dst, exist_ok=True)
        shutil.copy('%s/change%s.diff' % (src, k), dst + '/patch.diff')
        shutil.copy('%s/demo%s.py' % (src, k), dst + '/demo.py')
        readme = open(src + '/README.md').read() if os.path.exists(src + '/README.md') else ''
        open(dst + '/AGENT_README.md', 'w').write(readme)
        files = sorted(set(re.findall(r'^\+\+\+ b/(\S+)', open(dst + '/patch.diff').read(), re.M)))
        meta = {
            'id': '%s-%s%s' % (pid, TAG, k), 'property': pid, 'property_title': props[pid]['title'],
            'files_changed': files,
            'origin': 'written by an independent sub-agent that saw only the property text and a scratch worktree of /repo',
            'needs_to_manifest': 'see AGENT_README.md (section for change %s)' % k,
            'confirmed_by': {
                'worktree': '/tmp/seed/%s (scratch git worktree of /repo, removed afterwards)' % pid,
                'commands': ['git apply patch.diff', '/venv/bin/python setup.py build_ext --inplace --force',
                             'cd <worktree> && /venv/bin/python demo.py', 'cd <worktree> && /venv/bin/python -m pytest -q -p no:cacheprovider --timeout=900'],
                'demo_exit_clean_tree': r.get('demo_clean'), 'demo_exit_with_change': r.get('demo_changed'),
                'suite_with_change': r.get('suite'), 'demo_output_tail': (r.get('demo_tail') or '')[-200:],
            },
        }
        json.dump(meta, open(dst + '/meta.json', 'w'), indent=1)
        print('imported', dst)
