#!/usr/bin/env python3
"""Write the task files for one round of independently seeded breaking changes.
usage: mkseedprompts.py <worktree-root> <output-root> [flavour]
For every property a detached worktree <worktree-root>/<ID> of /repo is created and <output-root>/<ID>/PROMPT.txt written. The
agents that receive the prompt see the property text only - nothing from /verif. Afterwards: tools/confirm_seeds.py
(SEEDOUT, SEEDWT) and tools/import_seeds.py (SEEDOUT, SEEDTAG); remove the worktrees with
`git -C /repo worktree remove --force <dir>`."""
import glob
import json
import os
import re
import subprocess
import sys

FLAVOURS = {
    'plain': '',
    'rare': 'In this round prefer changes in code that is rarely looked at (non-default integrators and options, error paths, the Python layer, tables) over the main loops.\n',
    'refactoring': 'In this round, write each change the way regressions usually arrive in practice: as part of a plausible small REFACTORING or clean-up commit (extracting a helper, hoisting a common sub-expression, replacing an if-chain by a table or a loop, merging two similar branches, renaming and re-ordering, modernising an idiom) in which one corner case silently changes behaviour - the diff should read as a harmless tidy-up to a reviewer. Prefer sites where the cause (the edited function) and the effect (where the property visibly fails) are in different functions or files, and option combinations or call sequences that nothing in the test suite exercises. The whole repository is in scope: src/*.c, src/rebound.h, rebound/*.py.\n',
    'feature': 'In this round, write each change the way regressions arrive with FEATURE and PERFORMANCE work: (1) a small new capability (a new option value, a new struct member, a new convenience argument, a new early exit for a common case) where ONE of the places that have to be updated in lockstep was forgotten or updated inconsistently; or (2) an optimisation (caching a value across calls or steps, skipping a recomputation when "nothing changed", fusing or splitting loops, replacing a division by a multiplication with a precomputed inverse, reusing a buffer) whose validity condition is subtly too weak. The diff should read as a reasonable improvement to a reviewer, and the existing behaviour must be unchanged except in the corner the property cares about. The whole repository is in scope: src/*.c, src/rebound.h, rebound/*.py.\n',
    'edge': 'In this round, aim at the EDGES of the input space that the property quantifies over and that everyday use never visits: zero or one particle, exactly two, N_active = 0 / 1 / N, a negative or zero timestep, integrating backwards, a target time equal to the current time, zero mass or zero radius, e = 0 or inc = 0 or pi exactly, an empty or single-snapshot archive, the first or last index, the last byte, an option switched between two calls, the same call made twice. The change should be a slip that is invisible in the bulk of the input space (ideally bit-identical there) and wrong only on such an edge - a loop bound, a comparison that should be non-strict, an initial value, a special case handled in one of two sibling functions only, a default that is applied where an explicit 0 was given. The whole repository is in scope: src/*.c, src/rebound.h, rebound/*.py.\n',
}


def used_places(pid):
    used = set()
    for d in glob.glob('/verif/seeded/%s-*' % pid) + glob.glob('/verif/seeded/F-%s-*' % pid):
        cur = None
        for l in open(d + '/patch.diff').read().split('\n'):
            m = re.match(r'^\+\+\+ b/(\S+)', l)
            if m:
                cur = m.group(1)
            m = re.match(r'^@@ .* @@ .*?(\w+)\s*\(', l)
            if m and cur:
                used.add('%s (%s)' % (cur, m.group(1)))
            elif l.startswith('@@') and cur:
                used.add(cur)
    return sorted(used)


def main():
    wtroot, outroot = sys.argv[1], sys.argv[2]
    flavour = FLAVOURS[sys.argv[3] if len(sys.argv) > 3 else 'plain']
    for l in open('/verif/properties.jsonl'):
        p = json.loads(l)
        i = p['id']
        wt = '%s/%s' % (wtroot, i)
        out = '%s/%s' % (outroot, i)
        if not os.path.exists(wt):
            os.makedirs(wtroot, exist_ok=True)
            subprocess.run(['git', '-C', '/repo', 'worktree', 'add', '-q', '--detach', wt, 'HEAD'], check=True)
        os.makedirs(out, exist_ok=True)
        used = used_places(i)
        prompt = f"""You are helping to evaluate a verification tool by playing the role of a developer who introduces a subtle regression. Work ONLY inside the scratch git worktree {wt} (a detached checkout of the REBOUND N-body integrator, hannorein/rebound: C99 engine in src/, ctypes Python layer in rebound/). Never read or write anything under /repo or /verif.

PROPERTY {i}: {p['title']}
Statement: {p['statement']}
Holds for: {p['quantifier']['text']}

TASK. Produce TWO different, independent changes to the source of REBOUND (C under src/ and/or Python under rebound/), each of which BREAKS this property while
 (a) still compiling:  cd {wt} && /venv/bin/python setup.py build_ext --inplace   (about 20 s; it produces librebound*.so in the worktree root, which `import rebound` picks up when run with cwd={wt}), and
 (b) still passing the existing test suite:  cd {wt} && /venv/bin/python -m pytest -q -p no:cacheprovider --timeout=900   (about 45 s, run serially, not with xdist). On the UNCHANGED tree the result is "873 passed, 1 failed, 4 errors" (test_horizons::test_earth fails for lack of network and four `test_method` collection errors are pre-existing); your change must leave exactly that result (same 873 passing). If a test involving the server port fails, rerun it alone: other jobs on this machine may hold the port.
Each change should look like a realistic developer slip of a few lines (an off-by-one, a wrong member, a dropped or reordered statement, a copy-paste slip, a condition slightly wrong, a missed case, two sites that each look fine alone but no longer agree) - not sabotage, no dead code, no comments that give it away. Prefer changes that need something specific to manifest - a non-default option combination, a multi-step sequence of operations, an unusual input, a crash/truncation at a particular point, a particular interleaving, or two cooperating sites - rather than something ordinary use would expose at once. The two changes must use different mechanisms and touch different code sites (ideally different files or functions).
{flavour}Earlier rounds already used changes in these places; pick DIFFERENT functions and mechanisms (a different file where possible): {'; '.join(used) or '-'}.

For each change also write a DEMONSTRATION: a small standalone Python script (imports `rebound`, run as  cd {wt} && /venv/bin/python {out}/demoN.py ) or a small C program with a build line, that exits 0 on the unchanged tree and exits non-zero (with a short message saying what went wrong) when the change is applied. The demonstration must exercise the behaviour stated in the property, not inspect the source.

DELIVERABLES in {out}/ :
  change1.diff, change2.diff  - `git diff` of SOURCE files only against the clean worktree (must apply with `git apply` to a clean checkout; no .so, build/, *.bin, *.egg-info or other artefacts)
  demo1.py (or demo1.c + build line in README), demo2.py
  README.md - for each change: which clause of the property it breaks and why; what is needed for it to manifest; the exact commands you ran and their results: test-suite summary line WITH the change, demo exit status WITH and WITHOUT the change.
You must actually run all of this (rebuild after every C edit!) and report real results. When finished, restore the worktree sources to clean (git -C {wt} checkout -- . ) - leave untracked build outputs alone. Final answer: a short summary of the two changes (file/function, one line each) and whether everything was confirmed.
"""
        open(out + '/PROMPT.txt', 'w').write(prompt)
    print('prompts written to', outroot)


if __name__ == '__main__':
    main()
