#!/usr/bin/env python3
"""Behaviour-preserving variants of /repo on which every check must stay silent (exit 0).

Each variant is a list of edits applied to a scratch copy (never to /repo): line shifts, re-formatting, renamed locals,
extracted temporaries, swapped commutative operands, re-ordered independent statements. A check that fires on one of them
asks for more than its property states. usage: silent.py [variant ...]"""
import json, os, re, shutil, subprocess, sys, tempfile
from concurrent.futures import ThreadPoolExecutor
VERIF = os.path.dirname(os.path.dirname(os.path.abspath(__file__)))
sys.path.insert(0, os.path.join(VERIF, 'selftest'))
import silent_variants as SV


def run_variant(name, fn):
    tmp = tempfile.mkdtemp(prefix='rebverif_silent_')
    try:
        for d in ('src', 'rebound'):
            shutil.copytree(os.path.join('/repo', d), os.path.join(tmp, d), symlinks=True, ignore=shutil.ignore_patterns('__pycache__', 'tests'))
        shutil.copy('/repo/setup.py', tmp)
        nedits = fn(tmp)
        # the variant must still compile
        bad = []
        for c in sorted(os.listdir(os.path.join(tmp, 'src'))):
            if c.endswith('.c'):
                p = subprocess.run(['clang', '-fsyntax-only', '-std=c99', '-DLIBREBOUND', '-D_GNU_SOURCE', '-DSERVER', '-Isrc', os.path.join('src', c)], cwd=tmp, capture_output=True, text=True)
                if p.returncode != 0:
                    bad.append((c, p.stderr[:300]))
        for root, _, files in os.walk(os.path.join(tmp, 'rebound')):
            for f in files:
                if f.endswith('.py'):
                    p = subprocess.run([sys.executable, '-m', 'py_compile', os.path.join(root, f)], capture_output=True, text=True)
                    if p.returncode != 0:
                        bad.append((f, p.stderr[:300]))
        if bad:
            return name, nedits, 'VARIANT DOES NOT COMPILE: %s' % bad[:2], []
        ids = [c['property_id'] for c in json.load(open(os.path.join(VERIF, 'MANIFEST.json')))['checks']]
        if os.environ.get('VERIF_ONLY'):
            ids = os.environ['VERIF_ONLY'].split()          # targeted regression
        env = dict(os.environ, REBVERIF_REPO=tmp, REBVERIF_EVIDENCE_DIR=os.path.join(tmp, 'evidence'))

        def run(i):
            q = subprocess.run(['python3-vt', '-m', 'rebverif', 'check', i], cwd=VERIF, env=env, capture_output=True, text=True)
            return i, q.returncode, [l for l in q.stdout.split('\n') if l.startswith(('REPORT', 'ANALYSIS-ERROR', 'VIOLATION'))]
        fired = []
        with ThreadPoolExecutor(8) as ex:
            for i, rc, lines in ex.map(run, ids):
                if rc != 0:
                    fired.append((i, rc, lines[:4]))
        return name, nedits, None, fired
    finally:
        shutil.rmtree(tmp, ignore_errors=True)


def main():
    want = sys.argv[1:]
    variants = [(n, f) for n, f in SV.VARIANTS if not want or n in want]
    rc = 0
    for n, f in variants:
        name, nedits, err, fired = run_variant(n, f)
        if err:
            print('%-22s %s' % (name, err))
            rc = 2
        elif fired:
            rc = 1
            print('%-22s %d edits  NOT SILENT:' % (name, nedits))
            for i, code, lines in fired:
                print('     %s exit %d' % (i, code))
                for l in lines:
                    print('        ' + l[:300])
        else:
            print('%-22s %d edits  silent (all checks exit 0)' % (name, nedits))
    return rc


sys.exit(main())
