#!/usr/bin/env python3
"""mutrun.py <repo-relative file> <old> <new> [IDs...] : build a one-substitution patch against /repo (first occurrence,
or the k-th with OLD@@k) and run the given checks on a scratch copy through seedrun.py. Prints the patch path."""
import os, subprocess, sys, tempfile, shutil
rel, old, new = sys.argv[1:4]
ids = sys.argv[4:]
k = 1
if '@@' in old:
    old, k = old.rsplit('@@', 1)
    k = int(k)
src = open(os.path.join('/repo', rel)).read()
pos = -1
for _ in range(k):
    pos = src.find(old, pos + 1)
    if pos < 0:
        sys.exit('pattern not found: ' + old)
mut = src[:pos] + new + src[pos + len(old):]
d = tempfile.mkdtemp(prefix='mut_')
try:
    a = os.path.join(d, 'a', rel); b = os.path.join(d, 'b', rel)
    os.makedirs(os.path.dirname(a)); os.makedirs(os.path.dirname(b))
    open(a, 'w').write(src); open(b, 'w').write(mut)
    p = subprocess.run(['diff', '-u', os.path.join('a', rel), os.path.join('b', rel)], cwd=d, capture_output=True, text=True)
    patch = os.path.join(d, 'm.diff')
    open(patch, 'w').write(p.stdout)
    if os.environ.get('MUT_SAVE'):
        open(os.environ['MUT_SAVE'], 'w').write(p.stdout.replace('--- a/', '--- a/').replace('+++ b/', '+++ b/'))
    r = subprocess.run([sys.executable, os.path.join(os.path.dirname(__file__), 'seedrun.py'), patch] + ids, capture_output=True, text=True)
    out = r.stdout + r.stderr
    for l in out.splitlines():
        if 'FIRED' in l or 'REPORT' in l or 'ERROR' in l:
            print(l[:260])
finally:
    shutil.rmtree(d, ignore_errors=True)
