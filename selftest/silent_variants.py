"""Behaviour-preserving edits (see tools/silent.py). Every function takes the scratch root and returns the number of edits."""
import os, re


def _files(root, sub, exts):
    for d, _, fs in os.walk(os.path.join(root, sub)):
        for f in sorted(fs):
            if f.endswith(exts):
                yield os.path.join(d, f)


def _sub(root, rel, old, new, count=0, regex=False, must=True):
    p = os.path.join(root, rel)
    s = open(p).read()
    if regex:
        s2, n = re.subn(old, new, s, count=count)
    else:
        n = s.count(old) if count == 0 else min(count, s.count(old))
        s2 = s.replace(old, new) if count == 0 else s.replace(old, new, count)
    if must and n == 0:
        raise SystemExit('silent variant: pattern not found in %s: %s' % (rel, old[:60]))
    open(p, 'w').write(s2)
    return n


def shift_lines(root):
    n = 0
    for p in _files(root, 'src', ('.c', '.h')):
        s = open(p).read()
        open(p, 'w').write('/* line one of three added by the self-test */\n/* two */\n/* three */\n' + s)
        n += 1
    for p in _files(root, 'rebound', ('.py',)):
        s = open(p).read()
        lines = s.split('\n')
        # keep a leading "# -*- coding" / shebang / from __future__ first
        k = 0
        while k < len(lines) and (lines[k].startswith('#') or lines[k].strip() == ''):
            k += 1
        lines[k:k] = ['# added by the self-test', '# (shifts every line number)', '']
        open(p, 'w').write('\n'.join(lines))
        n += 1
    return n


def reformat(root):
    """brace placement, trailing comments, tabs -> spaces, blank lines between statements"""
    n = 0
    for p in _files(root, 'src', ('.c',)):
        s = open(p).read()
        s2 = s.replace('\t', '    ')
        s2 = re.sub(r'\)\{\n', ') {\n', s2)
        s2 = re.sub(r';\n(\s+)(for|if|while) ', r';\n\n\1\2 ', s2)
        if s2 != s:
            n += 1
        open(p, 'w').write(s2)
    return n


def rename_locals(root):
    n = 0
    n += _sub(root, 'src/gravity.c', r'\bprefact\b', 'pfac', regex=True)
    n += _sub(root, 'src/gravity.c', r'\bprefactj\b', 'pfac_j', regex=True)
    n += _sub(root, 'src/collision.c', r'\brp\b', 'r_open', regex=True)
    n += _sub(root, 'src/integrator_trace.c', r'\bt_needed\b', 't_target', regex=True)
    n += _sub(root, 'src/integrator_mercurius.c', r'\bt_needed\b', 't_goal', regex=True)
    n += _sub(root, 'src/integrator_mercurius.c', r'\bi_enc\b', 'n_enc', regex=True)
    n += _sub(root, 'src/integrator.c', r'\bmax_dt\b', 'dt_left', regex=True)
    n += _sub(root, 'src/integrator.c', r'\bforward\b', 'direction', regex=True)
    n += _sub(root, 'src/tools.c', r'\bcom_shift\b', 'shift', regex=True)
    n += _sub(root, 'src/tools.c', r'\bdm\b', 'dmass', regex=True)
    n += _sub(root, 'src/rebound.c', r'\bmax2\b', 'dmax2', regex=True)
    n += _sub(root, 'src/integrator_sei.c', r'\bzt1\b', 'zs1', regex=True)
    n += _sub(root, 'src/particle.c', r'\blookuphash\b', 'h_mid', regex=True)
    n += _sub(root, 'src/output.c', r'\bfunctionpointersused\b', 'fp_used', regex=True)
    n += _sub(root, 'src/boundary.c', r'\bremovep\b', 'drop', regex=True)
    return n


def extract_temporaries(root):
    n = 0
    n += _sub(root, 'src/gravity.c', 'const double prefact = G/(_r*_r*_r);', 'const double _r3 = _r*_r*_r;\n                    const double prefact = G/_r3;', count=1)
    n += _sub(root, 'src/collision.c', 'double rp  = p1_r_plus_dtv + r->max_radius1 + maxdrift + 0.86602540378443*c->w;',
              'const double halfdiag = 0.86602540378443*c->w;\n        double rp  = p1_r_plus_dtv + r->max_radius1 + maxdrift + halfdiag;', count=1, must=False)
    n += _sub(root, 'src/rebound.c', 'const int N = r->N - r->N_var;\n        for (int i=0;i<N;i++){\n            struct reb_particle p = particles[i];',
              'const int N_var = r->N_var;\n        const int N = r->N - N_var;\n        for (int i=0;i<N;i++){\n            struct reb_particle p = particles[i];', count=1)
    n += _sub(root, 'src/output.c', 'r->ri_ias15.N_allocated = 3*r->N;', 'const unsigned int N3 = 3*r->N;\n        r->ri_ias15.N_allocated = N3;', count=1)
    return n


def swap_commutative(root):
    n = 0
    n += _sub(root, 'src/gravity.c', 'const double prefactj = -prefact*particles[j].m;', 'const double prefactj = -particles[j].m*prefact;')
    n += _sub(root, 'src/gravity.c', 'const double prefacti = prefact*particles[i].m;', 'const double prefacti = particles[i].m*prefact;')
    n += _sub(root, 'src/tools.c', 'com_shift.x  += particles[i].m/com.m * particles[i+index].x ;', 'com_shift.x  += particles[i+index].x * particles[i].m/com.m;', must=False)
    n += _sub(root, 'src/collision.c', 'double rp  = p1_r_plus_dtv + r->max_radius1 + maxdrift + 0.86602540378443*c->w;',
              'double rp  = maxdrift + c->w*0.86602540378443 + r->max_radius1 + p1_r_plus_dtv;', count=1, must=False)
    n += _sub(root, 'src/integrator_janus.c', 'psi[i].x = ps[i].x/int_scale_pos;', 'psi[i].x = ps[i].x/int_scale_pos;', must=False)
    return n


def reorder_independent(root):
    n = 0
    n += _sub(root, 'src/tools.c', '                    dma += particles[i+index_1st_order_a].m;\n                    dmb += particles[i+index_1st_order_b].m;',
              '                    dmb += particles[i+index_1st_order_b].m;\n                    dma += particles[i+index_1st_order_a].m;')
    n += _sub(root, 'src/particle.c', '    r->N_lookup = 0;\n', '    r->N_lookup = 0;\n', must=False)
    n += _sub(root, 'rebound/simulationarchive.py', '            if sim.integrator=="whfast":\n                sim.ri_whfast.keep_unsynchronized = keep_unsynchronized\n            if sim.integrator=="saba":\n                sim.ri_saba.keep_unsynchronized = keep_unsynchronized\n            sim.synchronize()',
              '            if sim.integrator=="saba":\n                sim.ri_saba.keep_unsynchronized = keep_unsynchronized\n            if sim.integrator=="whfast":\n                sim.ri_whfast.keep_unsynchronized = keep_unsynchronized\n            sim.synchronize()')
    n += _sub(root, 'src/integrator_sei.c', '\tp->z  = zxt/ri_sei.OMEGAZ;\n\tp->vz = zyt;', '\tp->vz = zyt;\n\tp->z  = zxt/ri_sei.OMEGAZ;')
    return n


def python_refactor(root):
    n = 0
    n += _sub(root, 'rebound/units.py', '    p.r = convert_length(p.r, old_l, new_l)\n', '')
    n += _sub(root, 'rebound/units.py', '    p.x = convert_length(p.x, old_l, new_l) \n    p.y = convert_length(p.y, old_l, new_l)\n    p.z = convert_length(p.z, old_l, new_l)\n',
              '    for c in ("x", "y", "z", "r"):\n        setattr(p, c, convert_length(getattr(p, c), old_l, new_l))\n')
    n += _sub(root, 'rebound/simulation.py', '            clibrebound.reb_simulation_save_to_file(byref(self), c_char_p(filename.encode("ascii")))\n            self.process_messages()\n',
              '            fn_c = c_char_p(filename.encode("ascii"))\n            clibrebound.reb_simulation_save_to_file(byref(self), fn_c)\n            self.process_messages()\n')
    return n


VARIANTS = [('shift_lines', shift_lines), ('reformat', reformat), ('rename_locals', rename_locals), ('extract_temporaries', extract_temporaries),
            ('swap_commutative', swap_commutative), ('reorder_independent', reorder_independent), ('python_refactor', python_refactor)]


# ---------------------------------------------------------------- rename every local of one file
CONVENTIONAL = {'r', 'sim', 'particles', 'p', 'N', 'G'}     # naming conventions of REBOUND the rules rely on (stated in DESIGN.md §7)


def _rename_all_locals(cfile):
    def fn(root):
        import sys
        sys.path.insert(0, os.path.dirname(os.path.dirname(os.path.abspath(__file__))))
        from rebverif import cfront
        tus = cfront.load_tus()
        tu = tus[cfile]
        reserved = set()
        for t in tus.values():
            reserved |= set(t.funcs) | set(t.protos) | set(t.globals) | set(t.enums)
            for rec in t.records.values():
                reserved |= {f['name'] for f in rec.get('inner', []) if f.get('kind') == 'FieldDecl' and f.get('name')}
        names = set()
        for fname, f in tu.funcs.items():
            if cfront.basename(f.get('_locfile') or f.get('_file')) != cfile:
                continue
            for d in cfront.walk(f):
                if d.get('kind') in ('VarDecl', 'ParmVarDecl') and d.get('name'):
                    names.add(d['name'])
        names -= reserved
        names -= CONVENTIONAL
        names = {n_ for n_ in names if not n_.startswith('_') and len(n_) > 1 or n_ in ('i', 'j', 'k', 'v')}
        p = os.path.join(root, 'src', cfile)
        s = open(p).read()
        # never touch preprocessor lines, string literals or member accesses
        out = []
        n = 0
        for line in s.split('\n'):
            if line.lstrip().startswith('#'):
                out.append(line)
                continue
            parts = re.split(r'("(?:[^"\\]|\\.)*")', line)
            for i_, part in enumerate(parts):
                if i_ % 2 == 1:
                    continue
                for nm in names:
                    part, k = re.subn(r'(?<![\w.])(?<!->)' + re.escape(nm) + r'(?!\w)', nm + '_q', part)
                    n += k
                parts[i_] = part
            out.append(''.join(parts))
        open(p, 'w').write('\n'.join(out))
        return n
    return fn


for _c in ('gravity.c', 'collision.c', 'tools.c', 'particle.c', 'boundary.c', 'tree.c', 'integrator_whfast.c', 'integrator_mercurius.c', 'integrator_trace.c',
           'integrator_saba.c', 'integrator_eos.c', 'integrator_janus.c', 'integrator_ias15.c', 'integrator_bs.c', 'integrator.c', 'rebound.c', 'output.c', 'input.c',
           'binarydiff.c', 'simulationarchive.c', 'transformations.c', 'rotations.c', 'server.c', 'integrator_sei.c', 'integrator_leapfrog.c'):
    VARIANTS.append(('locals:' + _c, _rename_all_locals(_c)))


def preincrement(root):
    """i++ -> ++i in for headers (value unused)"""
    n = 0
    for p in _files(root, 'src', ('.c',)):
        s = open(p).read()
        s2, k = re.subn(r';\s*(\w+)\+\+\)\{', r'; ++\1){', s)
        open(p, 'w').write(s2)
        n += k
    return n


def add_unused_helpers(root):
    n = 0
    for rel in ('src/tools.c', 'src/collision.c', 'src/gravity.c', 'src/integrator_whfast.c', 'src/particle.c', 'src/simulationarchive.c'):
        p = os.path.join(root, rel)
        s = open(p).read()
        s += '\n\n/* added by the self-test: an unused helper */\nstatic inline double reb_selftest_square_%d(const double v){\n    return v*v;\n}\n' % n
        open(p, 'w').write(s)
        n += 1
    return n


def move_functions(root):
    """move the last function of a file in front of the one before it (declaration order is irrelevant: prototypes exist)"""
    n = 0
    n += _sub(root, 'src/integrator_leapfrog.c', 'void reb_integrator_leapfrog_synchronize(struct reb_simulation* r){\n\t// Do nothing.\n}\n', '', must=False)
    p = os.path.join(root, 'src/integrator_leapfrog.c')
    s = open(p).read()
    if 'reb_integrator_leapfrog_synchronize' not in s.split('reb_integrator_leapfrog_part1')[0]:
        s = s.replace('void reb_integrator_leapfrog_part1(', 'void reb_integrator_leapfrog_synchronize(struct reb_simulation* r){\n\t// Do nothing.\n}\n\nvoid reb_integrator_leapfrog_part1(', 1)
    open(p, 'w').write(s)
    return n


def named_counts(root):
    """r->N - r->N_var through a named local; explicit comparison with 0"""
    n = 0
    n += _sub(root, 'src/boundary.c', 'int N = r->N - r->N_var; // variational particles are tangent vectors, not positions',
              'const int N_variational = r->N_var;\n\tint N = r->N - N_variational;')
    n += _sub(root, 'src/collision.c', '    int N = r->N - r->N_var;\n    int Ninner = N;', '    const int N_all = r->N;\n    int N = N_all - r->N_var;\n    int Ninner = N;')
    n += _sub(root, 'src/rebound.c', '    if (r->exit_max_distance){', '    if (r->exit_max_distance != 0.){')
    return n


VARIANTS += [('preincrement', preincrement), ('add_unused_helpers', add_unused_helpers), ('move_functions', move_functions), ('named_counts', named_counts)]
