"""rebverif - repository-specific static analysis of hannorein/rebound (see /verif/DESIGN.md)."""
