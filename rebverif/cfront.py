"""E1 - C program database from clang's type-resolved JSON AST.

Every translation unit that setup.py compiles is dumped with the build's own flags,
pruned to declarations located under <repo>/src, annotated with absolute file/line
(clang elides them when unchanged, so they are reconstructed in document order) and
cached under /verif/.cache keyed by the content of the TU, all headers and the flags.
"""
import ast as pyast
import glob
import hashlib
import json
import os
import pickle
import subprocess
import sys
from concurrent.futures import ProcessPoolExecutor

from .core import REPO, VERIF, AnalysisError

sys.setrecursionlimit(20000)

CLANG = 'clang'
BASE_FLAGS = ['-std=c99', '-DLIBREBOUND', '-D_GNU_SOURCE', '-DSERVER', '-fPIC', '-Isrc', '-Wno-everything']
CONFIGS = {
    'default': [],
    'avx512': ['-DAVX512', '-mavx512f', '-mavx512dq'],
    'openmp': ['-DOPENMP', '-fopenmp'],
    'quadrupole': ['-DQUADRUPOLE'],
}
CACHE = os.environ.get('REBVERIF_CACHE', os.path.join(VERIF, '.cache'))


def tu_list():
    """The sources setup.py compiles into librebound (read from setup.py itself)."""
    path = os.path.join(REPO, 'setup.py')
    tree = pyast.parse(open(path).read())
    out = []
    for n in pyast.walk(tree):
        if isinstance(n, pyast.keyword) and n.arg == 'sources' and isinstance(n.value, pyast.List):
            for e in n.value.elts:
                if isinstance(e, pyast.Constant) and isinstance(e.value, str):
                    out.append(os.path.basename(e.value))
    if len(out) < 20:
        raise AnalysisError('could not read the source list from setup.py (%d found)' % len(out))
    for f in out:
        if not os.path.exists(os.path.join(REPO, 'src', f)):
            raise AnalysisError('setup.py lists missing source ' + f)
    return sorted(out)


def _digest(cfile, config):
    h = hashlib.sha256()
    h.update(('v8|' + config + '|' + ' '.join(BASE_FLAGS + CONFIGS[config])).encode())
    for p in [os.path.join(REPO, 'src', cfile)] + sorted(glob.glob(os.path.join(REPO, 'src', '*.h'))):
        h.update(os.path.basename(p).encode())
        h.update(open(p, 'rb').read())
    return h.hexdigest()[:32]


# ---------------------------------------------------------------- annotation
def _annotate(root, srcdir):
    """Fill in _file/_line on every node, in clang's print order (loc, range.begin, range.end, inner)."""
    state = {'file': None, 'line': None}

    def bare(loc):
        if not loc:
            return None
        if 'spellingLoc' in loc or 'expansionLoc' in loc:
            sp = bare(loc.get('spellingLoc'))
            ex = bare(loc.get('expansionLoc'))
            return ex or sp
        if 'file' in loc:
            state['file'] = loc['file']
        if 'line' in loc:
            state['line'] = loc['line']
        if 'offset' not in loc:
            return None
        return (state['file'], state['line'], loc.get('col'))

    stack = [root]
    # iterative pre-order, preserving document order
    while stack:
        n = stack.pop()
        if not isinstance(n, dict):
            continue
        l0 = bare(n.get('loc')) if 'loc' in n else None
        rg = n.get('range')
        b = e = None
        if rg:
            b = bare(rg.get('begin'))
            e = bare(rg.get('end'))
        pos = b or l0
        if pos:
            n['_file'], n['_line'], n['_col'] = pos
            if e:
                n['_endline'] = e[1]
        if l0:
            n['_locfile'], n['_locline'] = l0[0], l0[1]
        af = n.get('array_filler')
        if af is not None and 'inner' not in n:
            # clang's JSON puts [filler, explicit initialisers...] under array_filler; normalise to inner
            n['inner'] = af[1:]
            n['_has_filler'] = True
            del n['array_filler']
        inner = n.get('inner')
        if inner:
            for c in reversed(inner):
                stack.append(c)


def _in_src(path):
    if not path:
        return False
    p = path.replace('\\', '/')
    return p.startswith('src/') or '/src/' in p and p.startswith(REPO)


def _prune(root):
    keep = []
    for n in root.get('inner', []):
        f = n.get('_locfile') or n.get('_file')
        if _in_src(f):
            keep.append(n)
    return keep


def _dump(args):
    cfile, config, repo = args
    cmd = [CLANG, '-fsyntax-only'] + BASE_FLAGS + CONFIGS[config] + ['-Xclang', '-ast-dump=json', 'src/' + cfile]
    p = subprocess.run(cmd, cwd=repo, capture_output=True)
    if p.returncode != 0:
        return cfile, None, p.stderr.decode(errors='replace')[-2000:]
    root = json.loads(p.stdout)
    _annotate(root, os.path.join(repo, 'src'))
    decls = _prune(root)
    return cfile, decls, None


# ---------------------------------------------------------------- local names
# Rules name the constructs they check by the local names today's source uses (dtsign, last_full_dt, i_enc ...). A pure
# renaming of locals/parameters leaves the program unchanged, so it must leave every verdict unchanged: a function whose
# body equals the reference body up to a consistent renaming of its own locals and parameters (alpha-equivalence, decided on
# a name-free serialisation of the AST) is analysed under the reference names. Functions that differ in anything else are
# analysed as they are. The reference (refnames.json) is regenerated with tools/mkrefnames.py.
REFNAMES_FILE = os.path.join(os.path.dirname(os.path.abspath(__file__)), 'refnames.json')
_refnames = None


def _local_decls(fn):
    out = []
    stack = [fn]
    while stack:
        x = stack.pop()
        if isinstance(x, dict):
            if x.get('kind') in ('VarDecl', 'ParmVarDecl') and x.get('id') and x is not fn:
                out.append(x)
            inner = x.get('inner')
            if inner:
                stack.extend(reversed(inner))
    return out


def _nameless_type(t):
    q = t.get('desugaredQualType') or t.get('qualType') or ''
    if 'typeof' in q:
        q = re.sub(r'typeof\s*\([^)]*\)', 'typeof(.)', q)
    return q


def skeleton(fn, abstract=()):
    """(hash of the name-free serialisation of the function, [local names in order of declaration]); references to the
    names in `abstract` (file-local statics) are serialised without their name"""
    import hashlib
    decls = _local_decls(fn)
    index = {d['id']: i for i, d in enumerate(decls)}
    h = hashlib.sha1()

    def ser(n):
        k = n.get('kind')
        h.update(('(' + str(k)).encode())
        for key in ('opcode', 'value', 'castKind', 'isArrow', 'isPostfix', 'storageClass'):
            if key in n:
                h.update(('|%s=%s' % (key, n[key])).encode())
        if k in ('VarDecl', 'ParmVarDecl') and n.get('id') in index:
            h.update(('|L%d:%s' % (index[n['id']], _nameless_type(n.get('type') or {}))).encode())
        elif k == 'MemberExpr':
            h.update(('|.%s' % n.get('name')).encode())
        elif k == 'DeclRefExpr':
            rd = n.get('referencedDecl') or {}
            if rd.get('id') in index:
                h.update(('|L%d' % index[rd['id']]).encode())
            elif rd.get('name') in abstract:
                h.update(b'|S')
            else:
                h.update(('|G%s' % rd.get('name')).encode())
        elif k == 'UnaryExprOrTypeTraitExpr':
            h.update(('|%s:%s' % (n.get('name'), _nameless_type(n.get('argType') or {}))).encode())
        elif k in ('LabelStmt', 'GotoStmt', 'StringLiteral'):
            h.update(('|%s' % (n.get('name') or n.get('value'))).encode())
        for c in n.get('inner', []) or []:
            if isinstance(c, dict) and c.get('kind') not in ('FullComment', 'ParagraphComment', 'TextComment'):
                ser(c)
        h.update(b')')
    ser(fn)
    return h.hexdigest(), [d.get('name') for d in decls]


def skeleton_tokens(fn, abstract=()):
    """name-free token sequence of a function (16-bit hashes), for similarity matching of renamed-and-touched statics"""
    import zlib
    decls = _local_decls(fn)
    index = {d['id']: i for i, d in enumerate(decls)}
    out = []

    def ser(n):
        k = n.get('kind')
        item = [str(k)]
        for key in ('opcode', 'value'):
            if key in n:
                item.append(str(n[key]))
        if k == 'MemberExpr':
            item.append('.' + str(n.get('name')))
        elif k == 'DeclRefExpr':
            rd = n.get('referencedDecl') or {}
            if rd.get('id') in index:
                item.append('L')
            elif rd.get('name') in abstract:
                item.append('S')
            else:
                item.append('G' + str(rd.get('name')))
        if k not in ('ImplicitCastExpr', 'ParenExpr'):
            out.append(zlib.crc32('|'.join(item).encode()) & 0xffff)
        for c in n.get('inner', []) or []:
            if isinstance(c, dict) and c.get('kind') not in ('FullComment', 'ParagraphComment', 'TextComment'):
                ser(c)
    ser(fn)
    return out


def file_statics(tu):
    """({static function name: node}, {static global name: node}) defined in the TU's own file"""
    fs = {n: f for n, f in tu.funcs.items() if f.get('storageClass') == 'static' and basename(f.get('_locfile') or f.get('_file')) == tu.cfile}
    gs = {n: g for n, g in tu.globals.items() if g.get('storageClass') == 'static' and basename(g.get('_locfile') or g.get('_file')) == tu.cfile}
    return fs, gs


def statics_signature(tu):
    """{'funcs': {name: hash}, 'globals': {name: hash}} with the names of the file's statics abstracted"""
    fs, gs = file_statics(tu)
    names = set(fs) | set(gs)
    return {'funcs': {n: skeleton(f, names)[0] for n, f in fs.items()}, 'globals': {n: skeleton(g, names)[0] for n, g in gs.items()},
            'tokens': {n: skeleton_tokens(f, names) for n, f in fs.items()}}


def _rename_statics(tu, ref):
    """a file-local function or table that was merely renamed (same body up to the names of the file's statics and of its
    locals) is given its reference name again, everywhere in the translation unit"""
    st = ref.get('__statics__')
    if not st:
        return
    cur = statics_signature(tu)
    mapping = {}
    for kind in ('funcs', 'globals'):
        missing = {n: h for n, h in st[kind].items() if n not in cur[kind]}
        extra = {n: h for n, h in cur[kind].items() if n not in st[kind]}
        for rn, rh in missing.items():
            cands = [n for n, h in extra.items() if h == rh and n not in mapping]
            if len(cands) == 1 and sum(1 for h in missing.values() if h == rh) == 1:
                mapping[cands[0]] = rn
    # statics that were renamed and lightly touched (a parameter renamed, a loop counter's type changed): pair the remaining
    # vanished and new static functions by the similarity of their name-free token sequences (unique best match >= 0.8)
    missing = [n for n in st['funcs'] if n not in cur['funcs'] and n not in mapping.values()]
    extra = [n for n in cur['funcs'] if n not in st['funcs'] and n not in mapping]
    if missing and extra and st.get('tokens'):
        import difflib
        fs_, gs_ = file_statics(tu)
        names_ = set(fs_) | set(gs_)
        cur_tok = {n: skeleton_tokens(fs_[n], names_) for n in extra}
        for rn in missing:
            rt = st['tokens'].get(rn)
            if not rt:
                continue
            scored = sorted(((difflib.SequenceMatcher(None, rt, cur_tok[n], autojunk=False).ratio(), n) for n in extra if n not in mapping), reverse=True)
            if scored and scored[0][0] >= 0.8 and (len(scored) == 1 or scored[1][0] < scored[0][0] - 0.1):
                mapping[scored[0][1]] = rn
    if not mapping:
        return
    for table in (tu.funcs, tu.protos, tu.globals, tu.global_decls):
        for old, newn in mapping.items():
            if old in table:
                table[newn] = table.pop(old)
    for n in tu.decls:
        stack = [n]
        while stack:
            x = stack.pop()
            if isinstance(x, dict):
                if x.get('kind') in ('FunctionDecl', 'VarDecl') and x.get('name') in mapping:
                    x['name'] = mapping[x['name']]
                rd = x.get('referencedDecl')
                if isinstance(rd, dict) and rd.get('name') in mapping and rd.get('kind') in ('FunctionDecl', 'VarDecl'):
                    rd['name'] = mapping[rd['name']]
                inner = x.get('inner')
                if inner:
                    stack.extend(inner)
    tu.static_renames = mapping


def alpha_normalise(tu):
    global _refnames
    if _refnames is None:
        try:
            import json
            _refnames = json.load(open(REFNAMES_FILE))
        except (OSError, ValueError):
            _refnames = {}
    ref = _refnames.get(tu.cfile) or {}
    if not ref:
        return
    _rename_statics(tu, ref)
    for name, fn in tu.funcs.items():
        r = ref.get(name)
        if not r or basename(fn.get('_locfile') or fn.get('_file')) != tu.cfile:
            continue
        hsh, names = skeleton(fn)
        if names == r['names'] or len(names) != len(r['names']):
            continue
        if hsh != r['skeleton']:
            # not alpha-equivalent: renamed locals plus a light touch (a counter's type, a re-ordered statement). With the same
            # number of declarations in the same order and a nearly identical name-free token sequence the declarations
            # still correspond one to one
            if sorted(names) == sorted(r['names']):
                continue        # the same names in another order: declarations were moved, nothing was renamed
            rt = r.get('tokens')
            if not rt:
                continue
            import difflib
            if difflib.SequenceMatcher(None, rt, skeleton_tokens(fn), autojunk=False).ratio() < 0.9:
                continue
        decls = _local_decls(fn)
        new = {d['id']: nm for d, nm in zip(decls, r['names'])}
        for d in decls:
            d['name'] = new[d['id']]
        stack = [fn]
        while stack:
            x = stack.pop()
            if isinstance(x, dict):
                rd = x.get('referencedDecl')
                if isinstance(rd, dict) and rd.get('id') in new:
                    rd['name'] = new[rd['id']]
                inner = x.get('inner')
                if inner:
                    stack.extend(inner)
        fn['_alpha_renamed'] = True


class TU:
    def __init__(self, cfile, decls):
        self.cfile = cfile
        self.decls = decls
        self.funcs = {}
        self.protos = {}
        self.globals = {}
        self.global_decls = {}
        self.enums = {}       # enumerator -> int
        self.enum_types = {}  # enum name -> [(enumerator, value)]
        self.records = {}
        for n in decls:
            if n.get('kind') == 'RecordDecl':
                for x in walk(n):
                    if x.get('kind') == 'EnumDecl':
                        self._enum(x)
                    elif x.get('kind') == 'RecordDecl' and x.get('completeDefinition') and x.get('name'):
                        self.records.setdefault(x['name'], x)
        for n in decls:
            k = n.get('kind')
            if k == 'FunctionDecl':
                if any(c.get('kind') == 'CompoundStmt' for c in n.get('inner', [])):
                    if basename(n.get('_locfile') or n.get('_file')) == cfile or True:
                        self.funcs[n['name']] = n
                else:
                    self.protos.setdefault(n['name'], n)
            elif k == 'VarDecl':
                # keep the defining declaration if there are several
                old = self.globals.get(n['name'])
                if old is None or ('init' in n and 'init' not in old) or \
                        (old.get('storageClass') == 'extern' and n.get('storageClass') != 'extern' and 'init' not in old):
                    self.globals[n['name']] = n
                self.global_decls.setdefault(n['name'], []).append(n)
            elif k == 'EnumDecl':
                self._enum(n)
            elif k == 'RecordDecl' and n.get('completeDefinition') and n.get('name'):
                self.records[n['name']] = n
        if os.environ.get('REBVERIF_RAWNAMES') != '1':
            alpha_normalise(self)

    def _enum(self, n):
        vals = []
        nxt = 0
        for c in n.get('inner', []):
            if c.get('kind') == 'EnumConstantDecl':
                v = None
                for x in walk(c):
                    if x.get('kind') == 'ConstantExpr' and 'value' in x:
                        v = int(x['value'])
                        break
                if v is None:
                    v = _fold_int(c)
                if v is None:
                    v = nxt
                vals.append((c['name'], v))
                self.enums[c['name']] = v
                nxt = v + 1
        if n.get('name'):
            self.enum_types[n['name']] = vals
        else:
            self.enum_types['<anon@%s:%s>' % (basename(n.get('_file')), n.get('_line'))] = vals

    def func(self, name):
        """the function as the rules see it: calls of file-local helpers that do not exist in the reference tree are
        replaced by the helper's body (normal.inline_new_helpers), so that a block moved into a new static helper is
        analysed where it used to stand. On a tree without new helpers this is the parsed function itself."""
        if name not in self.funcs:
            raise AnalysisError('function %s not found in %s' % (name, self.cfile))
        if os.environ.get('REBVERIF_RAWNAMES') == '1':
            return self.funcs[name]
        cache = self.__dict__.setdefault('_inlined', {})
        if name not in cache:
            from . import normal
            try:
                cache[name] = normal.with_new_helpers_inlined(self, self.funcs[name])
            except Exception:
                cache[name] = self.funcs[name]
        return cache[name]


def _family(self, name):
    """the function together with the helpers split off from it that could not be inlined (early returns, loops):
    a copy of the function whose body is followed by the helpers' bodies. For rules that ask whether a statement
    exists anywhere in the code of `name` - never for path or order rules. On a tree without such helpers this is
    func(name) itself."""
    from . import normal
    fn = self.func(name)
    try:
        extra = [f_ for f_ in normal.with_new_helpers(self, name) if f_['name'] != name]
    except Exception:
        extra = []
    # helpers that func() already inlined are no longer called from the inlined body
    called = {callee_name(e) for e in walk(body(fn)) if e.get('kind') == 'CallExpr'}
    todo, keep = list(called), []
    byname = {f_['name']: f_ for f_ in extra}
    seen = set()
    while todo:
        c = todo.pop()
        if c in byname and c not in seen:
            seen.add(c)
            keep.append(byname[c])
            todo += [callee_name(e) for e in walk(body(byname[c])) if e.get('kind') == 'CallExpr']
    if not keep:
        return fn
    out = dict(fn)
    inner = []
    for c in fn.get('inner', []):
        if c.get('kind') == 'CompoundStmt':
            c = dict(c)
            c['inner'] = list(c.get('inner', [])) + [body(h) for h in keep]
        inner.append(c)
    out['inner'] = inner
    return out


TU.family = _family


def _fold_int(c):
    for x in c.get('inner', []):
        if x.get('kind') == 'IntegerLiteral':
            return int(x['value'])
    return None


def basename(p):
    return os.path.basename(p) if p else None


_mem = {}


def load_tus(cfiles=None, config='default', jobs=16):
    """Return {cfile: TU}; parses what is not cached, in parallel."""
    if cfiles is None:
        cfiles = tu_list()
    os.makedirs(CACHE, exist_ok=True)
    out = {}
    todo = []
    for c in cfiles:
        key = (c, config, REPO)
        if key in _mem:
            out[c] = _mem[key]
            continue
        if not os.path.exists(os.path.join(REPO, 'src', c)):
            raise AnalysisError('source file src/%s does not exist' % c)
        d = _digest(c, config)
        path = os.path.join(CACHE, '%s.%s.%s.pkl' % (c, config, d))
        if os.path.exists(path):
            try:
                with open(path, 'rb') as f:
                    decls = pickle.load(f)
                out[c] = _mem[key] = TU(c, decls)
                continue
            except Exception:
                pass
        todo.append((c, path))
    if todo:
        args = [(c, config, REPO) for c, _ in todo]
        if len(todo) == 1:
            results = [_dump(args[0])]
        else:
            with ProcessPoolExecutor(min(jobs, len(todo))) as ex:
                results = list(ex.map(_dump, args))
        for (c, path), (cf, decls, err) in zip(todo, results):
            if decls is None:
                raise AnalysisError('clang failed on src/%s (%s): %s' % (c, config, err))
            tmp = path + '.%d.tmp' % os.getpid()
            try:
                with open(tmp, 'wb') as f:
                    pickle.dump(decls, f, protocol=pickle.HIGHEST_PROTOCOL)
                os.replace(tmp, path)
            except OSError:
                pass
            out[c] = _mem[(c, config, REPO)] = TU(c, decls)
        _gc_cache()
    return out


def load_raw_tus(cfiles=None):
    """the translation units with the names the source uses (no alpha-normalisation against the reference tree): for rules
    about the names themselves"""
    global _mem
    saved, _mem = _mem, {}
    old = os.environ.get('REBVERIF_RAWNAMES')
    os.environ['REBVERIF_RAWNAMES'] = '1'
    try:
        return load_tus(cfiles)
    finally:
        _mem = saved
        if old is None:
            del os.environ['REBVERIF_RAWNAMES']
        else:
            os.environ['REBVERIF_RAWNAMES'] = old


def _gc_cache(maxfiles=400):
    try:
        fs = sorted(glob.glob(os.path.join(CACHE, '*.pkl')), key=os.path.getmtime)
        for f in fs[:-maxfiles]:
            os.remove(f)
    except OSError:
        pass


def load_tu(cfile, config='default'):
    return load_tus([cfile], config)[cfile]


# ---------------------------------------------------------------- helpers over JSON nodes
def walk(n):
    stack = [n]
    while stack:
        x = stack.pop()
        if isinstance(x, dict):
            yield x
            inner = x.get('inner')
            if inner:
                stack.extend(reversed(inner))


def body(fn):
    for c in fn.get('inner', []):
        if c.get('kind') == 'CompoundStmt':
            return c
    raise AnalysisError('function %s has no body' % fn.get('name'))


def params(fn):
    return [c for c in fn.get('inner', []) if c.get('kind') == 'ParmVarDecl']


def strip(n, casts=False):
    """Look through parentheses and implicit casts (and C-style casts when casts=True)."""
    while True:
        k = n.get('kind')
        if k in ('ImplicitCastExpr', 'ParenExpr', 'ConstantExpr') and n.get('inner'):
            n = n['inner'][0]
        elif casts and k == 'CStyleCastExpr' and n.get('inner'):
            n = n['inner'][0]
        else:
            return n


def callee_name(call):
    c = strip(call['inner'][0])
    if c.get('kind') == 'DeclRefExpr':
        return c['referencedDecl']['name']
    return None


def call_args(call):
    return call['inner'][1:]


def qtype(n):
    return (n.get('type') or {}).get('qualType', '')


def line_of(n):
    return n.get('_line')


def where(tu_or_file, n, fn=None):
    f = tu_or_file.cfile if isinstance(tu_or_file, TU) else tu_or_file
    nf = n.get('_file')
    if nf:
        f = os.path.basename(nf)
    s = 'src/%s:%s' % (f, n.get('_line'))
    if fn:
        s += ' ' + (fn if isinstance(fn, str) else fn.get('name', '?'))
    return s


ASSIGN_OPS = ('=', '+=', '-=', '*=', '/=', '%=', '<<=', '>>=', '&=', '|=', '^=')


def is_assign(n):
    return n.get('kind') in ('BinaryOperator', 'CompoundAssignOperator') and n.get('opcode') in ASSIGN_OPS


def toks(n):
    """Expression as a nested tuple (for anti-unification and equality)."""
    n = strip(n)
    k = n.get('kind')
    if k in ('BinaryOperator', 'CompoundAssignOperator'):
        return ('bin', n['opcode'], toks(n['inner'][0]), toks(n['inner'][1]))
    if k == 'UnaryOperator':
        return ('un', n['opcode'] + ('post' if n.get('isPostfix') and n['opcode'] in ('++', '--') else ''),
                toks(n['inner'][0]))
    if k == 'MemberExpr':
        return ('mem', toks(n['inner'][0]), ('fld', n['name']))
    if k == 'ArraySubscriptExpr':
        return ('idx', toks(n['inner'][0]), toks(n['inner'][1]))
    if k == 'DeclRefExpr':
        return ('id', n['referencedDecl']['name'])
    if k in ('IntegerLiteral', 'FloatingLiteral', 'CharacterLiteral'):
        return ('lit', str(n.get('value')))
    if k == 'StringLiteral':
        return ('str', n.get('value'))
    if k == 'CallExpr':
        return ('call',) + tuple(toks(c) for c in n['inner'])
    if k == 'CStyleCastExpr':
        return ('cast', qtype(n), toks(n['inner'][0]))
    if k == 'ConditionalOperator':
        return ('cond',) + tuple(toks(c) for c in n['inner'])
    if k == 'UnaryExprOrTypeTraitExpr':
        if n.get('argType'):
            return ('sizeof', n['argType'].get('qualType', '?'))
        if n.get('inner'):
            return ('sizeof', 'typeof:' + qtype(strip(n['inner'][0])))
        return ('sizeof', '?')
    if k == 'InitListExpr':
        return ('init',) + tuple(toks(c) for c in n.get('inner', []))
    if k == 'ImplicitValueInitExpr':
        return ('lit', '0')
    if k == 'CompoundLiteralExpr':
        return ('clit',) + tuple(toks(c) for c in n.get('inner', []))
    return ('?', k)


def render(n):
    """Human-readable canonical text of an expression node (or toks tuple)."""
    t = n if isinstance(n, tuple) else toks(n)

    def r(t):
        k = t[0]
        if k in ('id', 'fld', 'lit'):
            return t[1]
        if k == 'str':
            return t[1]
        if k == 'mem':
            return r(t[1]) + '.' + r(t[2])
        if k == 'bin':
            return '(' + r(t[2]) + t[1] + r(t[3]) + ')'
        if k == 'sizeof':
            return 'sizeof(' + t[1] + ')'
        if k == 'idx':
            return r(t[1]) + '[' + r(t[2]) + ']'
        if k == 'un':
            op = t[1]
            if op.endswith('post'):
                return r(t[2]) + op[:-4]
            if op == '*':
                return '(*' + r(t[2]) + ')'
            if op == '&':
                return '(&' + r(t[2]) + ')'
            return op + r(t[2])
        if k == 'call':
            return r(t[1]) + '(' + ','.join(r(x) for x in t[2:]) + ')'
        if k == 'cast':
            return r(t[2])
        if k == 'cond':
            return '(' + r(t[1]) + '?' + r(t[2]) + ':' + r(t[3]) + ')'
        if k in ('init', 'clit'):
            return '{' + ','.join(r(x) for x in t[1:]) + '}'
        return '<' + str(t[1] if len(t) > 1 else k) + '>'
    s = r(t)
    # '->' and '.' are not distinguished on purpose: paths are compared modulo pointer-ness
    return s


def source_line(cfile, line):
    try:
        with open(os.path.join(REPO, 'src', cfile), errors='replace') as f:
            for i, l in enumerate(f, 1):
                if i == line:
                    return l.rstrip('\n')
    except OSError:
        pass
    return ''


def sanity_check_lines(tu):
    """Cross-check reconstructed line numbers against the source text (fail closed)."""
    bad = 0
    n = 0
    for name, fn in tu.funcs.items():
        f = fn.get('_locfile') or fn.get('_file')
        if basename(f) != tu.cfile:
            continue
        n += 1
        txt = source_line(tu.cfile, fn.get('_locline') or fn.get('_line'))
        if name not in txt:
            bad += 1
    if n and bad:
        raise AnalysisError('line reconstruction failed for %d of %d functions in %s' % (bad, n, tu.cfile))
    return n
