"""E7 - Python program database (stdlib ast only; never imports rebound)."""
import ast
import glob
import os

from .core import REPO, AnalysisError

PRIM = {
    'c_double': (8, 8, 'f64'), 'c_float': (4, 4, 'f32'), 'c_int': (4, 4, 'i32'), 'c_uint': (4, 4, 'u32'),
    'c_uint32': (4, 4, 'u32'), 'c_int32': (4, 4, 'i32'), 'c_int64': (8, 8, 'i64'), 'c_uint64': (8, 8, 'u64'),
    'c_long': (8, 8, 'i64'), 'c_ulong': (8, 8, 'u64'), 'c_size_t': (8, 8, 'u64'), 'c_ssize_t': (8, 8, 'i64'),
    'c_longlong': (8, 8, 'i64'), 'c_ulonglong': (8, 8, 'u64'),
    'c_void_p': (8, 8, 'ptr'), 'c_char_p': (8, 8, 'ptr'), 'c_char': (1, 1, 'char'), 'c_ubyte': (1, 1, 'u8'),
    'c_byte': (1, 1, 'i8'), 'c_short': (2, 2, 'i16'), 'c_ushort': (2, 2, 'u16'), 'c_bool': (1, 1, 'u8'),
    'c_uint8': (1, 1, 'u8'), 'c_int8': (1, 1, 'i8'), 'c_uint16': (2, 2, 'u16'), 'c_int16': (2, 2, 'i16'),
}


class PyClass:
    def __init__(self, name, path, node):
        self.name, self.path, self.node = name, path, node
        self.fields_ast = None      # ast.List of the _fields_ finally in effect
        self.fields_line = None
        self.bases = [_name(b) for b in node.bases]
        self.defs = {}              # class-level names -> ast node (FunctionDef / Assign value)
        self.props = {}             # property name -> {'get': FunctionDef, 'set': FunctionDef}


def _name(e):
    if isinstance(e, ast.Attribute):
        return e.attr
    if isinstance(e, ast.Name):
        return e.id
    return None


class PyDB:
    def __init__(self):
        self.files = {}     # relpath -> ast.Module
        self.classes = {}   # class name -> PyClass
        self.module_assigns = {}  # (relpath, name) -> value node
        self.alias_exprs = {}     # NAME -> the CFUNCTYPE(...) / POINTER(...) call it stands for
        self.alias_types = {}     # module-level names bound to ctypes types / subclasses (e.g. allocated_c_char_p)
        paths = sorted(glob.glob(os.path.join(REPO, 'rebound', '*.py')) +
                       glob.glob(os.path.join(REPO, 'rebound', 'integrators', '*.py')))
        if len(paths) < 15:
            raise AnalysisError('python package not found under %s/rebound' % REPO)
        for p in paths:
            rel = os.path.relpath(p, REPO)
            try:
                tree = ast.parse(open(p, encoding='utf-8').read(), filename=p)
            except SyntaxError as e:
                raise AnalysisError('cannot parse %s: %s' % (rel, e))
            self.files[rel] = tree
        for rel, tree in self.files.items():
            self._scan_module(rel, tree.body)

    def _static_test(self, test):
        """Fold the few platform tests that occur at module level (LP64 target)."""
        try:
            src = ast.unparse(test).replace(' ', '')
        except Exception:
            return None
        if src in ('sizeof(c_void_p)==4', 'ctypes.sizeof(ctypes.c_void_p)==4'):
            return False
        if src in ('sizeof(c_void_p)==8', 'ctypes.sizeof(ctypes.c_void_p)==8'):
            return True
        return None

    def _scan_module(self, rel, stmts):
        for st in stmts:
            if isinstance(st, ast.ClassDef):
                c = PyClass(st.name, rel, st)
                self.classes[st.name] = c
                for b in st.body:
                    if isinstance(b, ast.Assign):
                        for t in b.targets:
                            if isinstance(t, ast.Name):
                                c.defs[t.id] = b.value
                                if t.id == '_fields_':
                                    c.fields_ast, c.fields_line = b.value, b.lineno
                    elif isinstance(b, (ast.FunctionDef,)):
                        deco = [ast.unparse(d) for d in b.decorator_list]
                        if 'property' in deco:
                            c.props.setdefault(b.name, {})['get'] = b
                            c.defs[b.name] = b
                        elif any(d.endswith('.setter') for d in deco):
                            c.props.setdefault(b.name, {})['set'] = b
                        elif any(d.endswith('.deleter') for d in deco):
                            c.props.setdefault(b.name, {})['del'] = b
                        else:
                            c.defs[b.name] = b
                if any(_name(b) in PRIM for b in st.bases):
                    base = [_name(b) for b in st.bases if _name(b) in PRIM][0]
                    self.alias_types[st.name] = PRIM[base]
            elif isinstance(st, ast.Assign):
                # NAME = CFUNCTYPE(...) / POINTER(...): a module-level name for a pointer-sized ctypes type
                if len(st.targets) == 1 and isinstance(st.targets[0], ast.Name) and isinstance(st.value, ast.Call) and _name(st.value.func) in ('CFUNCTYPE', 'POINTER'):
                    self.alias_types[st.targets[0].id] = (8, 8, 'fptr/%d' % (len(st.value.args) - 1)) if _name(st.value.func) == 'CFUNCTYPE' else (8, 8, 'ptr')
                    self.alias_exprs[st.targets[0].id] = st.value
                for t in st.targets:
                    if isinstance(t, ast.Attribute) and t.attr == '_fields_' and isinstance(t.value, ast.Name):
                        cn = t.value.id
                        if cn in self.classes:
                            self.classes[cn].fields_ast = st.value
                            self.classes[cn].fields_line = st.lineno
                            self.classes[cn].fields_path = rel
                        else:
                            self.module_assigns[(rel, cn + '._fields_')] = st.value
                            self._late_fields = getattr(self, '_late_fields', [])
                            self._late_fields.append((cn, st.value, st.lineno, rel))
                    elif isinstance(t, ast.Name):
                        self.module_assigns[(rel, t.id)] = st.value
            elif isinstance(st, ast.If):
                v = self._static_test(st.test)
                if v is True:
                    self._scan_module(rel, st.body)
                elif v is False:
                    self._scan_module(rel, st.orelse)
                else:
                    self._scan_module(rel, st.body)
                    self._scan_module(rel, st.orelse)
            elif isinstance(st, (ast.Try,)):
                self._scan_module(rel, st.body)

    def resolve_late(self):
        for cn, val, line, rel in getattr(self, '_late_fields', []):
            if cn in self.classes:
                self.classes[cn].fields_ast = val
                self.classes[cn].fields_line = line
                self.classes[cn].fields_path = rel

    # ------------------------------------------------------------ ctypes ABI calculator (x86-64 SysV, no _pack_)
    def tinfo(self, e):
        """(size, alignment, kind) of a ctypes type expression."""
        n = _name(e)
        if isinstance(e, (ast.Name, ast.Attribute)):
            if n in PRIM:
                return PRIM[n]
            if n in self.alias_types:
                return self.alias_types[n]
            if n in self.classes and self.classes[n].fields_ast is not None:
                s, a, _ = self.layout(n)
                return (s, a, 'struct:' + n)
            if n in self.classes:
                # class deriving from a ctypes simple type elsewhere
                raise AnalysisError('ctypes type %s has no _fields_' % n)
        if isinstance(e, ast.Call):
            fn = _name(e.func)
            if fn == 'POINTER':
                return (8, 8, 'ptr')
            if fn == 'CFUNCTYPE':
                return (8, 8, 'fptr/%d' % (len(e.args) - 1))
        if isinstance(e, ast.BinOp) and isinstance(e.op, ast.Mult):
            s, a, k = self.tinfo(e.left)
            if not (isinstance(e.right, ast.Constant) and isinstance(e.right.value, int)):
                raise AnalysisError('array length is not a literal: ' + ast.unparse(e))
            cnt = e.right.value
            return (s * cnt, a, '%s[%d]' % (k, cnt))
        raise AnalysisError('unknown ctypes type expression: ' + ast.unparse(e))

    def layout(self, cname, _cache={}):
        key = (id(self), cname)
        if key in _cache:
            return _cache[key]
        c = self.classes[cname]
        if c.fields_ast is None or not isinstance(c.fields_ast, ast.List):
            raise AnalysisError('class %s has no literal _fields_' % cname)
        off = 0
        maxa = 1
        out = []
        for elt in c.fields_ast.elts:
            if not (isinstance(elt, ast.Tuple) and len(elt.elts) >= 2 and isinstance(elt.elts[0], ast.Constant)):
                raise AnalysisError('unrecognised _fields_ entry in %s: %s' % (cname, ast.unparse(elt)))
            if len(elt.elts) > 2:
                raise AnalysisError('bit field in %s not supported' % cname)
            fname = elt.elts[0].value
            s, a, k = self.tinfo(elt.elts[1])
            off = (off + a - 1) // a * a
            out.append((off, s, fname, k, elt))
            off += s
            maxa = max(maxa, a)
        size = (off + maxa - 1) // maxa * maxa
        _cache[key] = (size, maxa, out)
        return _cache[key]


_db = {}


def pydb():
    if REPO not in _db:
        d = PyDB()
        d.resolve_late()
        _db[REPO] = d
    return _db[REPO]


def const_value(node, env=None):
    """Fold a literal-ish Python expression (numbers, strings, dict/list/tuple literals, arithmetic)."""
    env = env or {}
    if isinstance(node, ast.Constant):
        return node.value
    if isinstance(node, ast.Dict):
        return {const_value(k, env): const_value(v, env) for k, v in zip(node.keys, node.values)}
    if isinstance(node, (ast.List, ast.Tuple)):
        return [const_value(e, env) for e in node.elts]
    if isinstance(node, ast.UnaryOp) and isinstance(node.op, ast.USub):
        return -const_value(node.operand, env)
    if isinstance(node, ast.UnaryOp) and isinstance(node.op, ast.UAdd):
        return const_value(node.operand, env)
    if isinstance(node, ast.BinOp):
        a, b = const_value(node.left, env), const_value(node.right, env)
        if isinstance(node.op, ast.Add):
            return a + b
        if isinstance(node.op, ast.Sub):
            return a - b
        if isinstance(node.op, ast.Mult):
            return a * b
        if isinstance(node.op, ast.Div):
            return a / b
        if isinstance(node.op, ast.Pow):
            return a ** b
    if isinstance(node, ast.Name) and node.id in env:
        return env[node.id]
    if isinstance(node, ast.Attribute) and isinstance(node.value, ast.Name) and node.value.id == 'math':
        import math
        if hasattr(math, node.attr):
            return getattr(math, node.attr)
    raise ValueError('not a constant: ' + ast.dump(node)[:80])
