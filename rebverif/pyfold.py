"""Constant folding of module-level Python code: option tables that are computed rather than written out
(`{name: i for i, name in enumerate(NAMES)}`, a loop that adds prefixed variants) are evaluated statement by statement over
a whitelisted, side-effect-free subset of the language - literals, arithmetic on int/str, subscripts and slices,
comprehensions, for loops, dict/list item assignment, enumerate/range/len/zip/sorted/dict/list/tuple and
.items()/.keys()/.values()/.lower()/.upper(). Anything else makes the assigned names unknown (never guessed)."""
import ast


class Unknown(Exception):
    pass


SAFE_CALLS = {'enumerate': enumerate, 'range': range, 'len': len, 'zip': zip, 'sorted': sorted, 'dict': dict, 'list': list, 'tuple': tuple, 'int': int, 'str': str, 'reversed': reversed}
SAFE_METHODS = {'items', 'keys', 'values', 'lower', 'upper', 'get', 'copy', 'strip', 'format'}


def ev(e, env):
    if isinstance(e, ast.Constant):
        return e.value
    if isinstance(e, ast.Name):
        if e.id in env:
            return env[e.id]
        raise Unknown(e.id)
    if isinstance(e, (ast.List, ast.Tuple, ast.Set)):
        vs = [ev(x, env) for x in e.elts]
        return vs if isinstance(e, ast.List) else (tuple(vs) if isinstance(e, ast.Tuple) else set(vs))
    if isinstance(e, ast.Dict):
        return {ev(k, env): ev(v, env) for k, v in zip(e.keys, e.values)}
    if isinstance(e, ast.BinOp):
        a, b = ev(e.left, env), ev(e.right, env)
        ops = {ast.Add: lambda: a + b, ast.Sub: lambda: a - b, ast.Mult: lambda: a * b, ast.BitOr: lambda: a | b, ast.BitAnd: lambda: a & b,
               ast.LShift: lambda: a << b, ast.Mod: lambda: a % b, ast.FloorDiv: lambda: a // b}
        if type(e.op) in ops and all(isinstance(x, (int, str, list, tuple)) for x in (a, b)):
            return ops[type(e.op)]()
        raise Unknown('binop')
    if isinstance(e, ast.UnaryOp) and isinstance(e.op, ast.USub):
        return -ev(e.operand, env)
    if isinstance(e, ast.Subscript):
        b = ev(e.value, env)
        if isinstance(e.slice, ast.Slice):
            lo = ev(e.slice.lower, env) if e.slice.lower else None
            hi = ev(e.slice.upper, env) if e.slice.upper else None
            st = ev(e.slice.step, env) if e.slice.step else None
            return b[lo:hi:st]
        return b[ev(e.slice, env)]
    if isinstance(e, ast.Call):
        if isinstance(e.func, ast.Name) and e.func.id in SAFE_CALLS and not e.keywords:
            r = SAFE_CALLS[e.func.id](*[ev(a, env) for a in e.args])
            return list(r) if e.func.id in ('enumerate', 'range', 'zip', 'reversed') else r
        if isinstance(e.func, ast.Attribute) and e.func.attr in SAFE_METHODS and not e.keywords:
            b = ev(e.func.value, env)
            if isinstance(b, (dict, str)):
                r = getattr(b, e.func.attr)(*[ev(a, env) for a in e.args])
                return list(r) if e.func.attr in ('items', 'keys', 'values') else r
        raise Unknown('call')
    if isinstance(e, (ast.ListComp, ast.DictComp, ast.SetComp, ast.GeneratorExp)):
        out = []

        def gen(k, env2):
            if k == len(e.generators):
                if isinstance(e, ast.DictComp):
                    out.append((ev(e.key, env2), ev(e.value, env2)))
                else:
                    out.append(ev(e.elt, env2))
                return
            g = e.generators[k]
            for item in ev(g.iter, env2):
                env3 = dict(env2)
                bind(g.target, item, env3)
                if all(ev(c, env3) for c in g.ifs):
                    gen(k + 1, env3)
        gen(0, env)
        return dict(out) if isinstance(e, ast.DictComp) else (set(out) if isinstance(e, ast.SetComp) else out)
    if isinstance(e, ast.Compare) and len(e.ops) == 1:
        a, b = ev(e.left, env), ev(e.comparators[0], env)
        ops = {ast.Eq: a == b, ast.NotEq: a != b}
        if type(e.ops[0]) in ops:
            return ops[type(e.ops[0])]
        if isinstance(e.ops[0], ast.In):
            return a in b
        if isinstance(e.ops[0], ast.NotIn):
            return a not in b
        if isinstance(e.ops[0], (ast.Lt, ast.LtE, ast.Gt, ast.GtE)):
            return {ast.Lt: a < b, ast.LtE: a <= b, ast.Gt: a > b, ast.GtE: a >= b}[type(e.ops[0])]
    if isinstance(e, ast.JoinedStr):
        return ''.join(str(ev(v.value, env)) if isinstance(v, ast.FormattedValue) else v.value for v in e.values)
    raise Unknown(type(e).__name__)


def bind(t, v, env):
    if isinstance(t, ast.Name):
        env[t.id] = v
    elif isinstance(t, (ast.Tuple, ast.List)):
        vs = list(v)
        if len(vs) != len(t.elts):
            raise Unknown('unpack')
        for x, y in zip(t.elts, vs):
            bind(x, y, env)
    elif isinstance(t, ast.Subscript):
        ev(t.value, env)[ev(t.slice, env)] = v
    else:
        raise Unknown('target')


def _targets(st):
    out = set()
    for x in ast.walk(st):
        if isinstance(x, ast.Name) and isinstance(x.ctx, ast.Store):
            out.add(x.id)
        if isinstance(x, ast.Subscript) and isinstance(x.ctx, ast.Store) and isinstance(x.value, ast.Name):
            out.add(x.value.id)
    return out


def run(stmts, env, budget=[200000]):
    for st in stmts:
        try:
            if isinstance(st, ast.Assign):
                v = ev(st.value, env)
                for t in st.targets:
                    bind(t, v, env)
            elif isinstance(st, ast.For) and not st.orelse:
                for item in ev(st.iter, env):
                    bind(st.target, item, env)
                    run(st.body, env)
            elif isinstance(st, (ast.Import, ast.ImportFrom, ast.FunctionDef, ast.ClassDef, ast.Expr, ast.Pass)):
                continue
            else:
                raise Unknown(type(st).__name__)
        except (Unknown, KeyError, IndexError, TypeError, ValueError, AttributeError):
            for nm in _targets(st):
                env.pop(nm, None)
    return env


def module_constants(tree):
    """{name: value} of the module-level names whose value folds"""
    return run(tree.body, {})
