"""Control-flow normal form of a function body (opt-in, used by the sibling/slice rules before they compare shapes).

The rewrites preserve meaning and turn the shapes a clean-up typically introduces back into the dominant style of the code
base, so that two spellings of one loop or one guard compare equal:
  N1  `init; while (c) { body; step; }`            -> `for (init; c; step) { body }`     (no `continue` in body)
  N2  `if (c) continue; rest...` inside a loop body -> `if (!c) { rest... }`              (rest non-empty)
  N3  `x != 0`, `x != NULL` -> `x`;  `x == 0` -> `!x`;  `!!x` -> `x`;  `!(a < b)` -> `a >= b` for integer operands
  N4  `if (c) return; rest...` at the end of a void function -> `if (!c) { rest... }`
Nodes are copied; the cached AST is never modified."""
import copy
import re

from .cfront import strip, walk, qtype, render

_FLIP = {'<': '>=', '>': '<=', '<=': '>', '>=': '<', '==': '!=', '!=': '=='}


def _is_int(n):
    t = qtype(strip(n, casts=True))
    return ('int' in t or 'size_t' in t or 'long' in t or 'char' in t or t.startswith('enum')) and '*' not in t and 'double' not in t and 'float' not in t


def negate(c):
    """AST of !c, simplified where that is exact."""
    s = strip(c)
    if s.get('kind') == 'UnaryOperator' and s.get('opcode') == '!':
        return s['inner'][0]
    if s.get('kind') == 'BinaryOperator' and s.get('opcode') in _FLIP and _is_int(s['inner'][0]) and _is_int(s['inner'][1]):
        n = dict(s)
        n['opcode'] = _FLIP[s['opcode']]
        return n
    return {'kind': 'UnaryOperator', 'opcode': '!', 'isPostfix': False, 'type': {'qualType': 'int'}, 'inner': [{'kind': 'ParenExpr', 'type': {'qualType': 'int'}, 'inner': [c]}], '_line': c.get('_line')}


def norm_cond(c):
    s = strip(c)
    if s.get('kind') == 'BinaryOperator' and s.get('opcode') in ('!=', '=='):
        a, b = strip(s['inner'][0], casts=True), strip(s['inner'][1], casts=True)
        zero = lambda x: (x.get('kind') == 'IntegerLiteral' and x.get('value') == '0') or render(x).replace(' ', '') in ('((void*)0)', 'NULL', '0')
        other = None
        if zero(b):
            other = s['inner'][0]
        elif zero(a):
            other = s['inner'][1]
        if other is not None and 'double' not in qtype(strip(other, casts=True)) and 'float' not in qtype(strip(other, casts=True)):
            return norm_cond(other) if s['opcode'] == '!=' else negate(norm_cond(other))
    if s.get('kind') == 'BinaryOperator' and s.get('opcode') == '>':
        a, b = strip(s['inner'][0], casts=True), strip(s['inner'][1], casts=True)
        if b.get('kind') == 'IntegerLiteral' and b.get('value') == '0' and 'unsigned' in qtype(a):
            return s['inner'][0]           # x > 0 is x != 0 for an unsigned x
    if s.get('kind') == 'UnaryOperator' and s.get('opcode') == '!':
        inner = strip(s['inner'][0])
        if inner.get('kind') == 'UnaryOperator' and inner.get('opcode') == '!':
            return norm_cond(inner['inner'][0])
        ni = norm_cond(inner)
        if ni is not inner:
            sn = strip(ni)
            if sn.get('kind') == 'UnaryOperator' and sn.get('opcode') == '!':
                return sn['inner'][0]           # !(x == 0) -> !!x -> x
            return {'kind': 'UnaryOperator', 'opcode': '!', 'isPostfix': False, 'type': {'qualType': 'int'}, 'inner': [ni], '_line': c.get('_line')}
        if inner.get('kind') == 'BinaryOperator' and inner.get('opcode') in _FLIP and _is_int(inner['inner'][0]) and _is_int(inner['inner'][1]):
            return negate(inner)
    return c


def _is_step_of(st, var):
    s = strip(st)
    if s.get('kind') == 'UnaryOperator' and s.get('opcode') in ('++', '--'):
        return render(s['inner'][0]) == var
    if s.get('kind') == 'CompoundAssignOperator' and s.get('opcode') in ('+=', '-='):
        return render(s['inner'][0]) == var
    return False


def _has_continue(node):
    """a continue that belongs to this loop (not to a nested one)"""
    for c in node.get('inner', []) or []:
        if not isinstance(c, dict):
            continue
        k = c.get('kind')
        if k == 'ContinueStmt':
            return True
        if k in ('ForStmt', 'WhileStmt', 'DoStmt'):
            continue
        if _has_continue(c):
            return True
    return False


def _init_var(st):
    if st.get('kind') == 'DeclStmt':
        ds = [d for d in st.get('inner', []) if d.get('kind') == 'VarDecl']
        if len(ds) == 1 and 'init' in ds[0]:
            return ds[0]['name']
        return None
    s = strip(st)
    if s.get('kind') == 'BinaryOperator' and s.get('opcode') == '=':
        l = strip(s['inner'][0])
        if l.get('kind') == 'DeclRefExpr':
            return l['referencedDecl']['name']
    return None


_GUARDS = [True]


def _norm_list(items, in_loop, at_function_end, void_fn):
    out = []
    items = [_norm(i, False, False, void_fn) if isinstance(i, dict) else i for i in items]
    i = 0
    while i < len(items):
        st = items[i]
        k = st.get('kind') if isinstance(st, dict) else None
        # N1
        if k == 'WhileStmt' and out:
            prev = out[-1]
            v = _init_var(prev) if isinstance(prev, dict) else None
            body = st['inner'][1]
            if v and body.get('kind') == 'CompoundStmt' and body.get('inner') and _is_step_of(body['inner'][-1], v) \
                    and not _has_continue(body) and any(x.get('kind') == 'DeclRefExpr' and x['referencedDecl'].get('name') == v for x in walk(st['inner'][0])):
                nb = dict(body)
                nb['inner'] = body['inner'][:-1]
                f = {'kind': 'ForStmt', '_line': st.get('_line'), 'inner': [prev, {}, st['inner'][0], body['inner'][-1], nb]}
                out[-1] = f
                i += 1
                continue
        # N2 / N4
        if _GUARDS[0] and k == 'IfStmt' and len(st['inner']) == 2 and i + 1 < len(items):
            th = st['inner'][1]
            kinds = [x.get('kind') for x in (th.get('inner', []) if th.get('kind') == 'CompoundStmt' else [th])]
            if (in_loop and kinds == ['ContinueStmt']) or (at_function_end and void_fn and kinds == ['ReturnStmt'] and not (th.get('inner', [{}])[0].get('inner') if th.get('kind') == 'CompoundStmt' else th.get('inner'))):
                rest = _norm_list(items[i + 1:], in_loop, at_function_end, void_fn)
                new_if = {'kind': 'IfStmt', '_line': st.get('_line'), 'inner': [norm_cond(negate(st['inner'][0])), {'kind': 'CompoundStmt', '_line': st.get('_line'), 'inner': rest}]}
                out.append(new_if)
                return out
        # N4b: in a void function, `if (c) { A; return; } B` at the end of the body is `if (c) { A } else { B }`
        if _GUARDS[0] and k == 'IfStmt' and len(st['inner']) == 2 and i + 1 < len(items) and at_function_end and void_fn:
            th = st['inner'][1]
            titems = th.get('inner', []) if th.get('kind') == 'CompoundStmt' else [th]
            if len(titems) >= 2 and titems[-1].get('kind') == 'ReturnStmt' and not titems[-1].get('inner') \
                    and not any(x.get('kind') == 'ReturnStmt' for t_ in titems[:-1] for x in walk(t_)):
                rest = _norm_list(items[i + 1:], in_loop, at_function_end, void_fn)
                new_if = {'kind': 'IfStmt', '_line': st.get('_line'), 'inner': [st['inner'][0],
                          {'kind': 'CompoundStmt', '_line': th.get('_line'), 'inner': list(titems[:-1])},
                          {'kind': 'CompoundStmt', '_line': st.get('_line'), 'inner': rest}]}
                out.append(new_if)
                return out
        out.append(st)
        i += 1
    return out


def _norm(node, in_loop_body, at_function_end, void_fn):
    k = node.get('kind')
    n = dict(node)
    if k == 'CompoundStmt':
        n['inner'] = _norm_list(list(node.get('inner', [])), in_loop_body, at_function_end, void_fn)
        return n
    if k in ('ForStmt', 'WhileStmt'):
        inner = list(node.get('inner', []))
        body = inner[-1]
        if body and body.get('kind') == 'CompoundStmt':
            b = dict(body)
            b['inner'] = _norm_list(list(body.get('inner', [])), True, False, void_fn)
            inner[-1] = b
        if k == 'WhileStmt':
            inner[0] = norm_cond(inner[0])
        elif inner[2] and inner[2].get('kind'):
            inner[2] = norm_cond(inner[2])
        n['inner'] = inner
        return n
    if k == 'IfStmt':
        inner = list(node['inner'])
        inner[0] = norm_cond(inner[0])
        inner[1:] = [_norm(c, in_loop_body, False, void_fn) if isinstance(c, dict) and c.get('kind') else c for c in inner[1:]]
        n['inner'] = inner
        return n
    if k in ('SwitchStmt', 'CaseStmt', 'DefaultStmt', 'DoStmt', 'LabelStmt'):
        n['inner'] = [_norm(c, False, False, void_fn) if isinstance(c, dict) and c.get('kind') else c for c in node.get('inner', [])]
        return n
    return node


def normalised_function(fn, guards=True):
    """a copy of the FunctionDecl whose body is in normal form; guards=False keeps `if (c) continue/return;` guards as they
    are and only rewrites loops and conditions"""
    _GUARDS[0] = guards
    try:
        return _normalised_function(fn)
    finally:
        _GUARDS[0] = True


def _normalised_function(fn):
    out = dict(fn)
    inner = []
    void_fn = (fn.get('type') or {}).get('qualType', '').startswith('void ')
    for c in fn.get('inner', []):
        if c.get('kind') == 'CompoundStmt':
            b = dict(c)
            b['inner'] = _norm_list(list(c.get('inner', [])), False, True, void_fn)
            inner.append(b)
        else:
            inner.append(c)
    out['inner'] = inner
    return out


def main_loop(top, contains_call):
    """(index, condition node, body statements) of the statement of `top` that is the loop containing a call of
    `contains_call`. `while (c) {B}`, `for (;c;) {B}` and `for (;;) { if (!c) break; B }` are one shape."""
    from .cfront import callee_name
    for i, st in enumerate(top):
        if st.get('kind') not in ('WhileStmt', 'ForStmt', 'DoStmt'):
            continue
        if not any(e.get('kind') == 'CallExpr' and callee_name(e) == contains_call for e in walk(st)):
            continue
        if st['kind'] == 'WhileStmt':
            cond, body = st['inner'][0], st['inner'][1]
        elif st['kind'] == 'ForStmt':
            cond, body = st['inner'][2], st['inner'][-1]
        else:
            cond, body = st['inner'][1], st['inner'][0]
        items = list(body.get('inner', [])) if body.get('kind') == 'CompoundStmt' else [body]
        if (not cond or not cond.get('kind')) and items:
            # `for (;;) { [const T v = f(..);] if (!c) break; B }`: leading declarations of locals that only feed the exit test
            # are inlined into it
            lets = {}
            k = 0
            while k < len(items) and items[k].get('kind') == 'DeclStmt' and all(d.get('kind') == 'VarDecl' and 'init' in d for d in items[k].get('inner', [])):
                for d in items[k]['inner']:
                    init = [c for c in d.get('inner', []) if c.get('kind') not in ('FullComment',)]
                    if init:
                        lets[d.get('id')] = init[-1]
                k += 1
            if k < len(items) and items[k].get('kind') == 'IfStmt' and len(items[k]['inner']) == 2:
                th = items[k]['inner'][1]
                kinds = [x.get('kind') for x in (th.get('inner', []) if th.get('kind') == 'CompoundStmt' else [th])]
                if kinds == ['BreakStmt']:
                    c0 = items[k]['inner'][0]
                    if lets:
                        import copy as _copy
                        c0 = _copy.deepcopy(c0)

                        def sub(n):
                            for idx, ch in enumerate(n.get('inner', []) or []):
                                if isinstance(ch, dict):
                                    if ch.get('kind') == 'DeclRefExpr' and ch.get('referencedDecl', {}).get('id') in lets:
                                        n['inner'][idx] = {'kind': 'ParenExpr', 'type': ch.get('type', {}), 'inner': [lets[ch['referencedDecl']['id']]]}
                                    else:
                                        sub(ch)
                        wrapper = {'kind': 'ParenExpr', 'inner': [c0]}
                        sub(wrapper)
                        c0 = wrapper['inner'][0]
                    cond = norm_cond(negate(c0))
                    items = items[k + 1:]
        return i, cond, items
    return None, None, None


# ---------------------------------------------------------------- helper inlining
def _subst(node, pmap, line=None):
    """deep copy of node with references to parameters replaced by the argument expressions; every copied node is given
    the line of the call site, so that rules ordering events by line see the helper's body where the call stands"""
    if not isinstance(node, dict):
        return node
    if node.get('kind') == 'DeclRefExpr' and (node.get('referencedDecl') or {}).get('id') in pmap:
        return {'kind': 'ParenExpr', 'type': node.get('type'), 'inner': [copy.deepcopy(pmap[node['referencedDecl']['id']])], '_line': line or node.get('_line')}
    out = dict(node)
    if line is not None and '_line' in out:
        out['_line'] = line
    if 'inner' in node:
        out['inner'] = [_subst(c, pmap, line) for c in node['inner']]
    # *(&x) -> x
    if out.get('kind') == 'UnaryOperator' and out.get('opcode') == '*':
        a = strip(out['inner'][0], casts=False)
        if a.get('kind') == 'UnaryOperator' and a.get('opcode') == '&':
            return a['inner'][0]
    if out.get('kind') == 'MemberExpr' and out.get('isArrow'):
        a = strip(out['inner'][0], casts=False)
        if a.get('kind') == 'UnaryOperator' and a.get('opcode') == '&':
            out['inner'] = [a['inner'][0]]
            out['isArrow'] = False
        elif a.get('kind') == 'BinaryOperator' and a.get('opcode') == '+' and '*' in ((a.get('type') or {}).get('qualType') or ''):
            # (P + i)->m  is  P[i].m
            pt = (a.get('type') or {}).get('qualType', '')
            et = re.sub(r'\s*\*\s*(const|restrict|volatile|\s)*$', '', pt)
            out['inner'] = [{'kind': 'ArraySubscriptExpr', 'type': {'qualType': et}, '_line': a.get('_line'), 'inner': list(a['inner'])}]
            out['isArrow'] = False
    return out


def dealiased(fn):
    """a copy of the function in which locals that merely name a value or a place - declared once with an initialiser,
    never assigned again, address never taken, of pointer or arithmetic type, not a loop counter - are replaced by their
    initialiser: `ri = &(r->ri_sei); dt = r->dt; p = particles + i;  ri->sindt = sin(ri->OMEGA*dt); p->x = ..` reads
    `r->ri_sei.sindt = sin(r->ri_sei.OMEGA*r->dt); r->particles[i].x = ..`. Like any let-inlining over memory this
    assumes that what the initialiser reads is not changed between the declaration and the use; it is meant for rules
    that compare the shape of a few statements, and they are expected to fail closed when the shape is not found."""
    from . import cfront as _cf
    b = _cf.body(fn)
    if b is None:
        return fn
    mutated, addr = set(), set()
    for e in walk(b):
        if _cf.is_assign(e):
            l = strip(e['inner'][0])
            if l.get('kind') == 'DeclRefExpr':
                mutated.add(l['referencedDecl'].get('id'))
        if e.get('kind') == 'UnaryOperator' and e.get('opcode') in ('++', '--', '&', '++post', '--post'):
            l = strip(e['inner'][0])
            if l.get('kind') == 'DeclRefExpr':
                (addr if e.get('opcode') == '&' else mutated).add(l['referencedDecl'].get('id'))
    loopvars = set()
    for f in walk(b):
        if f.get('kind') == 'ForStmt' and f['inner'][0] and f['inner'][0].get('kind') == 'DeclStmt':
            for d in f['inner'][0].get('inner', []):
                if d.get('kind') == 'VarDecl':
                    loopvars.add(d.get('id'))
    names = {}
    for d in walk(b):
        if d.get('kind') == 'VarDecl':
            names.setdefault(d.get('name'), []).append(d)
    pmap = {}
    for d in walk(b):
        if d.get('kind') != 'VarDecl' or 'init' not in d or d.get('id') in mutated | addr | loopvars:
            continue
        t = _cf.qtype(d)
        if '[' in t or ((t.startswith('struct') or t.startswith('const struct') or t.startswith('union')) and '*' not in t):
            continue
        init = [c for c in d.get('inner', []) if c.get('kind') not in ('FullComment',)]
        if not init or init[-1].get('kind') == 'InitListExpr':
            continue
        if any(x.get('kind') == 'CallExpr' or (x.get('kind') == 'UnaryOperator' and x.get('opcode') in ('++', '--')) or x.get('kind') == 'CompoundAssignOperator'
               or (x.get('kind') == 'BinaryOperator' and x.get('opcode') == '=') for x in walk(init[-1])):
            continue        # a value computed by a call, or an initialiser with a side effect, is not a name for a place
        pmap[d['id']] = _subst(init[-1], pmap)
    if not pmap:
        return fn
    out = dict(fn)
    out['inner'] = [(_subst(c, pmap) if c.get('kind') == 'CompoundStmt' else c) for c in fn.get('inner', [])]
    return out


def _rename_locals(node, ids):
    """copy of node with the locals whose declaration id is in ids renamed (declarations and references)"""
    if not isinstance(node, dict):
        return node
    out = dict(node)
    if node.get('kind') == 'VarDecl' and node.get('id') in ids:
        out['name'] = ids[node['id']]
    if node.get('kind') == 'DeclRefExpr' and (node.get('referencedDecl') or {}).get('id') in ids:
        rd = dict(node['referencedDecl'])
        rd['name'] = ids[rd['id']]
        out['referencedDecl'] = rd
    if 'inner' in node:
        out['inner'] = [_rename_locals(c, ids) for c in node['inner']]
    return out


def _returns(node):
    return [x for x in walk(node) if x.get('kind') == 'ReturnStmt']


def _helper_shape(h):
    """('expr', E) for `return E;`, ('void', [stmts]) for a body without returns (after normalisation),
    ('value', [stmts], E) for statements followed by one final `return E;`, else None"""
    nb = None
    for c in normalised_function(h).get('inner', []):
        if c.get('kind') == 'CompoundStmt':
            nb = c
    if nb is None:
        return None
    items = list(nb.get('inner', []))
    if len(items) == 1 and items[0].get('kind') == 'ReturnStmt' and items[0].get('inner'):
        return ('expr', items[0]['inner'][0])
    # a predicate written as a chain of early returns: if (c1) return 1; if (c2) return 1; ... return 0;  ==  c1 || c2 || ...
    raw = None
    for c in h.get('inner', []):
        if c.get('kind') == 'CompoundStmt':
            raw = list(c.get('inner', []))
    if raw and len(raw) >= 2 and raw[-1].get('kind') == 'ReturnStmt' and raw[-1].get('inner'):
        def const_ret(st):
            items_ = st.get('inner', []) if st.get('kind') == 'CompoundStmt' else [st]
            if len(items_) == 1 and items_[0].get('kind') == 'ReturnStmt' and items_[0].get('inner'):
                v = strip(items_[0]['inner'][0], casts=True)
                if v.get('kind') == 'IntegerLiteral':
                    return v.get('value')
            return None
        last = strip(raw[-1]['inner'][0], casts=True)
        if last.get('kind') == 'IntegerLiteral' and last.get('value') == '0' and all(
                st.get('kind') == 'IfStmt' and len(st['inner']) == 2 and const_ret(st['inner'][1]) == '1' for st in raw[:-1]):
            e = raw[0]['inner'][0]
            for st in raw[1:-1]:
                e = {'kind': 'BinaryOperator', 'opcode': '||', 'type': {'qualType': 'int'}, 'inner': [e, st['inner'][0]], '_line': st.get('_line')}
            return ('expr', e)
        # ... ending in a truth value: if (c1) return 1; if (c2) return 0; return a != b;  ==  c1 || (!c2 && a != b)
        truth = last.get('kind') == 'BinaryOperator' and last.get('opcode') in ('==', '!=', '<', '<=', '>', '>=', '&&', '||') \
            or last.get('kind') == 'UnaryOperator' and last.get('opcode') == '!'
        if truth and all(st.get('kind') == 'IfStmt' and len(st['inner']) == 2 and const_ret(st['inner'][1]) in ('0', '1') for st in raw[:-1]):
            e = raw[-1]['inner'][0]
            for st in reversed(raw[:-1]):
                if const_ret(st['inner'][1]) == '1':
                    e = {'kind': 'BinaryOperator', 'opcode': '||', 'type': {'qualType': 'int'}, 'inner': [st['inner'][0], {'kind': 'ParenExpr', 'type': {'qualType': 'int'}, 'inner': [e]}], '_line': st.get('_line')}
                else:
                    neg = {'kind': 'UnaryOperator', 'opcode': '!', 'type': {'qualType': 'int'}, 'inner': [{'kind': 'ParenExpr', 'type': {'qualType': 'int'}, 'inner': [st['inner'][0]]}], '_line': st.get('_line')}
                    e = {'kind': 'BinaryOperator', 'opcode': '&&', 'type': {'qualType': 'int'}, 'inner': [neg, {'kind': 'ParenExpr', 'type': {'qualType': 'int'}, 'inner': [e]}], '_line': st.get('_line')}
            return ('expr', e)
    rets = _returns(nb)
    if not rets:
        return ('void', items)
    if len(rets) == 1 and items and items[-1] is rets[0]:
        if rets[0].get('inner'):
            return ('value', items[:-1], rets[0]['inner'][0])
        return ('void', items[:-1])
    return None


def inline_new_helpers(tu, fn, is_new, depth=3):
    """copy of fn in which calls of file-local helpers selected by is_new(name) are replaced by their bodies. Used by rules
    that look for a shape inside one function: a block that a clean-up moved into a new static helper is seen where it was."""
    from .cfront import callee_name, call_args, params
    helpers = {}
    for name, h in tu.funcs.items():
        if name != fn.get('name') and is_new(name) and h.get('storageClass') == 'static':
            sh = _helper_shape(h)
            if sh is not None:
                helpers[name] = (h, sh)
    if not helpers:
        return fn

    uses = {}

    def pmap_for(h, call):
        ps = params(h)
        args = call_args(call)
        if len(ps) != len(args):
            return None
        return {p['id']: a for p, a in zip(ps, args) if p.get('id')}

    def expr_inline(node):
        if not isinstance(node, dict):
            return node
        out = dict(node)
        if 'inner' in node:
            out['inner'] = [expr_inline(c) for c in node['inner']]
        if out.get('kind') == 'CallExpr' and callee_name(out) in helpers and helpers[callee_name(out)][1][0] == 'expr':
            h, sh = helpers[callee_name(out)]
            pm = pmap_for(h, out)
            if pm is not None:
                return {'kind': 'ParenExpr', 'type': out.get('type'), 'inner': [_subst(sh[1], pm, out.get('_line'))], '_line': out.get('_line')}
        return out

    def stmt_list(items):
        res = []
        for st in items:
            st = block(st)
            s = strip(st) if st.get('kind') in ('ParenExpr', 'ImplicitCastExpr') else st
            call = None
            how = None
            if s.get('kind') == 'CallExpr' and callee_name(s) in helpers:
                call, how = s, 'stmt'
            elif s.get('kind') == 'BinaryOperator' and s.get('opcode') == '=' and strip(s['inner'][1], casts=True).get('kind') == 'CallExpr' and callee_name(strip(s['inner'][1], casts=True)) in helpers:
                call, how = strip(s['inner'][1], casts=True), 'assign'
            elif s.get('kind') == 'ReturnStmt' and s.get('inner') and strip(s['inner'][0], casts=True).get('kind') == 'CallExpr' and callee_name(strip(s['inner'][0], casts=True)) in helpers:
                call, how = strip(s['inner'][0], casts=True), 'return'
            elif s.get('kind') == 'DeclStmt' and len([d for d in s.get('inner', []) if d.get('kind') == 'VarDecl']) == 1:
                d = [d for d in s['inner'] if d.get('kind') == 'VarDecl'][0]
                ini = [c for c in d.get('inner', []) if c.get('kind') not in ('FullComment',)]
                if ini and 'init' in d and strip(ini[-1], casts=True).get('kind') == 'CallExpr' and callee_name(strip(ini[-1], casts=True)) in helpers:
                    call, how = strip(ini[-1], casts=True), 'decl'
            if call is not None:
                h, sh = helpers[callee_name(call)]
                pm = pmap_for(h, call)
                if pm is not None and sh[0] in ('void', 'value') and not (sh[0] == 'void' and how != 'stmt'):
                    cl = call.get('_line') or s.get('_line') or st.get('_line')
                    body_items = [_subst(x, pm, cl) for x in sh[1]]
                    val_src = sh[2] if sh[0] == 'value' else None
                    # a helper spliced in more than once: its locals get a name of their own per call site, so that three
                    # inlined `double m = 0; for (..) m += ..; return m;` stay three accumulators
                    uses[callee_name(call)] = uses.get(callee_name(call), 0) + 1
                    ncalls = sum(1 for x_ in walk(fn) if x_.get('kind') == 'CallExpr' and callee_name(x_) == callee_name(call))
                    if ncalls > 1:
                        ids = {d_['id']: '%s__%d' % (d_['name'], uses[callee_name(call)]) for it_ in sh[1] for d_ in walk(it_) if d_.get('kind') == 'VarDecl' and d_.get('id')}
                        if ids:
                            body_items = [_rename_locals(x, ids) for x in body_items]
                            if val_src is not None:
                                val_src = _rename_locals(val_src, ids)
                    res.extend(stmt_list(body_items))
                    if sh[0] == 'value':
                        val = _subst(val_src, pm, cl)
                        if how == 'assign':
                            n2 = dict(s)
                            n2['inner'] = [s['inner'][0], val]
                            res.append(n2)
                        elif how == 'return':
                            n2 = dict(s)
                            n2['inner'] = [val]
                            res.append(n2)
                        elif how == 'decl':
                            d2 = dict(d)
                            d2['inner'] = [c for c in d.get('inner', []) if c.get('kind') in ('FullComment',)] + [val]
                            n2 = dict(s)
                            n2['inner'] = [d2 if x is d else x for x in s['inner']]
                            res.append(n2)
                    continue
            res.append(expr_inline(st) if st.get('kind') not in ('CompoundStmt', 'IfStmt', 'ForStmt', 'WhileStmt', 'DoStmt', 'SwitchStmt', 'CaseStmt', 'DefaultStmt', 'LabelStmt') else st)
        return res

    def block(node):
        k = node.get('kind')
        if k == 'CompoundStmt':
            n2 = dict(node)
            n2['inner'] = stmt_list(list(node.get('inner', [])))
            return n2
        if k in ('IfStmt', 'ForStmt', 'WhileStmt', 'DoStmt', 'SwitchStmt', 'CaseStmt', 'DefaultStmt', 'LabelStmt'):
            n2 = dict(node)
            new_inner = []
            for c in node.get('inner', []):
                if isinstance(c, dict) and c.get('kind') in ('CompoundStmt', 'IfStmt', 'ForStmt', 'WhileStmt', 'DoStmt', 'SwitchStmt', 'CaseStmt', 'DefaultStmt', 'LabelStmt'):
                    new_inner.append(block(c))
                elif isinstance(c, dict) and c.get('kind') and (c.get('kind').endswith('Stmt') or c.get('kind') in ('CallExpr', 'BinaryOperator', 'CompoundAssignOperator', 'UnaryOperator')) and k in ('IfStmt', 'ForStmt', 'WhileStmt', 'DoStmt', 'CaseStmt', 'DefaultStmt', 'LabelStmt') and c is not node['inner'][0]:
                    # a single statement as a branch: wrap so that a helper body can be spliced
                    w = stmt_list([c])
                    new_inner.append(w[0] if len(w) == 1 else {'kind': 'CompoundStmt', 'inner': w, '_line': c.get('_line')})
                else:
                    new_inner.append(expr_inline(c) if isinstance(c, dict) else c)
            n2['inner'] = new_inner
            return n2
        return node

    cur = fn
    for _ in range(depth):
        out = dict(cur)
        out['inner'] = [block(c) if c.get('kind') == 'CompoundStmt' else c for c in cur.get('inner', [])]
        if out == cur:
            break
        cur = out
    return cur


def reference_names(cfile):
    from . import cfront as _cf
    if _cf._refnames is None:
        try:
            import json
            _cf._refnames = json.load(open(_cf.REFNAMES_FILE))
        except (OSError, ValueError):
            _cf._refnames = {}
    return set(k for k in (_cf._refnames.get(cfile) or {}).keys() if k != '__statics__')


def with_new_helpers_inlined(tu, fn):
    """fn with the helpers that do not exist in the reference tree inlined (see inline_new_helpers)"""
    ref = reference_names(tu.cfile)
    if not ref:
        return fn
    return inline_new_helpers(tu, fn, lambda name: name not in ref)


def with_new_helpers(tu, fname, depth=3):
    """[fn, helper, ...]: the function and the bodies of the helpers it calls that do not exist in the reference tree and
    could not be inlined (early returns, switches). Rules that look for a statement "in fname" search all of them."""
    from . import cfront as _cf
    ref = reference_names(tu.cfile)
    out, seen, todo = [], set(), [(fname, 0)]
    while todo:
        nm, d = todo.pop(0)
        if nm in seen or nm not in tu.funcs:
            continue
        seen.add(nm)
        f_ = tu.func(nm)
        b = _cf.body(f_)
        if b is None:
            continue
        out.append(f_)
        if d >= depth:
            continue
        for e in _cf.walk(b):
            if e.get('kind') == 'CallExpr':
                cal = _cf.callee_name(e)
                if cal and cal in tu.funcs and ref and cal not in ref:
                    todo.append((cal, d + 1))
    return out
