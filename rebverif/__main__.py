"""CLI: python3-vt -m rebverif check <ID> [--tier quick|thorough]"""
import importlib
import os
import sys
import traceback


def _deps():
    """sympy/mpmath/networkx come from the tooling venv; fall back to the offline wheelhouse."""
    try:
        import sympy  # noqa: F401
        import mpmath  # noqa: F401
        return
    except ImportError:
        pass
    here = os.path.dirname(os.path.dirname(os.path.abspath(__file__)))
    deps = os.path.join(here, '.deps')
    if not os.path.isdir(deps):
        import subprocess
        subprocess.run([sys.executable, '-m', 'pip', 'install', '--no-index', '--find-links', '/opt/veriftools/wheels',
                        '--target', deps, 'sympy', 'mpmath', 'networkx'], stdout=subprocess.DEVNULL, stderr=subprocess.DEVNULL)
    sys.path.insert(0, deps)


# property id -> (module, evidence level, technique)
from .claims import CLAIMS
CHECKS = {k: (v['module'], v['level'], v['technique']) for k, v in CLAIMS.items()}


def main(argv):
    from .core import Ctx, AnalysisError, finish
    if len(argv) < 2 or argv[0] not in ('check', 'explain'):
        print('usage: python3-vt -m rebverif check <ID> [--tier quick|thorough]')
        return 2
    if argv[0] == 'explain':
        import json
        d = json.load(open(argv[1]))
        for r in d.get('reports', []):
            print('%s %s %s: %s' % (r['rule'], r['where'], r['key'], r['msg']))
        argv = ['check', d['property']] + argv[2:]
    pid = argv[1]
    tier = 'quick'
    if '--tier' in argv:
        tier = argv[argv.index('--tier') + 1]
    tier = os.environ.get('VERIF_TIER', tier) or tier
    if tier not in ('quick', 'thorough'):
        tier = 'quick'
    try:
        seed = int(os.environ.get('VERIF_SEED', '0') or 0)
    except ValueError:
        seed = 0
    if pid not in CHECKS:
        print('ANALYSIS-ERROR no armed rule for property %s' % pid)
        return 2
    modname, level, technique = CHECKS[pid]
    ctx = Ctx(pid, tier, seed)
    try:
        _deps()
        mod = importlib.import_module('.rules.' + modname, __package__)
        mod.run(ctx)
        level = getattr(mod, 'LEVEL', level)
        return finish(ctx, level=level, technique=technique,
                      checker_cmd=getattr(mod, 'CHECKER_CMD', None), trusted_base=getattr(mod, 'TRUSTED_BASE', None))
    except AnalysisError as e:
        print('ANALYSIS-ERROR %s: %s' % (pid, e))
        return 2
    except Exception:
        traceback.print_exc()
        print('ANALYSIS-ERROR %s: internal error in the checker (traceback above)' % pid)
        return 2


if __name__ == '__main__':
    sys.exit(main(sys.argv[1:]))
