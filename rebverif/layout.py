"""E2 - ABI record layouts (clang -fdump-record-layouts), folded descriptor table (LLVM IR), enums per member."""
import os
import re
import subprocess
import tempfile

from .core import REPO, AnalysisError
from . import cfront


class Member:
    __slots__ = ('offset', 'ctype', 'name', 'size', 'children', 'depth')

    def __init__(self, offset, ctype, name, depth):
        self.offset, self.ctype, self.name, self.depth = offset, ctype, name, depth
        self.size = None
        self.children = []

    def __repr__(self):
        return 'Member(%d,%r,%r,size=%s)' % (self.offset, self.ctype, self.name, self.size)


class Record:
    def __init__(self, name, size, align, members):
        self.name, self.size, self.align, self.members = name, size, align, members

    def leaves(self, prefix='', members=None):
        """Flattened (path, Member) for all leaf members (arrays of scalars count as one leaf)."""
        out = []
        for m in (self.members if members is None else members):
            p = prefix + m.name
            if m.children:
                out.extend(self.leaves(p + '.', m.children))
            else:
                out.append((p, m))
        return out

    def member_at(self, offset):
        """Deepest member path starting exactly at offset, preferring the outermost that is not a struct."""
        hits = []

        def rec(ms, prefix):
            for m in ms:
                if m.offset == offset:
                    hits.append((prefix + m.name, m))
                if m.children and m.offset <= offset < m.offset + (m.size or 0):
                    rec(m.children, prefix + m.name + '.')
        rec(self.members, '')
        return hits


_layout_cache = {}


def record_layouts(config='default'):
    """{struct name: Record} for every struct defined in src/rebound.h and the other src headers."""
    key = (REPO, config)
    if key in _layout_cache:
        return _layout_cache[key]
    tu = cfront.load_tu('rebound.c', config)
    names = sorted(n for n, r in tu.records.items() if (r.get('_file') or '').endswith('.h'))
    hdrs = sorted({os.path.basename(tu.records[n]['_file']) for n in names} | {'rebound.h'})
    src = ''.join('#include "%s"\n' % h for h in hdrs)
    src += 'unsigned long rebverif_sizes[] = {\n' + ''.join('  sizeof(struct %s),\n' % n for n in names) + '};\n'
    with tempfile.NamedTemporaryFile('w', suffix='.c', dir=os.path.join(REPO, 'src') if False else None,
                                     delete=False) as f:
        f.write(src)
        tmp = f.name
    try:
        cmd = [cfront.CLANG, '-fsyntax-only'] + cfront.BASE_FLAGS + cfront.CONFIGS[config] + \
              ['-Xclang', '-fdump-record-layouts', tmp]
        p = subprocess.run(cmd, cwd=REPO, capture_output=True, text=True)
    finally:
        os.unlink(tmp)
    if p.returncode != 0:
        raise AnalysisError('clang record layout dump failed: ' + p.stderr[-1500:])
    recs = {}
    for block in p.stdout.split('*** Dumping AST Record Layout')[1:]:
        lines = [l for l in block.split('\n') if '|' in l]
        if not lines:
            continue
        m0 = re.match(r'\s*0 \| (struct|union) (\S.*)$', lines[0])
        if not m0:
            continue
        name = m0.group(2).strip()
        if name not in tu.records:
            continue
        ms = re.search(r'\[sizeof=(\d+), align=(\d+)', block)
        size, align = int(ms.group(1)), int(ms.group(2))
        stack = []   # (depth, Member)
        top = []
        for l in lines[1:]:
            m = re.match(r'\s*(\d+) \|(\s+)(.*)$', l)
            if not m:
                continue
            depth = (len(m.group(2)) - 1) // 2
            txt = m.group(3).rstrip()
            toks = txt.rsplit(' ', 1)
            if len(toks) != 2:
                continue
            ctype, mname = toks[0].strip(), toks[1].strip()
            mem = Member(int(m.group(1)), ctype, mname, depth)
            while stack and stack[-1][0] >= depth:
                stack.pop()
            if stack:
                stack[-1][1].children.append(mem)
            else:
                top.append(mem)
            stack.append((depth, mem))

        def sizes(ms, end):
            for i, mm in enumerate(ms):
                nxt = ms[i + 1].offset if i + 1 < len(ms) else end
                mm.size = nxt - mm.offset   # includes trailing padding; refined below for known types
                if mm.children:
                    sizes(mm.children, mm.offset + mm.size)
        sizes(top, size)
        recs[name] = Record(name, size, align, top)
    # refine sizes using sizeof of known types (removes padding from the estimate)
    for r in recs.values():
        _refine(r.members, recs)
    missing = [n for n in names if n not in recs]
    if missing:
        raise AnalysisError('no record layout for: ' + ', '.join(missing))
    _layout_cache[key] = recs
    return recs


PRIM_SIZE = {'double': 8, 'float': 4, 'int': 4, 'unsigned int': 4, 'uint32_t': 4, 'int32_t': 4, 'uint64_t': 8,
             'int64_t': 8, 'long': 8, 'unsigned long': 8, 'size_t': 8, 'char': 1, 'unsigned char': 1,
             'short': 2, 'unsigned short': 2, 'long long': 8, 'unsigned long long': 8, 'pthread_t': 8,
             'pthread_mutex_t': 40, '__m512d': 64, '__m512i': 64}


def type_size(ctype, recs):
    t = ctype.replace('const ', '').replace('volatile ', '').strip()
    m = re.match(r'^(.*?)((\[\d+\])+)$', t)
    if m:
        base = type_size(m.group(1).strip(), recs)
        if base is None:
            return None
        n = 1
        for d in re.findall(r'\[(\d+)\]', m.group(2)):
            n *= int(d)
        return base * n
    if '(*)' in t or t.endswith('*'):
        return 8
    if t.startswith('enum ') or t.startswith('enum('):
        return 4
    if t in PRIM_SIZE:
        return PRIM_SIZE[t]
    if t.startswith('struct '):
        r = recs.get(t[7:].strip())
        if r:
            return r.size
    return None


def _refine(ms, recs):
    for m in ms:
        s = type_size(m.ctype, recs)
        if s is not None:
            m.size = s
        if m.children:
            _refine(m.children, recs)


def ckind(ctype):
    """Coarse kind of a C member type, comparable with the Python side."""
    t = re.sub(r'\b(const|volatile|__restrict|restrict)\b', '', ctype)
    t = re.sub(r'\s+', ' ', t).replace(' *', '*').replace('* ', '*').replace(' [', '[').strip()
    t = re.sub(r'\*+', lambda m_: ' ' + m_.group(0), t).replace('( *)', '(*)').replace('(  *)', '(*)').strip()
    m = re.match(r'^(.*?)((\[\d+\])+)$', t)
    if m:
        n = 1
        for d in re.findall(r'\[(\d+)\]', m.group(2)):
            n *= int(d)
        return '%s[%d]' % (ckind(m.group(1).strip()), n)
    if '(*)' in t:
        ret, rest = t.split('(*)', 1)
        args = rest.strip()[1:-1].strip()
        if args in ('void', ''):
            n = 0
        else:
            depth = 0
            n = 1
            for ch in args:
                if ch == '(':
                    depth += 1
                elif ch == ')':
                    depth -= 1
                elif ch == ',' and depth == 0:
                    n += 1
        return 'fptr/%d' % n
    if t.endswith('*'):
        return 'ptr'
    if t == 'double':
        return 'f64'
    if t == 'float':
        return 'f32'
    if t in ('int', 'int32_t'):
        return 'i32'
    if t in ('unsigned int', 'uint32_t'):
        return 'u32'
    if t in ('int64_t', 'long', 'long long'):
        return 'i64'
    if t in ('uint64_t', 'unsigned long', 'size_t', 'unsigned long long', 'pthread_t'):
        return 'u64'
    if t.startswith('enum'):
        return 'enum'
    if t in ('char',):
        return 'char'
    if t.startswith('struct '):
        return 'struct:' + t[7:].strip()
    return t


# ---------------------------------------------------------------- enums per member
def member_enums():
    """{(struct, member): [(enumerator, value)]} for members whose type is an (anonymous or named) enum."""
    tu = cfront.load_tu('rebound.c')
    out = {}
    for sname, rec in tu.records.items():
        for f in rec.get('inner', []):
            if f.get('kind') != 'FieldDecl':
                continue
            qt = cfront.qtype(f)
            m = re.search(r'enum \((?:unnamed|anonymous) enum at [^:]*?([^/:]+):(\d+):\d+\)', qt)
            if m:
                key = '<anon@%s:%s>' % (m.group(1), m.group(2))
                if key in tu.enum_types:
                    out[(sname, f['name'])] = tu.enum_types[key]
                continue
            m = re.match(r'enum (\w+)$', qt)
            if m and m.group(1) in tu.enum_types:
                out[(sname, f['name'])] = tu.enum_types[m.group(1)]
    return out


# ---------------------------------------------------------------- descriptor table
class Row:
    __slots__ = ('type', 'dtype', 'name', 'offset', 'offset_N', 'element_size', 'index')

    def __repr__(self):
        return 'Row(%s,%s,%r,off=%s,offN=%s,es=%s)' % (self.type, self.dtype, self.name, self.offset,
                                                      self.offset_N, self.element_size)


def _cstring(s):
    out = bytearray()
    i = 0
    while i < len(s):
        if s[i] == '\\':
            out.append(int(s[i + 1:i + 3], 16))
            i += 3
        else:
            out.append(ord(s[i]))
            i += 1
    return bytes(out)


def llvm_ir(cfile, config='default'):
    cmd = [cfront.CLANG, '-S', '-emit-llvm', '-O0', '-o', '-'] + cfront.BASE_FLAGS + cfront.CONFIGS[config] + ['src/' + cfile]
    p = subprocess.run(cmd, cwd=REPO, capture_output=True, text=True)
    if p.returncode != 0:
        raise AnalysisError('clang -emit-llvm failed on %s: %s' % (cfile, p.stderr[-1500:]))
    return p.stdout


_desc_cache = {}


def descriptor_rows():
    """Rows of reb_binary_field_descriptor_list as the compiler folds them."""
    if REPO in _desc_cache:
        return _desc_cache[REPO]
    ir = llvm_ir('output.c')
    m = re.search(r'^@reb_binary_field_descriptor_list = .*?constant \[(\d+) x %struct\.reb_binary_field_descriptor\] \[(.*)\], align', ir, re.M)
    if not m:
        raise AnalysisError('reb_binary_field_descriptor_list constant initialiser not found in LLVM IR of output.c')
    n = int(m.group(1))
    body = m.group(2)
    rows = []
    pat = re.compile(r'%struct\.reb_binary_field_descriptor \{ i32 (-?\d+), i32 (-?\d+), \[1024 x i8\] (zeroinitializer|c"((?:[^"\\]|\\[0-9A-Fa-f]{2})*)"), i64 (-?\d+), i64 (-?\d+), i64 (-?\d+) \}')
    for i, mm in enumerate(pat.finditer(body)):
        r = Row()
        r.index = i
        r.type = int(mm.group(1))
        r.dtype = int(mm.group(2))
        r.name = '' if mm.group(3) == 'zeroinitializer' else _cstring(mm.group(4)).split(b'\0')[0].decode()
        r.offset, r.offset_N, r.element_size = int(mm.group(5)), int(mm.group(6)), int(mm.group(7))
        rows.append(r)
    if len(rows) != n:
        raise AnalysisError('descriptor table: parsed %d rows of %d' % (len(rows), n))
    _desc_cache[REPO] = rows
    return rows


def dtype_enum():
    tu = cfront.load_tu('output.c')
    for key, vals in tu.enum_types.items():
        names = [v[0] for v in vals]
        if 'REB_DOUBLE' in names and 'REB_FIELD_END' in names:
            return dict(vals)
    raise AnalysisError('dtype enum of reb_binary_field_descriptor not found')
