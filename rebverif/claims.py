"""Per-property claims: what each armed check decides and what it does not (source of MANIFEST.json)."""

# id -> dict(module, level, technique, decided, not_decided, design_ref)
CLAIMS = {
    'C01': dict(
        module='c01', level='other',
        technique='sparse conditional constant propagation over the integrator drivers (operator-sequence extraction) + exact rational arithmetic on the coefficient tables in the source',
        decided='dispatch exhaustiveness of the integrator/option switches; for every composition scheme and option combination '
                '(LEAPFROG; WHFast 4 kernels x 3 synchronisation states x correctors 3..17 x corrector2; 18 SABA types x 3 states; 9 EOS splittings in both shells; '
                '5 JANUS schemes; MERCURIUS) the drift, kick, COM, jump and time coefficients of one full step each sum to 1*dt '
                '(first-order consistency, |sum-1| <= 1e-14); EOS pre/post-processors and WHFast correctors are mutually inverse operator sequences; '
                'coefficient tables agree with their exact definitions to 1 ulp; the IAS15 closing update and predictor polynomials are the integrals of the force series; '
                'in the Bulirsch-Stoer sub-steps the particle array is refreshed from y1 before the coupled right-hand sides are evaluated.',
        not_decided='order of accuracy beyond consistency and symmetry, adaptive step control, user ODE coupling, error constants (runtime numerics)',
        design_ref='3/C01'),
    'C02': dict(
        module='c02', level='other',
        technique='component isomorphism (tree renaming + polynomial identity), pair-loop extraction with let-inlining into sympy identities, sibling loop comparison',
        decided='the gravity dispatch is exhaustive; every x/y/z statement triple of the force loops, ghost-box shifts, tree walk and WH/EOS interaction '
                'steps is one formula under an axis permutation; in every pair loop all per-particle subscripts are one of the two pair indices; where both bodies '
                'are updated m_A*dA + m_B*dB = 0 as a polynomial identity; the MERCURIUS halves are weighted by L and (1-L) of the same full-strength force with the '
                'changeover distance max(dcrit[A],dcrit[B]) and range over the same pair classes; the TRACE halves are masked by K and !K over the same matrix entry and pair classes.',
        not_decided='numeric equality with the Newtonian sum, loop-domain equality with the mathematical pair set, tree multipole bound, compensated-summation accuracy',
        design_ref='3/C02'),
    'C03': dict(
        module='c03', level='other',
        technique='dimension typing (abstract interpretation over (L,T,M) exponent vectors) of the universal-variable solver and its call sites; loop-bound classification; table check',
        decided='(thin) the inverse-factorial table of the Stumpff series is exact to 1 ulp; the scalar solver has exactly the known callers; at every call site the mass parameter has dimension L^3/T^2 '
                '(one G, one mass; frozen exception WHFast512 with G==1); every +, -, quantity comparison and function argument inside reb_whfast_kepler_solver and the Stiefel functions is dimensionally '
                'homogeneous with M: L^3/T^2, dt: T, Gs[k]: (T/L)^k, and Gs[k] is multiplied by X^k; every loop of the solver and its helpers is constant-bounded or carries a recorded termination argument '
                'whose guard (finiteness guard of the argument halving, bracket-width test of the bisection) is present.',
        not_decided='exactness to rounding error, branch selection correctness, NaN freedom, agreement of the AVX512 solver (runtime numerics) - the claim is thin and says so',
        design_ref='3/C03'),
    'C04': dict(
        module='c04', level='other',
        technique='polynomial identities (sympy) on pair updates, merge resolver and diagnostics; operator-sequence COM accounting; component isomorphism',
        decided='every pair loop that updates both bodies satisfies m_A*dA + m_B*dB = 0 and uses only the pair indices; every x/y/z triple of the force loops and coordinate '
                'transformations is one formula under an axis permutation; over every operator sequence of WHFast, SABA and MERCURIUS (all kernels, correctors, types, synchronisation states) '
                'the net COM drift equals the net Kepler drift; the merge resolver conserves mass, momentum and centre of mass as polynomial identities; reb_simulation_angular_momentum '
                'accumulates m (r x v) and reb_simulation_energy accumulates 1/2 m v^2 - G m m / r + offset exactly; the IAS15 compensated addition keeps its Kahan form and the closing '
                'update has the right series denominators.',
        not_decided='conservation along trajectories, energy error class per integrator (runtime numerics); hard-sphere collisions',
        design_ref='3/C04'),
    'C05': dict(
        module='c05', level='other',
        technique='table/layout agreement (descriptor table folded from LLVM IR vs clang record layout) + typestate walk of header/payload byte accounting in writer and reader',
        decided='every leaf member of struct reb_simulation is persisted by a descriptor row, is the counter of a row, is a function pointer, '
                'or carries a frozen classification (derived/scratch/step-transient/inert/reattach) - an unclassified member is a violation; '
                'every row: unique id/name/offset, END last, name equals the member path at its offset, dtype matches the C type, '
                'element_size equals sizeof(pointee), counter is a 4-byte integer of the same sub-structure; writer and reader '
                'handle every dtype used by the table; every header write in the serialiser is followed by exactly header.size payload '
                'bytes; every reader branch consumes exactly field.size bytes.',
        not_decided='that the persisted set is sufficient for bit-wise continuation of every integrator; padding bytes; the continuation itself (runtime)',
        design_ref='3/C05'),
    'C06': dict(
        module='c06', level='other',
        technique='typestate walk of header/payload byte accounting in the delta encoder, event-order and symbolic byte accounting of the append protocol, sibling agreement of the cadence branches',
        decided='in the delta encoder every header write is followed by exactly header.size payload bytes in the changed / new / vanished cases (vanished: size 0); '
                'the append branch writes previous trailer, delta, END(size 0), new trailer in that order, records offset_next = bytes written before the next trailer, '
                'offset_prev = that value, offset_next = 0, index+1, computes the delta with reb_binary_diff and checks/repairs the tail first; the index walk compares '
                'offset_prev + sizeof(trailer) with the snapshot length and grows its arrays under a satisfiable test; a snapshot is loaded as first snapshot + delta at sa->offset[k]; '
                'each cadence mode tests and advances the same deadline by its own cadence before saving; the setters re-arm only when their own cadence changes; '
                'the archive heartbeat runs before every step and once after the loop; the changed-field flags of the delta encoder only accumulate.',
        not_decided='arbitrary histories; acceptance of every well-formed file by the index walk; per-snapshot times equal to the first snapshot time',
        design_ref='3/C06'),
    'C07': dict(
        module='c07', level='other',
        technique='ownership / who-may-free analysis over all translation units, def-use of I/O results in the index loop, table agreement C enum vs Python ast, effect set of the cadence logic vs persisted rows',
        decided='no function frees a pointer parameter unless it is a documented destructor (so every *_with_messages initialiser leaves the archive handle owned by its caller); '
                'members of the handle released on error paths are reset to NULL; inside the per-snapshot index loop every fread/fseek result is stored and tested; '
                'no Python exception is constructed without being raised (one frozen unreachable site); BINARY_WARNINGS lists exactly the C codes with the C severity and every user raises on major errors; '
                'everything the cadence logic reads is persisted; after a read error the archive is kept iff nblobs>0 (warning) and otherwise an error bit is set, and Python tests the complement; '
                'the append path checks and repairs the tail before writing (R06.2).',
        not_decided='every byte offset of a cut; repeated crash/restart cycles; identity with the uninterrupted archive (runtime)',
        design_ref='3/C07'),
    'C08': dict(
        module='c08', level='other',
        technique='structural/dominance checks on the exit state machine and the integrate driver (clang AST), operator-sequence time accounting, status-table agreement C enum vs Python ast',
        decided='per integrator the increments of r->t over a step sum to the step done and dt_last_done records it; in reb_check_exit every change of r->dt '
                'is under exact_finish_time==1, preceded by a synchronise and equal to tmax-t, and the first shrink stores the previous full step (guarded by dt_last_done!=0); '
                'the overshoot tests are direction-aware; reb_simulation_integrate_raw resets dt_last_done and initialises last_full_dt before the loop, only flips the sign of dt '
                'when tmax differs from t, evaluates the heartbeat before the first step and after every step, loops on reb_check_exit<0, synchronises after the loop and restores '
                'r->dt from last_full_dt under exact_finish_time; step-size clamps (min_dt/max_dt) keep the sign of the step; every positive REB_STATUS is mapped by '
                'Simulation.integrate to the exception of that meaning and the library writers of USER/COLLISION/ESCAPE/ENCOUNTER set their own status.',
        not_decided='the 1e-12 finishing tolerance and floating-point coincidences of (t,dt,tmax); step counts; bitwise equality of split integrations; first-boundary semantics of exit conditions',
        design_ref='3/C08'),
    'C09': dict(
        module='c09', level='other',
        technique='operator-word equivalence: sequences extracted by constant propagation from part1/part2/synchronize, compared after free reduction; ordering/pairing checks on the synchronize functions',
        decided='for WHFast (4 kernels x correctors x corrector2), 18 SABA types, 9 EOS splittings and MERCURIUS: k deferred steps followed by one '
                'synchronise is the same reduced operator word as k safe-mode steps (k=1,2,3), with equal COM and time advance - this contains the '
                'merged-half-step coefficient rule, the reversed corrector order and the cancellation of processors; a second synchronise applies no operator; '
                'the synchronised flag is set by synchronise and cleared by a step; keep_unsynchronized: backup and restore of the Jacobi state bracket every '
                'operator, copy equal byte counts covering all r->N particles, and leave the flag cleared; user callbacks in reb_simulation_step are '
                'preceded by a synchronise and followed by the recalculation flags.',
        not_decided='rounding-level equality of merged and split drifts; the EOS truncation claim; corrector2 is trusted to be inverted by inv=-1; WHFast512',
        design_ref='3/C09'),
    'C10': dict(
        module='c10', level='other',
        technique='operator-sequence extraction by constant propagation (palindrome and typestate checks) + syntactic form check of the JANUS integer update statements',
        decided='every JANUS scheme table is read palindromically by gg() and its stage coefficients sum to 1; for each order the drift/kick sequence '
                'of a step is a palindrome, every force evaluation is preceded by to_double after the last drift, and all call sites of drift/kick/to_double pass '
                'the same scale arguments; the drift and kick updates are additive integer shears (q += (INT)(dt*...), dt exactly once, no self reference, '
                'drift reads only integer velocities, components match) and to_int runs only under the recalculation flag; one step of LEAPFROG, '
                'WHFast (default kernel, no correctors), every uncorrected SABA type and every unprocessed EOS splitting (both shells) is a palindromic operator word.',
        not_decided='the bit-wise round trip itself; float->int conversion semantics of the platform; SEI',
        design_ref='3/C10'),
    'C11': dict(
        module='c11', level='other',
        technique='sibling agreement between the C argument parser (clang AST) and the Python constructor (ast): set extraction, expression equality via sympy, idiom lints',
        decided='the argument classes of the C parser (cartesian, orbital, non-Pal, Pal, longitudes) equal the lists of the Python constructor and every C token is a Python argument; every error '
                'code that can be set has a message, Python raises for every code of reb_particle_from_orbit_err, the parser rejections come in the documented order and return NaN; both sides apply the same '
                'zero defaults; Python obtains the element maps and anomaly conversions from C, and the conversions it does inline (a from P, mean motion, M from T) and the retrograde conventions for '
                'pomega/theta/l are the same expressions as in C; no anomaly/element conversion takes a sign by the division X/fabs(X); every component of a particle built from elements is offset by the '
                'same component of the primary.',
        not_decided='the numeric round trip; ranges of returned angles; threshold branches near circular/planar orbits; the Kepler solvers\' convergence',
        design_ref='3/C11'),
    'C12': dict(
        module='c12', level='other',
        technique='sibling/slice isomorphism over the clang AST: kind projections of transformation variants, xyz component renaming, MERCURIUS/TRACE twin comparison',
        decided='for each coordinate map of transformations.c the pos / posvel / posvelacc / acc variants are the same statement tree '
                'after projecting onto one kind and neutralising kind names (Jacobi and barycentric: all kinds equal; WHDS and democratic '
                'heliocentric: equal per kind, or delegation to the _pos variant); every x/y/z statement triple of the transformations, the '
                'hybrid heliocentric shifts and move_to_hel/move_to_com/com is one formula under an axis permutation; the TRACE copies of '
                'inertial_to_dh, dh_to_inertial, interaction, jump and com steps equal their MERCURIUS twins statement by statement '
                '(admitted differences frozen).',
        not_decided='forward o inverse = identity for all N (loop induction), rounding error of the round trip, slot-0 = (M, COM) beyond the component isomorphism',
        design_ref='3/C12'),
    'C13': dict(
        module='c13', level='other',
        technique='sibling-block isomorphism (p1/p2 fix-up), sequential symbolic execution of the merge resolver into polynomial identities, component isomorphism, growth-before-write',
        decided='the collision dispatch is exhaustive; the index fix-up after removing p1 and after removing p2 are the same statements under p1<->p2 (one admitted stanza) and '
                'invalidate before re-indexing; the merge resolver satisfies (m_i+m_j)x\' = m_i x_i + m_j x_j for positions and velocities, m\' = m_i+m_j, r\'^3 = r_i^3+r_j^3, '
                'modifies only the survivor, removes the larger index (return code), refuses a second merge in the same step; halt removes nothing; order-preserving removal is forced '
                'for MERCURIUS/TRACE at both deciding sites; every write to the pending-collision array follows its growth test; every x/y/z triple of the searches, tree neighbour search '
                'and ghost-box shifts is one formula under an axis permutation.',
        not_decided='completeness of detection, tree pruning radius, order independence of multi-collision steps, hard-sphere identities',
        design_ref='3/C13'),
    'C14': dict(
        module='c14', level='other',
        technique='ordering/dominance checks on the removal and append paths (clang AST), constant comparison of the hash function with the published algorithm, Python ast checks of selector handling',
        decided='in reb_simulation_remove_particle(_by_hash) every refusal (error + return 0) precedes the first statement that changes the simulation and the index range check precedes '
                'every use of the index as a subscript; particles[N] = pt follows the growth loop, lookup-table writes follow the capacity test and use only the bounded indices, '
                'collision-array writes follow their growth test; the lookup forms a particle pointer only under index < N, re-checks the hash, rebuilds on a miss, and an unknown hash is rejected; '
                'reb_hash is MurmurHash3-x86-32 with the published constants and seed 1983 and Python delegates string hashing to it; every active-count decrement on removal is guarded by '
                'index < count; Python tests optional index/hash arguments against None (0 is a legitimate value), reaches both C removal functions and processes the C messages.',
        not_decided='histories against a list model; stale lookup tables after particular removal orders; Python container semantics beyond delegation',
        design_ref='3/C14'),
    'C15': dict(
        module='c15', level='other',
        technique='pattern/agreement checks over the clang AST: wrap-loop guard/update agreement, encoder/decoder agreement of the octant and root-box index, call-order check of a step, component isomorphism',
        decided='every periodic/shear wrap loop compares a coordinate with the matching face of the box in the same component and moves it by one box length with the matching sign '
                '(radial shear wrap: y by the shear offset and vy by +-3/2 OMEGA Lx, nothing else); the open boundary marks exactly the six outside half spaces and re-examines the slot after a swap-removal '
                'iff the loop runs forwards; ghost-box images are component-isomorphic and the shear image differs only in y and vy; the octant encoder and the child-cell geometry agree on component, bit and side; '
                'the root-box coordinates use their own component and the flattened index is a well-formed mixed radix whose strides are the ranges of the lower coordinates, equal to the root-cell geometry in tree.c; '
                'a step runs boundary check, tree update, gravity data, forces, part2, boundary check, tree update, collision search in that order; tree.c component triples are isomorphic; all tree-in-use predicates agree.',
        not_decided='tree shape invariants under incremental updates (each particle in exactly one leaf whose cell contains it) and equality of cell sums with their contents - needs shape analysis, out of reach',
        design_ref='3/C15'),
    'C16': dict(
        module='c16', level='proof',
        technique='computer algebra on loop-free code: each derivative constructor translated from the clang AST to sympy and compared with the symbolic derivative of the repository\'s own element->Cartesian map',
        decided='all 65 element-derivative constructors (12 first order, 53 second order) x 7 components equal the symbolic first / mixed second derivative of reb_particle_from_orbit_err '
                '(classical elements) or reb_particle_from_pal (Pal elements, with (p,q) as implicit functions of (lambda,k,h)); each obligation is discharged by exact cancellation or by a 40-digit zero test of the '
                'residual at random points (recorded which); every constructor declared is defined and every name Python synthesises from variationtypes exists; automatic rescaling divides all six coordinates '
                'and advances lrescale by log(scale); the IAS15 loops that save/predict/restore coordinates cover all N integrated particles including variational ones.',
        not_decided='evolution of variational particles vs finite differences, MEGNO/Lyapunov limits, WHFast tangent map, variational pair kernels (runtime / not built)',
        design_ref='3/C16'),
    'C17': dict(
        module='c17', level='other',
        technique='who-reads-what over the differ and reader (clang AST + record layouts + descriptor table): pointer-blind compare, ignore-set exactness, accumulation form, allocation discipline',
        decided='every persisted array whose element type has pointer members rewritten at load time (derived from the reader: particles, var_config) is compared by a branch '
                'that does not read those members; the ignore prefix of the differ matches exactly the wall-clock rows; difference flags only accumulate inside loops, both diff '
                'passes exist and reb_particle_diff reads every non-pointer member; every pointer the reader fills comes from malloc/realloc; copy is serialise+init+deserialise; '
                'all sites deciding whether the tree is in use (so that a restored or copied simulation rebuilds it) test the same modules.',
        not_decided='interleavings of operations on a copy and its source; padding bytes; bitwise identical evolution of copy and source (runtime)',
        design_ref='3/C17'),
    'C18': dict(
        module='c18', level='other',
        technique='ABI layout comparison: clang record layouts vs a ctypes layout calculator over the _fields_ AST; enum/dictionary and prototype/CFUNCTYPE table agreement',
        decided='For every mirrored structure (pairs discovered from the Simulation root through member types and restype '
                'assignments): every Python field starts at a C member, with equal size and kind (double, exact-width signed/unsigned '
                'integers, enum, data pointer, function pointer arity and parameter kinds, nested struct pair, arrays), equal names '
                '(word multiset, frozen aliases), equal total size, no unmirrored C member; no field/property name clash; property '
                'bodies only target existing fields; every option dictionary agrees with the enumerators of the C member it is stored '
                'in (names and values, both directions, no duplicate values); getters/setters use the same table and backing field; '
                'every clibrebound symbol exists; casts of named function options agree with the C prototype; restype agrees with the C return type.',
        not_decided='nothing essential - this property is static; residual risk is the ABI calculator (x86-64 SysV, no _pack_) and configurations '
                    'other than the default build (OPENGL display structs are noted, not decided)',
        design_ref='3/C18'),
    'C19': dict(
        module='c19', level='other',
        technique='inventory of static storage and who-writes analysis over all translation units, banned-call lint, lock-region typestate in the integrate loop and the server handlers, call/effect set of the server thread and the serialiser',
        decided='every object with static storage duration in the library is const, is the one allowed signal flag, or is never written and never address-taken; no function-local mutable static exists; '
                'no libc function with hidden global state is called; a step (archive heartbeat, step, heartbeat) runs between lock and unlock of the server mutex with no jump out of the region; every server handler '
                'touches the live simulation (serialiser, key callback) only while holding that mutex and releases it on every path including the goto paths; the server thread calls only the serialiser '
                '(and message functions) on the live simulation, and the serialiser - transitively through the integrator init hooks - calls no trajectory-changing function and writes only a frozen list of members.',
        not_decided='schedules; unlocked status writes of the keyboard handler; integrate prologue/epilogue outside the mutex; user callbacks; AVX512 statics (thorough tier only)',
        design_ref='3/C19'),
    'C20': dict(
        module='c20', level='other',
        technique='dimension typing of the Python unit converters (abstract interpretation over monomials), constant folding of the unit tables, algebraic summaries of rotations.c checked as polynomial identities (sympy, Groebner reduction)',
        decided='every unit converter is value * old^d / new^d with d the dimension of the particle field it is applied to, convert_G = G_SI M T^2 / L^3, each particle field uses the converter of its dimension '
                'with the arguments in the right slots, so conversion is reversible and transitive for every unit triple by construction; table aliases are equal, SI definitions exact, yr2pi^2 G M_sun = au^3; '
                'the units setter recomputes G and converts existing particles; reb_rotation_mul is the Hamilton product (norm-multiplicative), inverse/conjugate/normalize/identity/cross/dot satisfy their '
                'defining identities, reb_vec3d_rotate is v -> q v q* (an isometry) and rotate(v,p*q) = rotate(rotate(v,q),p), init_angle_axis yields a unit quaternion; a particle is rotated in position and velocity '
                'with the same quaternion; irotate/imul/iadd/isub act on all N particles (variational included) and iadd/isub refuse unequal N; the antiparallel branch of init_from_to exists; Rotation forwards to C; '
                'all component triples are isomorphic.',
        not_decided='numerical behaviour near degeneracy; planetary GM values; second-order variational frame shifts; Euler-angle constructors',
        design_ref='3/C20'),
}

NOT_BUILT_REASON = 'rules designed in DESIGN.md section 3 but not built yet; no armed static rule, so no claim is made'

# properties for which no static rule is claimed, with the reason (kept current as checks are added)
NOT_APPLICABLE = {}


# Rules added after the second round of seeded changes (appended to the claim text above).
EXTRA = {
    'C01': 'Also: every accumulation into the WHFast jerk buffer has dimension L T^-4 and all other sums in reb_whfast_calculate_jerk are homogeneous (R01.9); the SEI '
           'epicycle operator, summarised algebraically, is the exact flow of Hill\'s equations over dt/2 with the constants its init routine stores (R01.8); the catch-up loops for user '
           'ODEs and for the TRACE/MERCURIUS sub-steps order times validly for both signs of the step and clamp their last sub-step (R08.8). A shortened last step of an exact_finish_time integration requested through Simulationarchive.getSimulation starts from a synchronised state (R09.11). Loops that accumulate the central body\'s acceleration never read it in the same loop (R01.10); every caller hands the Kepler solver G times a mass (R03.3); the N-body ODE that BS registers for itself is released before any other integrator advances the registered ODEs (R01.11); every integrator reached through reb_integrator_part1 sets gravity_ignore_terms, or uses a gravity mode that does not read it, before its forces are evaluated (R01.12). The conversion between physical and integer units of JANUS is the same at every stage, also when it is folded into the step-size arguments (scale probe, R10.3); every force term carries G once (R02.4, shared). Comparisons of one quantity with one literal draw the same line at every site - SABA corrector types (R01.13); members with a \'not set\' sentinel are given their default before they are read (R10.12); the position-only coordinate maps are the posvel maps restricted to positions (R12.1, shared). In the WHFast corrector every kick uses accelerations computed from positions rebuilt after the last Kepler step (typestate, R01.14); the pair loops of the jerk routine start at the same index for active and test particles (R01.15); LEAPFROG advances the live particle (R10.14).',
    'C02': 'Also: the iteration spaces of the direct, compensated and hybrid-interaction pair loops equal the specified pair set (each pair once) for every ordering of N_active, '
           'test-particle count, test-particle type and gravity_ignore_terms in a complete small family (R02.8); integer variables of the hybrid integrators are typed global/compact '
           'index and never cross (R02.9); every sum, accumulation and comparison of the force routines and kick/drift/jump operators is dimensionally homogeneous over (L,T,M) (R02.4); '
           'the box edges are one formula per axis. Per-axis membership tests of the tree (particle inside cell) mention each axis exactly once (R02.10). Arguments handed to helpers have the dimension of the parameter they bind (R02.4 at call sites); the cell-moment update handles the leaf case of the visited cell and guards the division by the cell mass (R02.11). The monopole data of the tree is refreshed for every root cell before every tree force evaluation (R15.12); root-box lookups treat the three axes alike (R15.9, shared). Root-box indices are a well-formed mixed radix and the same in both places that compute them (R15.4, shared); active counts are decremented for exactly the active particles (R14.5, shared). A particle index is compared with N_active only as index < N_active / index >= N_active (52 sites, R02.12); every loop over r->tree_root visits all N_root root cells (R02.13).',
    'C03': 'Also: the bisection fallback decides on a finite value (R03.6 - today a known finding: it is NaN-blind); the pair set of the direct and compensated routines leaves out exactly the term solved by the Kepler step for gravity_ignore_terms 1 and 2 (R02.8). The coordinate system whose kick compensates the central attraction names the same mass as its Kepler step (R03.7); the bracket of the bisection fallback is really exchanged for negative steps (R03.8); the cached Jacobi/heliocentric copy advanced by the Kepler step is declared stale for every deferred-mode consumer wherever code outside the integrators changes particles, and on any change of the particle count (R09.10); R09.11 as for C01. The state handed back by a synchronise is the synchronised one (R09.3: conversions to inertial coordinates precede the restore of the cached state). SABACM1 (type 0x100) is a corrector type at every site that asks (R01.13, shared). The operator word of a deferred WHFast run equals that of safe mode (R09.1, shared).',
    'C04': 'Also: every x/y/z statement triple of every function of every integrator source file is one formula under an axis permutation (R04.6). R03.7: drift and kick of the barycentric splitting add up to the N-body Hamiltonian. A rejected TRACE step restores every member of the integrator struct that the attempt incremented, the centre-of-mass position included (R04.7). Every pair enters the kick once for every ignore-terms setting (R02.8); R09.3 as for C03. Momentum sums of the central body are read only when complete (R01.10, shared). JANUS compares the particle count its integer state was built for with N by identity (R10.13); encounter sub-stepping orders times through the sign of the step (R08.8, shared). Pending collisions are re-indexed consistently after a merger (R13.2, shared).',
    'C05': 'Also: the byte count of every case of the writer\'s dtype switch equals the size of the members the rows of that dtype designate (R05.8). Integer members classified inert (warning latches) guard nothing but messages, so a restored simulation takes the same path as the running one (R05.9); re-attaching the output leaves the persisted cadence counters alone (R06.5). The classification of unpersisted members is checked against the code: the compensated-summation scratch buffer is reset before it is read (R05.10), conditions on scratch counters guard only re-allocation and scratch state (R05.11); the reader\'s byte accounting follows read helpers and is path-sensitive (R05.5); the element counter of an array field is stored for every field read (R06.9); a picked-up snapshot receives the caller\'s keep_unsynchronized on the integrator in use (R09.7/R09.8/R09.11). Simulation(filename=...) and the class methods built on it read the file: keywords declared by __init__ are honoured by __new__ before its empty-object exit (R05.13), and no function of the Python layer loads a name that is bound nowhere (R18.11, shared). Persisted arrays of whole particles are zero-initialised where they are (re)allocated (R05.12). Writing a snapshot leaves the simulation unchanged (serialiser effect set, R19.4 shared); a state equal to the first snapshot is still appended (R06.10, shared). Snapshot 0 is restored as snapshot 0 (R06.11, shared).',
    'C06': 'Also: descriptor rows designate the member they name (R05.2, shared with C05); every per-snapshot array of the archive index gets a value that does not depend on a field being present in the delta (R06.7). The loop that builds the archive index enlarges its arrays in the last iteration their capacity admits (R06.8); reb_particle_diff compares each member of one particle with the same member of the other (R06.6). The element counter of an array field is stored whatever the field\'s size, so a vanished array is dropped on load (R06.9); an empty delta is appended like any other (R06.10). Snapshot selectors of the Python layer are never tested by truthiness - snapshot 0 is a snapshot (R06.11); ordering comparisons between the interval schedule and the simulation time carry the sign of the timestep on both sides (R06.12). The prologue of the snapshot loader, evaluated on all indices -n-2..n+2 for n = 1, 3, maps -k to n-k and refuses everything outside -n..n-1 (R06.13); times are compared with the simulation time by identity or through one sign factor (R08.12, shared). Re-arming the automatic archive with another file stores that file name (R06.14); the comparison that decides whether a particle array goes into a delta is true exactly for \'different and not both NaN\' (R17.10, shared).',
    'C07': 'Also: every branch of Simulation.save_to_file that calls a C save function drains the message queue afterwards (R07.9). Position + length is compared with the file size non-strictly, so a snapshot that ends exactly at EOF is kept (R07.11). A byte-wise read of the index scan compares the number of bytes it got with the number it asked for (R07.12). The final snapshot of integrate() is written after the full step size has been put back (R08.10, shared with C08). The snapshot loader accepts exactly the indices of completed snapshots (R06.13, shared). Conditions of the Python layer that name an integrator test the settings struct of that integrator (R07.13).',
    'C08': 'Also: the escape and close-encounter scans of the heartbeat range over the real particles only, compare in the right direction and set the matching status (R08.7); '
           'time and step comparisons of the catch-up loops, the exit test and the snapshot cadence are direction-normalised, and every catch-up loop clamps its last sub-step (R08.8); the swept-sphere tests of the line collision searches are typed the same way, the time of closest approach '
           'taking the role of the step in the extrapolation formula; the synchronise that ends integrate() restores a keep_unsynchronized integrator and leaves its flag alone (R09.3, R09.9). getSimulation reaches integrate(exact_finish_time=1) only with keep_unsynchronized off (R09.11). The user\'s step size is stored when the last step is entered and not again on the retry path; the exit machine is read from reb_check_exit and helpers split off from it (R08.2); switches over r->status handle every enumerator or report (R01.1). Members of the simulation put aside in a local and assigned back at the end of a function (t, dt in the encounter sub-stepping) are restored on every way out (R08.9); the final snapshot of integrate() is written after r->dt = last_full_dt (R08.10). part2 functions record dt_last_done = dt after every call that can assign dt_last_done (R08.11); the simulation time is compared with stored times and with 0 in a direction-independent way (R08.12); the halting collision resolver sets the status on every path (R08.13). collision.c measures motion with dt_last_done and never reads dt (R08.14); every part2 records dt_last_done independently of the synchronisation options (R08.15).',
    'C09': 'Also: Simulationarchive.getSimulation sets the keep_unsynchronized switches before the first synchronising call in every branch (R09.7) and only on the integrator '
           'whose safe_mode it examined, because the C init routines refuse keep_unsynchronized with safe_mode (R09.8); the scratch copy of the Jacobi state is allocated and filled under exactly the path '
           'conditions under which it is restored and freed (R09.9). Every block outside the integrators that raises a recalculate_coordinates flag raises it for each integrator that reads the flag when that integrator runs deferred; last-seen particle-count tests that guard a coordinate cache use != (R09.10); getSimulation reaches integrate(exact_finish_time=1) only with the switch off, over all mode x integrator x safe_mode x argument combinations (R09.11). Conversions to inertial coordinates in a synchronise routine precede the restore of the cached state (R09.3); the MERCURIUS frame typestate also covers option members raised between steps (R09.6); direct updates of a saved-and-restored cache are applied again after the restore (R09.12). Synchronize functions do not read members that integrate() resets on entry (dt_last_done, R09.13); the Python layer never writes the integrators\' bookkeeping flags (R10.11); saving or copying leaves the simulation unchanged (R19.4, shared). The exit machine of integrate() synchronises before it shortens the last step (R08.2/R08.3, shared); the synchronisation flags are persisted under their own name (R05.2, shared). The corrector typestate (R01.14, shared) and the integrator-name conjuncts of the Python restart path (R07.13, shared).',
    'C10': 'Also: x/y/z triples of the reversible schemes (JANUS integer conversion included) are one formula per axis (R10.6); the SEI epicycle operator composed with itself under '
           'dt -> -dt is the identity as a rational map and has unit Jacobian (R10.7). to_int after to_double is the identity on grid indices for every member (R10.8); R03.8 (bracket exchange for backward Kepler steps). A force evaluation does not depend on the previous one: the compensated-summation buffer is reset in every function that reads it (R10.9); by-value copies of member structs are not used after a call that assigns the member (R10.10). The WHFast operator word is a palindrome in every coordinate system (R10.5); the Python layer never writes is_synchronized / recalculate_* flags, so re-selecting the integrator in use is a no-op (R10.11); JANUS applies one unit conversion per operator at all stages (R10.3, scale probe). SEI substitutes the default vertical frequency before it caches the constants computed from it (R10.12); JANUS uses its integer state only for exactly the particle count it was built for (R10.13); a synchronisation that keeps the unsynchronised state leaves the integrator unsynchronised (R09.3, shared). In integrator_leapfrog.c drift and kick read the velocity / acceleration of the particle they advance, not of a snapshot (R10.14).',
    'C11': 'Also: the reported pericentre time inverts the accepted formula M = n (t - T) for bound and unbound orbits as a symbolic identity (R11.8); component triples of the orbit '
           'conversion outside the reference-plane stanzas are one formula per axis (R11.7). reb_mod2pi maps every finite angle into [0, 2 pi) (interval evaluation, R11.9); Python locals naming sub-expressions are inlined before the inline formulas of the two front ends are compared (R11.4). The massless-primary test of the constructor and of the read-back compare the same quantity (R11.10); the loop body of the Pal Kepler solver is a Newton step for the Jacobian of its own residuals (R11.11). The anomaly conversions of rebound/tools.py return nothing but the result of the C function of the same name (R11.12); methods of the wrapper classes keep no derived state on the Python object (R18.10, shared). Prototype and definition of a function do not name the same parameters in a different order (R11.13, on the names as written); helpers named after a None test compare with None (R11.14). Running centres of mass accumulate: com = com_of_pair(com, p) (R11.15).',
    'C13': 'Also: the opening radius of both tree collision walks is a sum containing the search radius of particle 1 (radius plus travel for the line search), a bound on the '
           'partner\'s radius, the partner drift bound (line search) and at least sqrt(3)/2 cell widths, and no parameter of the walks is merely handed down the recursion (R13.7); '
           'the relative position/velocity stanzas of the hard-sphere resolver are one formula per axis. The largest and second-largest radius kept by reb_simulation_add are the two largest of (new, largest, second) on every ordering (R13.8); every tree-in-use test names both tree searches (R13.9). Every criterion accumulated into the MERCURIUS critical distance of particle i depends on particle i (R13.10). Tree searches exclude only the searching particle itself, by identity of the two indices (R13.11); the unsorted removal that the re-indexing of pending collisions assumes moves exactly the last particle into the hole (R14.14, shared). Drift distances added to search radii are magnitudes, |dt_last_done| times a speed, so the tree line search works backwards in time (R13.12). Leaf tests of tree cells draw the line at pt >= 0 everywhere, so particle 0 is a partner like any other (R01.13, shared); \'already merged at this time\' is an identity test on times (R08.12, shared). collision.c never reads r->dt (R08.14, shared); cell membership tests treat the axes alike (R15.9, shared); max_radius0/1 are persisted under their own names (R05.2, shared).',
    'C14': 'Also: qsort comparators are overflow-free three-way comparisons and the bisection orders the same unsigned key (R14.7); every function that releases a growable buffer '
           'resets its capacity counter - 25 buffer/counter pairs taken from the growth sites (R14.8). reb_simulation_particle_by_hash answers without rebuilding the lookup table only on the path that saw a particle carrying the requested hash (R14.3); Particles.__getitem__ indexes the ctypes pointer only inside 0..N-1 for all key classes (R14.11). Each entry written while the lookup table is rebuilt is covered by a per-iteration capacity test or by a capacity made >= N before the loop (R14.2); the bulk particle setter mirrors the bulk getter assignment by assignment (R14.12). Index and hash selectors are never tested by truthiness (R14.13); the unsorted removal moves exactly one particle (R14.14); a leaf\'s occupant is set only in a freshly allocated cell, so a flagged particle stays reachable until the tree update drops it (R15.13); the particle view keeps no cached array (R18.10, shared). Stores into a particle hash take an integer value (R14.15); every refusal of reb_simulation_add_local precedes the increment of r->N (R14.16). ..._by_hash wrappers forward the parameters they share with the function they wrap (R14.17).',
    'C15': 'Also: box set-up (boxsize, root counts) is one formula per axis; the loops of reb_boundary_check cover the real particles only (R15.8). Per-axis tests joined by ||/&& and products of three per-axis factors mention x, y and z once each (R15.9); descriptor rows of the box geometry designate the member they name (R05.2). The cell-moment update handles the leaf case of the visited cell and guards divisions by the cell mass (R15.10); ghost-box image loops of every gravity routine treat the axes alike (R02.2). Every tree update of reb_simulation_step is reached whenever tree_needs_update is raised (R15.11); the monopole data is refreshed on every call (R15.12); a leaf\'s occupant is never replaced (R15.13); \'tree in use\' predicates written as a conjunction of != tests name the same module set (R15.7). Comparisons of a coordinate with half the box size are strict everywhere, as in the boundary code (R15.14); leaf tests agree at every site (R01.13, shared). Loops over the root cells run over all of them (R02.13, shared); ghost rings of the tree searches are taken per axis (R13.5, shared).',
    'C16': 'Also: in WHFast every Jacobi<->inertial conversion of the real particles stands next to the same conversion of every variational configuration where the statement list has one (R16.6); '
           'automatic rescaling divides every per-coordinate array the IAS15 allocator sizes by the same scale (R16.7); members of a variational configuration that only the second-order '
           'constructor fills are read under a test of the same configuration\'s order (R16.8); boundary conditions never touch variational particles (R15.8). The first-order variational pair kernels of reb_calculate_acceleration_var are the directional derivative of the Newtonian pair acceleration, mass variation included (R16.9); no parameter of Variation\'s Python methods is ignored (R16.10). The acc variant of every transformation is the pos variant\'s map (R12.1); moving to the centre of mass uses totals from completed loops, also when the loop body names sub-expressions (R20.7). The transformed variational particle is stored on every pass of the loop over the configurations in the Kepler solver (R16.11). MEGNO treats t = 0, not t <= 0, as the special instant (R08.12, shared); the variation of test particle 0 is recognised (R01.13, shared); variational sets use the counts of the real particles (R16.12). The cached coordinates of variational particles are rolled back with those of the real ones (R09.3, shared); the MEGNO accumulators are persisted under their own names (R05.2, shared).',
    'C17': 'Also: descriptor rows designate the member they name (R05.2) and the archive heartbeat advances the deadline before it writes (R06.5), so a stored snapshot equals the live state. R06.8 (the index holds every snapshot) and the operand discipline of reb_particle_diff (R17.5). Coordinate transformations never store whole particles (with their memory addresses) into persisted caches (R17.7); unpersisted warning latches do not steer a copy differently from its source (R17.8); R06.9. reb_particle_diff lets the both-NaN case through for every floating-point member it compares, so the comparison is reflexive (R17.9). Every member a copy needs is persisted (R05.1, shared); saving leaves the source unchanged (R19.4, shared); a state equal to the first snapshot is still written (R06.10, shared). Inert warning latches, also the ones inside member structs, guard nothing but messages: no jump, no write to other state, no call that acts on the simulation (R17.8); snapshot 0 is restored as snapshot 0 (R06.11, shared); persisted particle arrays are zero-initialised (R05.12, shared). reb_particle_diff\'s per-member comparison, evaluated on (equal, different, NaN/number, number/NaN, NaN/NaN), is true exactly for the middle three (R17.10); scratch buffers carry nothing between force evaluations (R05.10/R05.11, shared).',
    'C18': 'Also: no parameter of a function of the Python layer is ignored or overwritten on every path before its first read (R18.8, 10 frozen exceptions); the shortcut names of Simulation.integrator, in if-chain or table form, leave pairwise different configurations (R18.9). Option tables computed at import time are folded before comparison with the C enum. Every global name loaded by a function of the Python layer is bound at module level, in an enclosing scope or in the builtins (R18.11). Methods of Simulation, Particles, Particle, Orbit and Rotation store nothing on the Python object except C struct members, settable properties, constructor identity and the confirmed keep-alive references (R18.10). Variation.particles decides \'test particle variation\' with the same comparison as the C code (R01.13, shared).',
    'C12': 'Also: transformation calls selected by a coordinate-system constant belong to one system per constant at every site (R12.6). Variational sets are transformed with the same particle counts as the real particles next to them (R16.12); forward and inverse democratic-heliocentric maps of MERCURIUS and TRACE sum over the same bodies (R12.7); prototype/definition parameter order (R11.13, shared). A map back to inertial coordinates does not read a destination mass before it has stored it (R12.8).',
    'C19': 'Also: the one capacity counter the serialiser lowers is lowered to a size the owner\'s growth test itself asks for (R19.4). The owner of a capacity the serialiser trims tests it with capacity < need only, the one test whose outcome is the same before and after trimming (R19.4). A descriptor handed to fdopen is closed once, through its stream: no close() of a descriptor whose stream was fclose()d (R19.6). A file-scope object assigned different values at different sites counts as shared state (R19.1); switches over r->status handle the statuses a client can set (R01.1). Descriptor rows designate the member they name, so a served snapshot carries every flag under its own name (R05.2, shared). Every \'tree in use\' site names both tree searches, so a served or restored linetree snapshot gets its tree back (R19.7 = R15.7, shared).',
    'C20': 'Also: in reb_simulation_move_to_com the totals come from completed loops over the right member and the per-particle summands of the first- and second-order shifts equal '
           'the first and mixed second derivative of sum m x / sum m (R20.7); units_convert_particle converts every dimensional field, also when written as a setattr loop. No parameter of the scaling/rotation wrappers is ignored or overwritten before it is read (R20.8); the inline conversions of the Python front end carry G exactly as the C ones do (R11.4, R11.8); every quaternion returned by reb_rotation_init_from_to is built from normalised vectors (unit typestate, R20.9); reb_rotation_to_orbital returns angles whose sum / difference reproduce the two arctangents that determine the rotation in each of its three branches, given the half-angle form of reb_rotation_init_orbit derived symbolically (R20.10). The effect sets of reb_simulation_imul/iadd/isub on a particle are exactly positions and velocities (R20.11); the vector constructors copy their arguments (R20.12). reb_rotation_init_to_new_axes projects on the normalised new z axis and is the product of from_to(newz, z) and a rotation about z (R20.13). reb_simulation_com sums over all real particles (R20.14). The methods of the vector and rotation classes load only bound names (R18.11, shared); Rotation constructors that build their result with a C function return nothing else (R20.15). Frame shifts are carried out for a single particle too (R20.16).',
}
# Rules of the eighth group (defects found by following up remarks of the round-7 agents).
EXTRA8 = {
    'C01': 'The jerk of the modified-kick schemes visits exactly the pair set of the acceleration it corrects - active-active and active-test pairs, never two test particles - for every ordering '
           'of the counts, both test-particle types and the ignore-terms modes of its callers (R02.14, pair-domain engine); the direct term of the Jacobi-split gravity routine and of the WHFast '
           'jerk is guarded to the same set, so the kernels MODIFIEDKICK and LAZY integrate the system the DEFAULT kernel integrates (R02.15).',
    'C02': 'The same pair-domain evaluation covers the jerk routine (R02.14) and the guard of the direct term of the Jacobi-split routine and of reb_whfast_calculate_jerk (R02.15): no routine lets two '
           'test particles interact. The root box a particle is filed in is decided by exact evaluation of the index function and of the root-cell constructor (R15.4, see C15).',
    'C15': 'R15.4 is decided on values: reb_get_rootbox_for_particle and the root-cell constructor of reb_tree_add_particle_to_cell are evaluated exactly (rationals, C semantics of floor, casts and %) '
           'on root layouts with unequal counts per axis and on both faces of the box, every root-box border and interior points on either side: the index is valid, the constructor builds the cell '
           'of that index, and the cell contains the point by the test the tree update applies - a particle on a face of the box (which the boundary code keeps) included.',
}
for _k, _t in EXTRA8.items():
    EXTRA[_k] = EXTRA[_k].rstrip() + ' ' + _t
for _k, _t in EXTRA.items():
    CLAIMS[_k]['decided'] = CLAIMS[_k]['decided'].rstrip() + ' ' + _t
CLAIMS['C02']['not_decided'] = 'numeric equality with the Newtonian sum, tree multipole bound, compensated-summation accuracy; pair sets of the encounter-mode loops (compact index space)'
