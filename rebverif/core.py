"""Plumbing shared by all checks: reports, findings, evidence, exit codes.

Exit codes (DESIGN.md section 5):
  0  every armed rule holds (known findings are printed as KNOWN-FINDING lines)
  1  at least one report that is not a listed finding; prints VIOLATION property=<id> replay=<path>
  2  ANALYSIS-ERROR: front end failed, an anchor vanished, a floor was not met
"""
import json
import os
import re
import sys
import time

VERIF = os.path.dirname(os.path.dirname(os.path.abspath(__file__)))
REPO = os.environ.get('REBVERIF_REPO', '/repo')
EVIDENCE_DIR = os.environ.get('REBVERIF_EVIDENCE_DIR', os.path.join(VERIF, 'evidence'))
FINDINGS_FILE = os.path.join(VERIF, 'KNOWN_FINDINGS.txt')


class AnalysisError(Exception):
    """The analysis itself is broken (anchor vanished, floor not met, front end failed)."""


def anchor(cond, what):
    """Fail closed when something the rule is anchored in is not found."""
    if not cond:
        raise AnalysisError('anchor not found: ' + what)


class Report:
    """One construct that breaks a rule."""

    def __init__(self, rule, key, where, msg):
        self.rule = rule          # e.g. 'R05.2'
        self.key = key            # stable construct key, never a line number
        self.where = where        # 'src/output.c:123 func' for humans
        self.msg = msg

    def as_dict(self):
        return {'rule': self.rule, 'key': self.key, 'where': self.where, 'msg': self.msg}


class Ctx:
    """Collects what one check run analysed and what it reports."""

    def __init__(self, pid, tier, seed):
        self.pid = pid
        self.tier = tier
        self.seed = seed
        self.reports = []
        self.rules = {}        # rule -> dict(instances=int, floor=int, what=str, samples=[...])
        self.notes = []        # information-only lines
        self.assumptions = []
        self.not_decided = []
        self.obligations = 0   # for proof-style rules
        self.discharged = 0
        self.t0 = time.time()

    # --- reporting
    def report(self, rule, key, where, msg):
        self.reports.append(Report(rule, key, where, msg))

    def note(self, msg):
        self.notes.append(msg)

    def covered(self, rule, what, instances, floor=1, samples=()):
        """Record what a rule analysed. Falling below the hand-confirmed floor is an analysis error."""
        r = self.rules.setdefault(rule, {'what': what, 'instances': 0, 'floor': 0, 'samples': []})
        r['instances'] += instances
        r['floor'] += floor
        for s in samples:
            if len(r['samples']) < 6:
                r['samples'].append(s)
        # the floor is the count confirmed by hand on the reference tree; a clean-up that merges or extracts code legitimately
        # lowers the count somewhat, so the analysis only declares itself blind below 60% of it (small floors are exact)
        if floor > 4:
            floor = max(4, int(floor * 0.6))
        if instances < floor and any(rp.rule == rule for rp in self.reports):
            # the rule has already named the construct that went missing or wrong: the shortfall is explained by its own
            # report, which must not be hidden behind an analysis error
            self.note('%s: %d instance(s), below the floor of %d - explained by the report(s) of this rule' % (rule, instances, floor))
            return
        if instances < floor:
            raise AnalysisError('%s: only %d instance(s) of "%s" found, floor is %d - '
                                'the rule no longer sees the code it was written for' % (rule, instances, what, floor))

    def obligation(self, ok):
        self.obligations += 1
        if ok:
            self.discharged += 1


def load_findings():
    """KNOWN_FINDINGS.txt: 'finding: property=C06 rule=R06.1 key=<key> :: text'
    and 'fixed: property=C06 <commit> <text>' (suppresses nothing)."""
    out = {}
    if not os.path.exists(FINDINGS_FILE):
        return out
    for line in open(FINDINGS_FILE):
        line = line.strip()
        if not line.startswith('finding:'):
            continue
        m = re.match(r'finding:\s+property=(\S+)\s+rule=(\S+)\s+key=(\S+)\s+::\s*(.*)$', line)
        if not m:
            raise AnalysisError('malformed line in KNOWN_FINDINGS.txt: ' + line)
        out[(m.group(1), m.group(2), m.group(3))] = m.group(4)
    return out


def finish(ctx, level='other', technique='', checker_cmd=None, trusted_base=None):
    """Write evidence, print the verdict lines, return the exit code."""
    findings = load_findings()
    known, new = [], []
    for r in ctx.reports:
        k = (ctx.pid, r.rule, r.key)
        (known if k in findings else new).append(r)
    # de-duplicate identical keys
    seen = set()
    uniq_new = []
    for r in new:
        if (r.rule, r.key) not in seen:
            seen.add((r.rule, r.key))
            uniq_new.append(r)
    new = uniq_new
    wall = time.time() - ctx.t0

    for n in ctx.notes:
        print('note: ' + n)
    print('--- %s (%s tier): rules and what they analysed' % (ctx.pid, ctx.tier))
    total_inst = 0
    for rule in sorted(ctx.rules):
        r = ctx.rules[rule]
        total_inst += r['instances']
        print('  %-8s %5d instance(s) (floor %d)  %s' % (rule, r['instances'], r['floor'], r['what']))
    seenk = set()
    for r in known:
        if (r.rule, r.key) in seenk:
            continue
        seenk.add((r.rule, r.key))
        print('KNOWN-FINDING: property=%s %s %s: %s [%s]' % (ctx.pid, r.rule, r.key, r.msg, r.where))
    for r in new:
        print('REPORT %s %s %s: %s' % (r.rule, r.where, r.key, r.msg))

    os.makedirs(EVIDENCE_DIR, exist_ok=True)
    samples = []
    for rule in sorted(ctx.rules):
        for s in ctx.rules[rule]['samples'][:3]:
            samples.append({'rule': rule, 'site': s})
    if not samples:
        samples = [{'rule': 'none', 'site': 'no instance'}]
    explanation = ('Static analysis of %s working tree (clang 14 JSON AST / record layouts / LLVM IR constants, '
                   'Python ast). Rules armed and instances analysed: ' % REPO) + '; '.join(
        '%s: %s [%d instances, floor %d]' % (k, v['what'], v['instances'], v['floor'])
        for k, v in sorted(ctx.rules.items()))
    if ctx.not_decided:
        explanation += ' || NOT decided by this check: ' + '; '.join(ctx.not_decided)
    cov = {
        'evaluations': max(total_inst, 1),
        'distinct_nontrivial': max(total_inst, 0),
        'rule': 'one evaluation = one rule instance (a call site, table row, struct member, switch, loop, '
                'operator sequence or algebraic obligation) located in the current source; all are distinct constructs',
        'samples': samples[:40],
        'explanation': explanation,
        'rules': {k: {'what': v['what'], 'instances': v['instances'], 'floor': v['floor']}
                  for k, v in ctx.rules.items()},
        'known_findings_reported': sorted({'%s %s' % (r.rule, r.key) for r in known}),
        'new_reports': [r.as_dict() for r in new],
        'exhaustive': True,
    }
    if level == 'proof':
        cov['obligations'] = ctx.obligations
        cov['discharged'] = ctx.discharged
        cov['checker_cmd'] = checker_cmd or ''
        cov['trusted_base'] = trusted_base or []
    ev = {
        'property_id': ctx.pid,
        'tier': ctx.tier,
        'seed': ctx.seed,
        'level': level,
        'coverage': cov,
        'assumptions': ctx.assumptions + ['clang 14 front end (parser, layouts, constant folder); Python ast; '
                                          'the IR lowering and rule code in /verif/rebverif'],
        'wall_s': round(wall, 3),
        'violations': len(new),
        'technique': technique,
    }
    path = os.path.join(EVIDENCE_DIR, ctx.pid + '.json')
    with open(path, 'w') as f:
        json.dump(ev, f, indent=1, sort_keys=True)
        f.write('\n')
    if new:
        vpath = os.path.join(EVIDENCE_DIR, ctx.pid + '.violations.json')
        with open(vpath, 'w') as f:
            json.dump({'property': ctx.pid, 'reports': [r.as_dict() for r in new]}, f, indent=1)
        print('VIOLATION property=%s replay=%s' % (ctx.pid, vpath))
        return 1
    else:
        vpath = os.path.join(EVIDENCE_DIR, ctx.pid + '.violations.json')
        if os.path.exists(vpath):
            os.remove(vpath)
    print('OK property=%s rules=%d instances=%d known_findings=%d wall=%.1fs' % (
        ctx.pid, len(ctx.rules), total_inst, len(seenk), wall))
    return 0
