"""C18 - the Python classes mirror the C structures and options exactly (decided statically)."""
import ast
import re

from ..core import AnalysisError, anchor
from .. import cfront, layout, pyfront

ROOTS = [('Simulation', 'reb_simulation')]

# Python classes that mirror only a prefix of the C struct (and are only used behind POINTER()).
PREFIX_ONLY = {'ServerData': 'only reached through POINTER(ServerData); source comment "other fields not needed"'}

# Name aliases: python field (underscores stripped) -> C member, each with its reason.
NAME_ALIAS = {
    ('Simulation', 'gravity_ignore'): ('gravity_ignore_terms', 'historic short name kept in the Python API'),
    ('Simulation', 'display_view'): ('display_settings', 'opaque pointer, never dereferenced from Python'),
    ('Simulation', 'max_radius'): ('max_radius0', 'c_double*2 spans max_radius0,max_radius1'),
    ('Simulation', 'odes_warnings'): ('ode_warnings', 'private field, plural slip in the private name only'),
    ('Simulation', 'N_allocated_odes'): ('N_allocated_odes', ''),
    ('IntegratorTRACE', 'N_allocated_additionalforces'): ('N_allocated_additional_forces', 'private counter'),
    ('IntegratorMercurius', 'N_allocated_additionalforces'): ('N_allocated_additional_forces', 'private counter'),
}


def _words(n):
    """Names are compared as case-insensitive multisets of their underscore-separated words:
    a private field may reorder words (_map_allocated_n / N_allocated_map) without reading other bytes."""
    return sorted(w for w in n.lower().split('_') if w)


def _strip_us(n):
    return n.lstrip('_')


def _ptr_target_py(e):
    """POINTER(X) -> 'X' (class name) else None."""
    if isinstance(e, ast.Call) and pyfront._name(e.func) == 'POINTER' and e.args:
        return pyfront._name(e.args[0])
    return None


def _c_ptr_target(ctype):
    m = re.match(r'^(?:const )?struct (\w+)\s*\*', ctype.replace(' const', ''))
    return m.group(1) if m else None


def discover_pairs(db, recs, tus):
    """Python struct class <-> C struct, derived from the repository:
    (a) from the root pair through member types at equal offsets, (b) through restype assignments."""
    pairs = dict(ROOTS)
    work = list(ROOTS)
    while work:
        py, c = work.pop()
        if py not in db.classes or c not in recs or db.classes[py].fields_ast is None:
            continue
        try:
            _, _, pf = db.layout(py)
        except AnalysisError:
            continue
        cby = {m.offset: m for m in recs[c].members}
        for off, s, n, k, elt in pf:
            cm = cby.get(off)
            if cm is None:
                continue
            te = elt.elts[1]
            pyname = None
            if k.startswith('struct:'):
                pyname = k[7:]
                ctgt = cm.ctype[7:].strip() if cm.ctype.startswith('struct ') and '*' not in cm.ctype else None
            else:
                pyname = _ptr_target_py(te)
                ctgt = _c_ptr_target(cm.ctype)
            if pyname and ctgt and pyname in db.classes and ctgt in recs and db.classes[pyname].fields_ast is not None:
                if pyname not in pairs:
                    pairs[pyname] = ctgt
                    work.append((pyname, ctgt))
    # (b) restype = <Class>  where the C function returns struct X (or struct X*)
    protos = {}
    for tu in tus.values():
        for name, fn in list(tu.funcs.items()) + list(tu.protos.items()):
            protos.setdefault(name, fn)
    for rel, tree in db.files.items():
        for node in ast.walk(tree):
            if isinstance(node, ast.Assign) and len(node.targets) == 1:
                t = node.targets[0]
                if isinstance(t, ast.Attribute) and t.attr == 'restype' and isinstance(t.value, ast.Attribute) \
                        and pyfront._name(t.value.value) == 'clibrebound':
                    fn = t.value.attr
                    v = node.value
                    cls = pyfront._name(v) if isinstance(v, (ast.Name, ast.Attribute)) else _ptr_target_py(v)
                    if cls in db.classes and db.classes[cls].fields_ast is not None and fn in protos:
                        rt = cfront.qtype(protos[fn]).split('(')[0].strip()
                        m = re.match(r'^(?:const )?struct (\w+)', rt)
                        if m and m.group(1) in recs and cls not in pairs:
                            pairs[cls] = m.group(1)
                            work.append((cls, m.group(1)))
    # classes found through (b) may open new member pairs
    while work:
        py, c = work.pop()
        try:
            _, _, pf = db.layout(py)
        except AnalysisError:
            continue
        cby = {m.offset: m for m in recs[c].members}
        for off, s, n, k, elt in pf:
            cm = cby.get(off)
            if cm is None:
                continue
            if k.startswith('struct:'):
                pyname, ctgt = k[7:], (cm.ctype[7:].strip() if cm.ctype.startswith('struct ') and '*' not in cm.ctype else None)
            else:
                pyname, ctgt = _ptr_target_py(elt.elts[1]), _c_ptr_target(cm.ctype)
            if pyname and ctgt and pyname in db.classes and ctgt in recs and pyname not in pairs \
                    and db.classes[pyname].fields_ast is not None:
                pairs[pyname] = ctgt
                work.append((pyname, ctgt))
    return pairs


# classes whose C twin cannot be discovered through member types or restype; matched by documented name
EXTRA_PAIRS = {
    'Simulationarchive': 'reb_simulationarchive',
    'BinaryFieldDescriptor': 'reb_binary_field_descriptor',
    'Vec3d': 'reb_vec3d',
    'Orbit': 'reb_orbit',
    'Rotation': 'reb_rotation',
    'HashPointerPair': 'reb_hash_pointer_pair',
    'CollisionS': 'reb_collision',
    'ODE': 'reb_ode',
    'Variation': 'reb_variational_configuration',
    'Vec6d': 'reb_vec6d',
    'reb_dp7': 'reb_dp7',
    'reb_vec6d': 'reb_vec6d',
    'reb_particle_int': 'reb_particle_int',
    'reb_particle_avx512': 'reb_particle_avx512',
}
# ctypes Structures that mirror no REBOUND struct
NOT_MIRRORS = {'timeval': 'struct timeval from libc, not a REBOUND structure'}


def kinds_agree(pk, ck, pairs):
    if pk == ck:
        return True
    if ck == 'enum' and pk in ('i32', 'u32'):
        return True
    m1 = re.match(r'^(.*)\[(\d+)\]$', pk)
    m2 = re.match(r'^(.*)\[(\d+)\]$', ck)
    if m1 or m2:
        return bool(m1 and m2) and m1.group(2) == m2.group(2) and kinds_agree(m1.group(1), m2.group(1), pairs)
    if pk.startswith('struct:') and ck.startswith('struct:'):
        return pairs.get(pk[7:]) == ck[7:]
    return False


def fptr_signature_py(db, e):
    """CFUNCTYPE(ret, a1, ...) -> [kinds]"""
    out = []
    if isinstance(e, ast.Name) and e.id in getattr(db, 'alias_exprs', {}):
        e = db.alias_exprs[e.id]
    if not isinstance(e, ast.Call):
        raise AnalysisError('function pointer type %s is not a CFUNCTYPE(...) call or a module-level name for one' % ast.unparse(e))
    for a in e.args:
        if isinstance(a, ast.Constant) and a.value is None:
            out.append('void')
            continue
        try:
            s, al, k = db.tinfo(a)
        except AnalysisError:
            k = '?'
        out.append(k)
    return out


def fptr_signature_c(ctype):
    t = ctype.replace('const ', '').replace(' const', '').replace('const', '')
    ret, rest = t.split('(*)', 1)
    args = rest.strip()[1:-1]
    parts = []
    depth = 0
    cur = ''
    for ch in args:
        if ch == '(':
            depth += 1
        elif ch == ')':
            depth -= 1
        if ch == ',' and depth == 0:
            parts.append(cur.strip())
            cur = ''
        else:
            cur += ch
    if cur.strip():
        parts.append(cur.strip())
    if parts == ['void']:
        parts = []
    return [layout.ckind(ret.strip()) if ret.strip() != 'void' else 'void'] + [layout.ckind(p) for p in parts]


def scalar_kind_compatible(pk, ck):
    if pk == ck:
        return True
    if pk == 'ptr' and ck == 'ptr':
        return True
    if ck == 'enum' and pk in ('i32', 'u32'):
        return True
    if ck.startswith('struct:') and pk.startswith('struct:'):
        return True
    if pk == '?':
        return True
    return False


def rule_shortcut_injective(ctx):
    """R18.9: documented shortcut names of a string-valued setter (Simulation.integrator: WH, WHC, WHCKL, WHCKM, WHCKC, ...)
    stand for different configurations. The setter is evaluated (finite-domain evaluation of its body, module-level
    constant tables included) for every string it compares its argument with or looks up in a table; two names that
    leave exactly the same set of two or more assignments behind are one configuration under two names - one of the
    documented methods cannot be selected."""
    import ast
    from . import pyeval
    db = pyfront.pydb()
    cls = db.classes.get('Simulation')
    anchor(cls is not None, 'class Simulation')
    tree = db.files[cls.path]
    consts = {}
    for st in tree.body:
        if isinstance(st, ast.Assign) and len(st.targets) == 1 and isinstance(st.targets[0], ast.Name) and isinstance(st.value, ast.Dict):
            v = pyeval._ev(st.value, pyeval.Path({}))
            if v is not pyeval.UNK:
                consts[st.targets[0].id] = v
    n = 0
    for fn in [x for x in ast.walk(tree) if isinstance(x, ast.FunctionDef)]:
        if not any(isinstance(d, ast.Attribute) and d.attr == 'setter' for d in fn.decorator_list):
            continue
        if len(fn.args.args) != 2:
            continue
        param = fn.args.args[1].arg
        local_dicts = {}
        for a_ in ast.walk(fn):
            if isinstance(a_, ast.Assign) and len(a_.targets) == 1 and isinstance(a_.targets[0], ast.Name) and isinstance(a_.value, ast.Dict):
                v = pyeval._ev(a_.value, pyeval.Path(dict(consts)))
                if v is not pyeval.UNK:
                    local_dicts[a_.targets[0].id] = v
        cands = []
        # names for the argument: the parameter itself and locals assigned from it (name = value.lower())
        names_ = {param}
        for a_ in ast.walk(fn):
            if isinstance(a_, ast.Assign) and len(a_.targets) == 1 and isinstance(a_.targets[0], ast.Name):
                v_ = a_.value
                if isinstance(v_, ast.Call) and isinstance(v_.func, ast.Attribute) and v_.func.attr in ('lower', 'strip', 'upper') and not v_.args:
                    v_ = v_.func.value
                if isinstance(v_, ast.Name) and v_.id in names_:
                    names_.add(a_.targets[0].id)
        for c in ast.walk(fn):
            if isinstance(c, ast.Compare) and isinstance(c.left, ast.Name) and c.left.id in names_ and len(c.ops) == 1:
                k0 = c.comparators[0]
                if isinstance(c.ops[0], ast.Eq) and isinstance(k0, ast.Constant) and isinstance(k0.value, str):
                    cands.append(k0.value)
                if isinstance(c.ops[0], ast.In) and isinstance(k0, ast.Name):
                    d_ = local_dicts.get(k0.id, consts.get(k0.id))
                    if isinstance(d_, dict) and all(isinstance(v_, tuple) for v_ in d_.values()):
                        cands += [k_ for k_ in d_ if isinstance(k_, str)]
        cands = sorted(set(cands))
        if len(cands) < 2:
            continue
        outcome = {}
        for k in cands:
            dom = {param: [k]}
            dom.update({name: [val] for name, val in consts.items()})
            best = None
            for env, r in pyeval.paths(fn, dom):
                if r.done == 'raise':
                    continue
                sets = tuple(sorted((t, repr(v)) for t, v in r.env.items() if t.startswith('self.') and v is not pyeval.UNK and not isinstance(v, dict)))
                if best is None or len(sets) > len(best):
                    best = sets
            if best and len(best) >= 2:
                outcome[k] = best
            n += 1
        inv = {}
        for k, sets in outcome.items():
            inv.setdefault(sets, []).append(k)
        for sets, ks in sorted(inv.items()):
            if len(ks) > 1:
                ctx.report('R18.9', '%s:%s' % (fn.name, '='.join(sorted(ks))), 'rebound/simulation.py:%d Simulation.%s (setter)' % (fn.lineno, fn.name),
                           'the names %s configure exactly the same thing (%s): one of them cannot be what its name documents' % (' and '.join(repr(k) for k in sorted(ks)), ', '.join('%s=%s' % kv for kv in sets)))
    ctx.covered('R18.9', 'string shortcuts of Simulation setters: distinct names leave distinct configurations', n, floor=5)


def run(ctx):
    from . import edges
    edges.rule_threshold_siblings(ctx, 'R01.13')     # one quantity, one literal, one line: Variation.particles for testparticle = 0
    from . import pyrules
    pyrules.rule_undefined_names(ctx, 'R18.11')     # every name a function of the Python layer loads is bound somewhere
    from . import pyrules
    pyrules.rule_wrapper_state(ctx, 'R18.10')      # the Python objects are views: no state of their own
    rule_shortcut_injective(ctx)
    from . import c16
    c16.rule_python_parameters(ctx, 'R18.8')      # no parameter of the Python layer is silently ignored
    db = pyfront.pydb()
    recs = layout.record_layouts()
    tus = cfront.load_tus(['rebound.c', 'tools.c', 'rotations.c', 'particle.c', 'integrator_trace.c',
                           'integrator_mercurius.c', 'collision.c'])
    pairs = discover_pairs(db, recs, tus)
    discovered = dict(pairs)
    for py, c in EXTRA_PAIRS.items():
        if py in db.classes and db.classes[py].fields_ast is not None and c in recs and py not in pairs:
            pairs[py] = c
    # every ctypes Structure with _fields_ must be paired or declared a non-mirror
    unpaired = []
    for name, c in db.classes.items():
        if c.fields_ast is None:
            continue
        if name in pairs or name in NOT_MIRRORS:
            continue
        unpaired.append(name)
    if unpaired:
        raise AnalysisError('R18.1: ctypes Structure(s) with no known C twin: %s - scope changed, '
                            'the rule must be told what they mirror' % ', '.join(sorted(unpaired)))

    # ---------------- R18.1 / R18.2 layout and names
    nfields = 0
    samples = []
    for py in sorted(pairs):
        c = pairs[py]
        cls = db.classes[py]
        psz, _, pf = db.layout(py)
        rec = recs[c]
        path = getattr(cls, 'fields_path', cls.path)
        cby = {m.offset: m for m in rec.members}
        cms = rec.members
        covered = set()
        for off, s, n, k, elt in pf:
            nfields += 1
            w = '%s:%d %s.%s' % (path, elt.lineno, py, n)
            key = '%s.%s' % (py, n)
            cm = cby.get(off)
            if cm is None:
                ctx.report('R18.1', key, w, 'Python field at offset %d (size %d) does not start at any member of struct %s'
                           % (off, s, c))
                continue
            # run of adjacent members?
            run_members = [cm]
            tot = cm.size
            idx = cms.index(cm)
            while tot < s and idx + 1 < len(cms) and cms[idx + 1].offset == cm.offset + tot:
                idx += 1
                run_members.append(cms[idx])
                tot += cms[idx].size
            if tot != s:
                ctx.report('R18.1', key, w, 'size mismatch: Python %d bytes (%s), C member %s is %d bytes (%s) at offset %d of struct %s'
                           % (s, k, cm.name, cm.size, cm.ctype, off, c))
                for m in run_members[:1]:
                    covered.add(m.offset)
                continue
            for m in run_members:
                covered.add(m.offset)
            ck = layout.ckind(cm.ctype)
            if len(run_members) > 1:
                base = re.match(r'^(.*)\[(\d+)\]$', k)
                ok = bool(base) and int(base.group(2)) == len(run_members) and \
                    all(layout.ckind(m.ctype) == base.group(1) for m in run_members)
                if not ok:
                    ctx.report('R18.1', key, w, 'Python %s spans C members %s of different kind'
                               % (k, ','.join(m.name for m in run_members)))
            elif k.startswith('fptr/') and ck.startswith('fptr/'):
                ps = fptr_signature_py(db, elt.elts[1])
                cs = fptr_signature_c(cm.ctype)
                if len(ps) != len(cs):
                    ctx.report('R18.1', key, w, 'function pointer arity: Python CFUNCTYPE has %d parameter(s), C member %s has %d (%s)'
                               % (len(ps) - 1, cm.name, len(cs) - 1, cm.ctype))
                else:
                    for i, (a, b) in enumerate(zip(ps, cs)):
                        if not scalar_kind_compatible(a, b):
                            ctx.report('R18.1', key, w, 'function pointer %s: Python %s vs C %s (%s)'
                                       % ('return type' if i == 0 else 'parameter %d' % i, a, b, cm.ctype))
            elif not kinds_agree(k, ck, pairs):
                ctx.report('R18.1', key, w, 'kind mismatch: Python %s vs C %s %s (struct %s offset %d)'
                           % (k, cm.ctype, cm.name, c, off))
            # names
            pn = _strip_us(n)
            if _words(pn) != _words(cm.name):
                alias = NAME_ALIAS.get((py, pn))
                if not (alias and alias[0] == cm.name):
                    ctx.report('R18.2', key, w, 'Python field %s sits on C member %s (offset %d of struct %s): names differ'
                               % (n, cm.name, off, c))
            if len(samples) < 8 and py == 'Simulation':
                samples.append('%s.%s@%d <-> struct %s.%s (%s)' % (py, n, off, c, cm.name, cm.ctype))
        if psz != rec.size:
            if py in PREFIX_ONLY:
                ctx.note('R18.1 %s mirrors a %d-byte prefix of struct %s (%d bytes): %s' % (py, psz, c, rec.size, PREFIX_ONLY[py]))
            else:
                ctx.report('R18.1', py + '.sizeof', '%s:%d %s' % (path, cls.fields_line, py),
                           'sizeof mismatch: Python %d bytes, struct %s is %d bytes' % (psz, c, rec.size))
        if py not in PREFIX_ONLY:
            for m in rec.members:
                if m.offset not in covered:
                    ctx.report('R18.1', '%s.<C:%s>' % (py, m.name), '%s:%d %s' % (path, cls.fields_line, py),
                               'C member %s (offset %d of struct %s) is not mirrored by any Python field' % (m.name, m.offset, c))
    ctx.covered('R18.1', 'Python ctypes field vs C member: offset, size, kind (layouts: clang record layout vs ABI calculator over _fields_)',
                nfields, floor=340, samples=samples)
    ctx.covered('R18.2', 'field name vs member name at the same offset (frozen aliases: %d)' % len(NAME_ALIAS), nfields, floor=340)
    ctx.covered('R18.1p', 'mirrored struct pairs (%d discovered through member types/restype from the Simulation root, %d by documented name)'
                % (len(discovered), len(pairs) - len(discovered)), len(pairs), floor=24,
                samples=['%s <-> struct %s' % kv for kv in sorted(pairs.items())])

    # ---------------- R18.3 field/property clash, R18.4 dangling property targets
    nprops = 0
    for py, cls in sorted(db.classes.items()):
        if cls.fields_ast is None:
            continue
        try:
            _, _, pf = db.layout(py)
        except AnalysisError:
            continue
        fnames = {f[2] for f in pf}
        # attributes assigned anywhere in the class (self.X = ...), inherited names not tracked
        assigned = set()
        for node in ast.walk(cls.node):
            if isinstance(node, ast.Attribute) and isinstance(node.ctx, ast.Store) and pyfront._name(node.value) == 'self':
                assigned.add(node.attr)
        for name, node in cls.defs.items():
            if name in fnames and name != '_fields_':
                kind = 'property' if name in cls.props else 'method/attribute'
                ctx.report('R18.3', '%s.%s' % (py, name), '%s:%d %s.%s' % (cls.path, getattr(node, 'lineno', 0), py, name),
                           '%s is both a ctypes field and a class-level %s: the ctypes descriptor installed for the field '
                           'replaces it, so set-by-name/read-as-name never runs' % (name, kind))
        for pname, acc in sorted(cls.props.items()):
            nprops += 1
            for role, fn in acc.items():
                for node in ast.walk(fn):
                    if isinstance(node, ast.Attribute) and pyfront._name(node.value) == 'self' and node.attr.startswith('_') \
                            and not node.attr.startswith('__'):
                        a = node.attr
                        if a in fnames or a in cls.defs or a in cls.props:
                            continue
                        if isinstance(node.ctx, ast.Load) and a not in assigned:
                            ctx.report('R18.4', '%s.%s->%s' % (py, pname, a), '%s:%d %s.%s' % (cls.path, node.lineno, py, pname),
                                       'property %s reads self.%s, which is neither a ctypes field nor assigned anywhere in the class' % (pname, a))
                        if isinstance(node.ctx, ast.Store) and ('_' + pname == a) and a not in fnames:
                            # the setter stores the option value into an attribute that is not backed by C memory
                            if pname in fnames or ('_' + pname) not in fnames:
                                # only a problem when the *value* is meant for C: flag when a same-named C-backed field exists
                                if pname in fnames:
                                    ctx.report('R18.4', '%s.%s->%s' % (py, pname, a), '%s:%d %s.%s' % (cls.path, node.lineno, py, pname),
                                               'setter of %s stores into self.%s, which is not a ctypes field (the C member is mirrored as %s)' % (pname, a, pname))
    ctx.covered('R18.3', 'class-level names vs _fields_ names per mirrored class', sum(len(c.defs) for c in db.classes.values() if c.fields_ast is not None), floor=150)
    ctx.covered('R18.4', 'property bodies: self._x targets resolve to fields or class attributes', nprops, floor=40)

    # ---------------- R18.5 option tables
    check_option_tables(ctx, db)
    # ---------------- R18.6 named function options, R18.7 restype
    check_symbols(ctx, db)


# option dictionary -> (struct, member, prefix of the enumerators)
OPTION_TABLES = [
    ('rebound/simulation.py', 'INTEGRATORS', 'reb_simulation', 'integrator', 'REB_INTEGRATOR_'),
    ('rebound/simulation.py', 'BOUNDARIES', 'reb_simulation', 'boundary', 'REB_BOUNDARY_'),
    ('rebound/simulation.py', 'GRAVITIES', 'reb_simulation', 'gravity', 'REB_GRAVITY_'),
    ('rebound/simulation.py', 'COLLISIONS', 'reb_simulation', 'collision', 'REB_COLLISION_'),
    ('rebound/integrators/trace.py', 'TRACE_PERI_MODES', 'reb_integrator_trace', 'peri_mode', 'REB_TRACE_PERI_'),
    ('rebound/integrators/whfast.py', 'WHFAST_KERNELS', 'reb_integrator_whfast', 'kernel', 'REB_WHFAST_KERNEL_'),
    ('rebound/integrators/whfast.py', 'WHFAST_COORDINATES', 'reb_integrator_whfast', 'coordinates', 'REB_WHFAST_COORDINATES_'),
    ('rebound/integrators/saba.py', 'SABA_TYPES', 'reb_integrator_saba', 'type', 'REB_SABA_'),
    ('rebound/integrators/eos.py', 'EOS_TYPES', 'reb_integrator_eos', 'phi0', 'REB_EOS_'),
]


def _norm_opt(s):
    return re.sub(r'[^a-z0-9]', '', s.lower())


def check_option_tables(ctx, db):
    me = layout.member_enums()
    n = 0
    samples = []
    for rel, dname, struct, member, prefix in OPTION_TABLES:
        node = db.module_assigns.get((rel, dname))
        anchor(node is not None, 'option dictionary %s in %s' % (dname, rel))
        try:
            d = pyfront.const_value(node)
        except ValueError:
            # a table that is computed at import time: fold the module-level statements (side-effect-free subset)
            from .. import pyfold
            d = pyfold.module_constants(db.files[rel]).get(dname)
            if not isinstance(d, dict) or not all(isinstance(k_, str) and isinstance(v_, int) for k_, v_ in d.items()):
                raise AnalysisError('option dictionary %s is neither a literal nor computed from literals by foldable module-level code' % dname)
        anchor((struct, member) in me, 'enum type of struct %s member %s' % (struct, member))
        cvals = me[(struct, member)]
        cmap = {}
        for ename, v in cvals:
            anchor(ename.startswith(prefix), 'enumerator %s of %s.%s has prefix %s' % (ename, struct, member, prefix))
            cmap[_norm_opt(ename[len(prefix):])] = (ename, v)
        pmap = {}
        for k, v in d.items():
            pmap[_norm_opt(k)] = (k, v)
        where = '%s:%d %s' % (rel, node.lineno, dname)
        for nk, (k, v) in sorted(pmap.items()):
            n += 1
            if nk not in cmap:
                ctx.report('R18.5', '%s[%s]' % (dname, k), where, 'Python option %r=%d has no enumerator %s* in struct %s.%s'
                           % (k, v, prefix, struct, member))
            elif cmap[nk][1] != v:
                ctx.report('R18.5', '%s[%s]' % (dname, k), where, 'Python option %r=%d but C %s=%d' % (k, v, cmap[nk][0], cmap[nk][1]))
            elif len(samples) < 6:
                samples.append('%s[%r]=%d == %s' % (dname, k, v, cmap[nk][0]))
        for nk, (ename, v) in sorted(cmap.items()):
            if nk not in pmap:
                ctx.report('R18.5', '%s<-%s' % (dname, ename), where, 'C enumerator %s=%d has no entry in Python dictionary %s' % (ename, v, dname))
        # duplicate values make read-back ambiguous
        seen = {}
        for k, v in d.items():
            if v in seen:
                ctx.report('R18.5', '%s[%s]dup' % (dname, k), where, 'options %r and %r share value %d: read-back cannot return the name that was set' % (seen[v], k, v))
            seen[v] = k
    ctx.covered('R18.5', 'option dictionary entries vs enumerators of the C member they are stored in (name and value, both directions)', n, floor=60, samples=samples)
    # getter iterates the same dict the setter indexes
    ng = 0
    tables = {t[1] for t in OPTION_TABLES}
    # tables derived at module level from exactly one option table (reverse dictionaries, copies) stand for that table
    derived = {}
    for path_, tree_ in db.files.items():
        for st_ in tree_.body:
            if isinstance(st_, ast.Assign) and len(st_.targets) == 1 and isinstance(st_.targets[0], ast.Name) and st_.targets[0].id.isupper():
                used = {n_.id for n_ in ast.walk(st_.value) if isinstance(n_, ast.Name) and n_.id in tables}
                if len(used) == 1 and st_.targets[0].id not in tables:
                    derived[st_.targets[0].id] = next(iter(used))

    def base_tables(fn_):
        out = set()
        for n_ in ast.walk(fn_):
            if isinstance(n_, ast.Name) and n_.id.isupper() and len(n_.id) > 3:
                out.add(derived.get(n_.id, n_.id))
        return out
    for py, cls in sorted(db.classes.items()):
        for pname, acc in cls.props.items():
            if 'get' in acc and 'set' in acc:
                gd = base_tables(acc['get'])
                sd = base_tables(acc['set'])
                gd &= tables
                sd &= tables
                if gd or sd:
                    ng += 1
                    if gd != sd:
                        ctx.report('R18.5', '%s.%s tables' % (py, pname), '%s:%d %s.%s' % (cls.path, acc['get'].lineno, py, pname),
                                   'getter uses %s but setter uses %s' % (sorted(gd), sorted(sd)))
                    # the property must read and write the same backing field
                    gf = {n_.attr for n_ in ast.walk(acc['get']) if isinstance(n_, ast.Attribute) and pyfront._name(n_.value) == 'self' and isinstance(n_.ctx, ast.Load)}
                    sf = {n_.attr for n_ in ast.walk(acc['set']) if isinstance(n_, ast.Attribute) and pyfront._name(n_.value) == 'self' and isinstance(n_.ctx, ast.Store)}
                    if gf and sf and not (gf & sf) and not (pname in sf):
                        ctx.report('R18.5', '%s.%s backing' % (py, pname), '%s:%d %s.%s' % (cls.path, acc['get'].lineno, py, pname),
                                   'getter reads %s but setter writes %s' % (sorted(gf), sorted(sf)))
    ctx.covered('R18.5g', 'named-option properties: getter and setter use the same dictionary and backing field', ng, floor=8)


# Python modules that drive the OPENGL-only display code; the pinned build (setup.py) does not define OPENGL.
OPENGL_ONLY_FILES = {'rebound/widget.py'}


def exported_functions():
    """{name: FunctionDecl} of functions defined in the library, with DLLEXPORT-visible prototypes in rebound.h."""
    tus = cfront.load_tus()
    defs = {}
    for tu in tus.values():
        for name, fn in tu.funcs.items():
            if fn.get('storageClass') != 'static':
                defs[name] = fn
    return defs


def _clib_syms(node):
    return [n.attr for n in ast.walk(node) if isinstance(n, ast.Attribute) and pyfront._name(n.value) == 'clibrebound'
            and isinstance(n.value, (ast.Name, ast.Attribute))]


def check_named_symbols(ctx, db, defs):
    """R18.6n: a string option name selects the C function whose name ends with that word.
    Idioms: if/elif chains comparing the argument with string literals; dict literals {name: clibrebound.f}."""
    n = 0
    samples = []
    for rel, tree in db.files.items():
        if '/tests/' in rel:
            continue
        groups = []   # list of [(literal, [symbols], lineno)]
        for node in ast.walk(tree):
            if isinstance(node, ast.Dict) and node.keys and all(isinstance(k, ast.Constant) and isinstance(k.value, str) for k in node.keys):
                g = [(k.value, _clib_syms(v), k.lineno) for k, v in zip(node.keys, node.values)]
                if any(sy for _, sy, _ in g):
                    groups.append(g)
            if isinstance(node, ast.If):
                # head of a chain only
                chain = []
                cur = node
                while isinstance(cur, ast.If):
                    t = cur.test
                    lit = None
                    if isinstance(t, ast.Compare) and len(t.ops) == 1 and isinstance(t.ops[0], ast.Eq) \
                            and isinstance(t.comparators[0], ast.Constant) and isinstance(t.comparators[0].value, str):
                        lit = t.comparators[0].value
                    if lit is not None:
                        syms = []
                        for b in cur.body:
                            syms.extend(_clib_syms(b))
                        chain.append((lit, syms, cur.lineno))
                    if len(cur.orelse) == 1 and isinstance(cur.orelse[0], ast.If):
                        cur = cur.orelse[0]
                    else:
                        break
                if chain and any(sy for _, sy, _ in chain):
                    groups.append(chain)
        seen = set()
        for g in groups:
            lits = [l for l, _, _ in g]
            for lit, syms, line in g:
                if (lit, line) in seen:
                    continue
                seen.add((lit, line))
                named = [sy for sy in syms if any(sy.lower().endswith('_' + l2.lower()) for l2 in lits)]
                if not named:
                    continue
                n += 1
                own = [sy for sy in named if sy.lower().endswith('_' + lit.lower())]
                other = [sy for sy in named if not sy.lower().endswith('_' + lit.lower())]
                if other:
                    ctx.report('R18.6', 'named:%s:%s' % (rel.split('/')[-1], lit), '%s:%d' % (rel, line),
                               'option name %r selects clibrebound.%s, which is the function of another option of the same table' % (lit, other[0]))
                elif len(samples) < 6:
                    samples.append('%s: %r -> %s' % (rel, lit, own[0]))
    ctx.covered('R18.6n', 'string option name -> library function whose name ends with that word (if/elif chains and dict literals)', n, floor=9, samples=samples)


def check_symbols(ctx, db):
    defs = exported_functions()
    globs = set()
    for tu in cfront.load_tus().values():
        for g, n in tu.globals.items():
            if n.get('storageClass') not in ('static', 'extern') or n.get('inner'):
                globs.add(g)
    refs = {}
    for rel, tree in db.files.items():
        if '/tests/' in rel:
            continue
        for node in ast.walk(tree):
            if isinstance(node, ast.Attribute) and pyfront._name(node.value) == 'clibrebound' and isinstance(node.value, (ast.Name, ast.Attribute)):
                if isinstance(node.value, ast.Attribute) and pyfront._name(node.value.value) not in ('rebound', None):
                    pass
                refs.setdefault(node.attr, []).append((rel, node.lineno))
    n = 0
    for name, sites in sorted(refs.items()):
        if name.startswith('_') or name in ('restype', 'argtypes'):
            continue
        n += 1
        if name not in defs and name not in globs:
            rel, line = sites[0]
            if all(r in OPENGL_ONLY_FILES for r, _ in sites):
                ctx.note('R18.6 clibrebound.%s is referenced only from %s and exists only in OPENGL builds (not the configuration analysed)' % (name, rel))
                continue
            ctx.report('R18.6', 'clibrebound.' + name, '%s:%d' % (rel, line), 'Python references clibrebound.%s but the library defines no such non-static symbol' % name)
    ctx.covered('R18.6', 'clibrebound.<symbol> references resolve to a non-static definition in the compiled sources', n, floor=90)

    # string-synthesised symbol names: getattr(clibrebound, "prefix"+x)
    # named function options: cast(clibrebound.f, CFUNCTYPE alias) must match f's prototype
    ncast = 0
    for rel, tree in db.files.items():
        aliases = {}
        for node in ast.walk(tree):
            if isinstance(node, ast.Assign) and len(node.targets) == 1 and isinstance(node.targets[0], ast.Name) \
                    and isinstance(node.value, ast.Call) and pyfront._name(node.value.func) == 'CFUNCTYPE':
                aliases[node.targets[0].id] = node.value
        for node in ast.walk(tree):
            if isinstance(node, ast.Call) and pyfront._name(node.func) == 'cast' and len(node.args) == 2:
                a0, a1 = node.args
                if isinstance(a0, ast.Attribute) and pyfront._name(a0.value) == 'clibrebound':
                    fname = a0.attr
                    sig = a1 if isinstance(a1, ast.Call) else aliases.get(pyfront._name(a1))
                    if sig is None or fname not in defs:
                        continue
                    ncast += 1
                    ps = fptr_signature_py(db, sig)
                    fn = defs[fname]
                    cps = [layout.ckind(cfront.qtype(p)) for p in cfront.params(fn)]
                    rt = cfront.qtype(fn).split('(')[0].strip()
                    cs = [layout.ckind(rt) if rt != 'void' else 'void'] + cps
                    if len(ps) != len(cs) or any(not scalar_kind_compatible(a, b) for a, b in zip(ps, cs)):
                        ctx.report('R18.6', 'cast:' + fname, '%s:%d' % (rel, node.lineno),
                                   'clibrebound.%s is cast to a CFUNCTYPE with signature %s but its C prototype is %s' % (fname, ps, cs))
    ctx.covered('R18.6c', 'named function options: cast(clibrebound.f, CFUNCTYPE) agrees with the prototype of f', ncast, floor=1)
    check_named_symbols(ctx, db, defs)

    # R18.7 restype discipline: functions whose C return type is not int-like need a restype of matching kind
    nres = 0
    restypes = {}
    for rel, tree in db.files.items():
        if '/tests/' in rel:
            continue
        for node in ast.walk(tree):
            if isinstance(node, ast.Assign) and len(node.targets) == 1:
                t = node.targets[0]
                if isinstance(t, ast.Attribute) and t.attr == 'restype' and isinstance(t.value, ast.Attribute) \
                        and pyfront._name(t.value.value) == 'clibrebound':
                    restypes.setdefault(t.value.attr, []).append((rel, node.lineno, node.value))
    for fname, sites in sorted(refs.items()):
        if fname not in defs:
            continue
        rt = cfront.qtype(defs[fname]).split('(')[0].strip()
        ck = layout.ckind(rt) if rt != 'void' else 'void'
        called = True
        if ck in ('i32', 'void', 'u32', 'enum'):
            # default restype c_int is right (or harmless for void); if a restype is set it must still agree
            pass
        nres += 1
        for rel, line, v in restypes.get(fname, []):
            if isinstance(v, ast.Constant) and v.value is None:
                pk = 'void'
            elif pyfront._name(v) == 'cls':
                continue
            else:
                try:
                    pk = db.tinfo(v)[2]
                except AnalysisError:
                    continue
            ok = (pk == ck) or (pk == 'ptr' and ck == 'ptr') or (pk.startswith('struct:') and ck.startswith('struct:')) \
                or (ck == 'enum' and pk in ('i32', 'u32')) or (pk == 'void' and ck == 'void') or (pk == 'i32' and ck == 'u32') or (pk == 'u32' and ck == 'i32')
            if not ok:
                ctx.report('R18.7', 'restype:' + fname, '%s:%d' % (rel, line),
                           'clibrebound.%s.restype is %s but the C function returns %s' % (fname, pk, rt))
        if ck in ('i64', 'u64') and fname not in restypes:
            ctx.note('R18.7 clibrebound.%s returns %s; Python leaves restype at c_int (value truncated to 32 bits)' % (fname, rt))
        elif ck not in ('i32', 'u32', 'void', 'enum') and fname not in restypes:
            # is the result used? only flag when some call's value is consumed
            used = False
            for rel, tree in db.files.items():
                if '/tests/' in rel:
                    continue
                for node in ast.walk(tree):
                    if isinstance(node, (ast.Assign, ast.Return, ast.AugAssign)) and node.value is not None:
                        for c in ast.walk(node.value):
                            if isinstance(c, ast.Call) and isinstance(c.func, ast.Attribute) and c.func.attr == fname \
                                    and pyfront._name(c.func.value) == 'clibrebound':
                                used = True
            if used:
                rel, line = sites[0]
                ctx.report('R18.7', 'restype:' + fname, '%s:%d' % (rel, line),
                           'clibrebound.%s returns %s in C but Python never sets its restype (default c_int) and uses the result' % (fname, rt))
    ctx.covered('R18.7', 'referenced library functions: restype (where set) agrees with the C return type; non-int results need one', nres, floor=80)
