"""C10 - JANUS bit-wise reversibility and reversibility of the symmetric schemes: static necessary conditions."""
from fractions import Fraction

from ..core import AnalysisError, anchor
from .. import cfront
from ..cfront import walk, strip, callee_name, call_args, render, line_of, qtype, toks, is_assign
from . import compose as C, x4
from .x4 import Poly

JANUS_ORDERS = (2, 4, 6, 8, 10)


def is_palindrome(word):
    n = len(word)
    for i in range(n // 2):
        a, b = word[i], word[n - 1 - i]
        if a[0] != b[0] or len(a[1]) != len(b[1]) or not all(C.is_zero(x - y) for x, y in zip(a[1], b[1])):
            return False, i
    return True, None


def rule_janus_schemes(ctx):
    d = C.db()
    tabs = d['tabs']
    n = 0
    samples = []
    schemes = {k: v for k, v in tabs.items() if isinstance(v, dict) and 'gamma' in v and 'stages' in v}
    anchor(len(schemes) >= 5, 'JANUS scheme tables (struct reb_janus_scheme)')
    for name, sch in sorted(schemes.items()):
        stages = int(sch['stages'])
        gam = sch['gamma']
        need = (stages + 1) // 2
        n += 1
        where = 'src/integrator_janus.c scheme %s (order %s, %d stages)' % (name, sch['order'], stages)
        # gg maps stage -> table index palindromically: extract by running gg itself
        it = x4.Interp(d['funcs'], d['enums'], tabs, set(), {'gg'}, {})
        vals = []
        for s in range(stages):
            v = it.call('gg', [('struct', name, sch), Poly.const(s)])
            vals.append(v)
        for s in range(stages):
            if not C.is_zero(vals[s] - vals[stages - 1 - s]):
                ctx.report('R10.1', 'janus:%s:gg:%d' % (name, s), where, 'gg(stage %d) = %s but gg(stage %d) = %s: the stage coefficients are not a palindrome'
                           % (s, vals[s], stages - 1 - s, vals[stages - 1 - s]))
                break
        tot = Poly()
        for v in vals:
            tot = tot + v
        if not C.is_zero(tot - 1):
            ctx.report('R10.1', 'janus:%s:sum' % name, where, 'stage coefficients sum to %s, not 1' % tot)
        nz = [i for i, g in enumerate(gam) if g != 0]
        if nz and max(nz) >= need:
            ctx.note('R10.1 %s stores %d coefficients; only the first %d are read by gg' % (name, max(nz) + 1, need))
        samples.append('%s: %d stages, sum=%s' % (name, stages, tot))
    ctx.covered('R10.1', 'JANUS scheme tables: gg() is palindromic in the stage index and the coefficients sum to 1', n, floor=5, samples=samples)


def rule_janus_sequence(ctx):
    n = 0
    samples = []
    for order in JANUS_ORDERS:
        it, _ = C.run('janus', {'r.ri_janus.order': order})
        n += 1
        where = 'src/integrator_janus.c part1+part2 (order %d)' % order
        word = C.main_track('janus', it.trace, ('drift', 'kick'))
        ok, i = is_palindrome(word)
        if not ok:
            ctx.report('R10.5', 'janus:%d:palindrome' % order, where, 'the drift/kick sequence of one step is not a palindrome (operators %d and %d from the ends differ): %s'
                       % (i, i, C.word_str(word[i:i + 2])))
        # R10.2 typestate: positions are converted back to doubles after every drift, before any force evaluation
        state = 'clean'
        for nm, args in it.trace:
            if nm == 'drift':
                state = 'grid-ahead'
            elif nm == 'to_double':
                state = 'clean'
            elif nm in ('FORCE', 'CALL:reb_simulation_update_acceleration') and state != 'clean':
                ctx.report('R10.2', 'janus:%d:force-before-to_double' % order, where,
                           'a force evaluation follows a drift without to_double in between: forces are not computed from the grid positions')
                break
        if state != 'clean':
            ctx.report('R10.2', 'janus:%d:end' % order, where, 'the step ends with integer coordinates ahead of the floating point copy')
        # all call sites of one operator pass the same scale arguments (positions with scale_pos, velocities with scale_vel)
        sig = {}
        for nm, raw, line in it.raw:
            if nm in ('drift', 'kick', 'to_double', 'to_int'):
                rest = tuple(str(a) for a in raw if not isinstance(a, Poly) and a != 'r')
                sig.setdefault(nm, {}).setdefault(rest, []).append(line)
        for nm, variants in sig.items():
            if len(variants) > 1:
                maj = max(variants, key=lambda k: len(set(variants[k])))
                for v, lines in variants.items():
                    if v != maj:
                        ctx.report('R10.3', 'janus:%s:args' % nm, 'src/integrator_janus.c:%s' % lines[0],
                                   'this call of %s passes %s while the other call sites pass %s: the same integer map must be applied at every stage'
                                   % (nm, list(v), list(maj)))
        # unit conversions folded into the step-size argument (see compose.run): one factor per operator
        for (sp_, sv_), ratios in getattr(it, 'scale_probe', []):
            for nm, rs in ratios.items():
                vals = sorted({r_ for r_, _ in rs})
                if len(vals) > 1:
                    counts = {v_: sum(1 for r_, _ in rs if r_ == v_) for v_ in vals}
                    maj = max(vals, key=lambda v_: counts[v_])
                    for r_, line in rs:
                        if r_ != maj:
                            ctx.report('R10.3', 'janus:%s:args' % nm, 'src/integrator_janus.c:%s' % line,
                                       'with scale_pos = %d and scale_vel = %d the step-size argument of this call of %s changes by the factor %s while the other call sites change by %s: the conversion to integer units differs between stages (the wrong scale is applied here)'
                                       % (sp_, sv_, nm, r_, maj))
                            break
                    break
        if order == 2:
            samples.append('order 2: %s' % [t[0] for t in it.trace])
    ctx.covered('R10.5j', 'JANUS operator sequence per order: palindrome, to_double before every force evaluation, uniform scale arguments', n, floor=5, samples=samples)


def rule_janus_update_form(ctx):
    """R10.3: in drift and kick every statement is q += (INT)(e); e is a product with dt exactly once and does not read
    q; drift reads only the integer state (p_int); scale arguments appear as the documented ratio."""
    tu = cfront.load_tu('integrator_janus.c')
    n = 0
    samples = []
    for fname, allowed_src, kind in (('drift', ('vx', 'vy', 'vz'), 'p'), ('kick', ('ax', 'ay', 'az'), 'v')):
        fn = tu.func(fname)

        def is_int_state(m_):
            """a member access whose object is a struct reb_particle_int (whatever the array or pointer is called)"""
            return m_.get('kind') == 'MemberExpr' and 'reb_particle_int' in qtype(strip(m_['inner'][0], casts=True))
        dparams = [p_['name'] for p_ in cfront.params(fn) if qtype(p_).replace('const', '').strip() == 'double']
        anchor(dparams, '%s takes the step as a double parameter' % fname)
        dtname = dparams[0]
        stmts = [e for e in walk(cfront.body(fn)) if cfront.is_assign(e) and strip(e['inner'][0]).get('kind') == 'MemberExpr']
        anchor(len(stmts) == 3, '%s has three update statements' % fname)
        for e in stmts:
            n += 1
            where = 'src/integrator_janus.c:%s %s' % (line_of(e), fname)
            lv = render(e['inner'][0])
            key = 'janus:%s:%s' % (fname, lv.split('.')[-1])
            if e['opcode'] != '+=':
                ctx.report('R10.3', key + ':op', where, 'update uses %s, not += : the map is not an additive shear' % e['opcode'])
            if not is_int_state(strip(e['inner'][0])):
                ctx.report('R10.3', key + ':target', where, 'update writes %s, not the integer state' % lv)
            rhs = strip(e['inner'][1])
            if rhs.get('kind') != 'CStyleCastExpr' or 'int' not in qtype(rhs).lower() and 'REB_PARTICLE_INT_TYPE' not in qtype(rhs):
                ctx.report('R10.3', key + ':cast', where, 'increment is not a plain cast to the integer type (truncation is the odd function the scheme relies on)')
            ids = [render(x) for x in walk(rhs) if x.get('kind') in ('MemberExpr',)]
            names = [x['referencedDecl']['name'] for x in walk(rhs) if x.get('kind') == 'DeclRefExpr']
            if names.count(dtname) != 1:
                ctx.report('R10.3', key + ':dt', where, 'increment contains dt %d times, not exactly once (it must be odd in dt)' % names.count('dt'))
            if any(m == lv for m in ids):
                ctx.report('R10.3', key + ':self', where, 'increment reads the coordinate it updates: the map is not a shear')
            if fname == 'drift':
                mnodes = [x for x in walk(rhs) if x.get('kind') == 'MemberExpr']
                bad = [render(x) for x in mnodes if x['name'] in ('vx', 'vy', 'vz') and not is_int_state(x)]
                if bad or not any(is_int_state(x) for x in mnodes):
                    ctx.report('R10.3', key + ':source', where, 'drift reads %s instead of the integer velocities: the map depends on rounded doubles' % (bad or ids))
            comp = lv.split('.')[-1]
            want = {'x': 'vx', 'y': 'vy', 'z': 'vz', 'vx': 'ax', 'vy': 'ay', 'vz': 'az'}[comp]
            if not any(m.endswith('.' + want) for m in ids):
                ctx.report('R10.3', key + ':component', where, '%s is advanced with %s, not with %s' % (comp, [m for m in ids], want))
        samples.append('%s: %d updates q += (INT)(dt*...)' % (fname, len(stmts)))
    # R10.4: to_int only under the recalculation flag
    fn = tu.func('reb_integrator_janus_part1')
    n += 1
    found = False
    for ifs in walk(cfront.body(fn)):
        if ifs.get('kind') == 'IfStmt' and any(x.get('kind') == 'CallExpr' and callee_name(x) == 'to_int' for x in walk(ifs['inner'][1])):
            found = True
            if 'recalculate_integer_coordinates_this_timestep' not in render(ifs['inner'][0]):
                ctx.report('R10.4', 'janus:to_int:guard', 'src/integrator_janus.c:%s reb_integrator_janus_part1' % line_of(ifs),
                           'to_int is guarded by %s, not by the recalculation flag: the run is re-quantised mid-way' % render(ifs['inner'][0]))
    unguarded = [x for x in walk(cfront.body(fn)) if x.get('kind') == 'CallExpr' and callee_name(x) == 'to_int']
    if not found or len(unguarded) != 1:
        ctx.report('R10.4', 'janus:to_int:unguarded', 'src/integrator_janus.c reb_integrator_janus_part1', 'to_int is called outside the recalculation guard')
    ctx.covered('R10.3', 'JANUS drift/kick update statements: additive, integer target, plain cast, odd in dt, no self-reference, integer sources, matching component; to_int guarded',
                n, floor=7, samples=samples)


def rule_symmetric_schemes(ctx):
    """R10.5: one safe-mode step of LEAPFROG, WHFast (default kernel, no correctors), uncorrected SABA types and
    unprocessed EOS splittings is a palindromic operator word."""
    n = 0
    samples = []
    cases = [('leapfrog', 'leapfrog', {}, 'src/integrator_leapfrog.c')]
    kd = dict(C.whfast_kernels())['REB_WHFAST_KERNEL_DEFAULT']
    cases.append(('whfast:default', 'whfast', {'r.ri_whfast.kernel': kd, 'r.ri_whfast.safe_mode': 1, 'r.ri_whfast.is_synchronized': 1}, 'src/integrator_whfast.c'))
    # ... in every coordinate system (the operator sequence may be selected per system)
    coords = sorted((v, k) for k, v in C.db()['enums'].items() if k.startswith('REB_WHFAST_COORDINATES_'))
    anchor(len(coords) >= 4, 'enumerators REB_WHFAST_COORDINATES_*')
    for v, k in coords:
        if v != 0:
            cases.append(('whfast:default:' + k.replace('REB_WHFAST_COORDINATES_', '').lower(), 'whfast',
                          {'r.ri_whfast.kernel': kd, 'r.ri_whfast.safe_mode': 1, 'r.ri_whfast.is_synchronized': 1, 'r.ri_whfast.coordinates': v}, 'src/integrator_whfast.c'))
    for tname, tv in C.saba_types():
        if tv < 0x100:
            cases.append(('saba:' + tname, 'saba', {'r.ri_saba.type': tv, 'r.ri_saba.safe_mode': 1, 'r.ri_saba.is_synchronized': 1}, 'src/integrator_saba.c'))
    processed = set()
    for tname, tv in C.eos_types():
        pre = [t for t in _proc(tv)]
        if pre:
            processed.add(tname)
            continue
        cases.append(('eos:' + tname, 'eos', {'r.ri_eos.phi0': tv, 'r.ri_eos.safe_mode': 1, 'r.ri_eos.is_synchronized': 1}, 'src/integrator_eos.c'))
    for label, scheme, flags, src in cases:
        it, _ = C.run(scheme, flags)
        word = C.reduce_word(C.main_track(scheme, it.trace, ('drift', 'kick', 'jump')))
        n += 1
        ok, i = is_palindrome(word)
        if not ok:
            ctx.report('R10.5', label + ':palindrome', src, 'one step is not a palindromic operator sequence (position %d from the ends: %s vs %s): the scheme is not time-symmetric'
                       % (i, C.word_str([word[i]]), C.word_str([word[len(word) - 1 - i]])))
        if len(samples) < 5:
            samples.append('%s: %s' % (label, C.word_str(word, 7)))
    # inner EOS shell
    for tname, tv in C.eos_types():
        if tname in processed:
            continue
        for nn in (1, 2, 3):
            it = C.eos_shell1(tv, nn)
            word = []
            for nm, args in it.trace:
                if nm == 'reb_integrator_eos_drift_shell1':
                    word.append(('drift', tuple(args)))
                elif nm == 'reb_integrator_eos_interaction_shell1':
                    word.append(('kick', tuple(args)))
            word = C.reduce_word(word)
            n += 1
            ok, i = is_palindrome(word)
            if not ok:
                ctx.report('R10.5', 'eos1:%s:n%d:palindrome' % (tname, nn), 'src/integrator_eos.c reb_integrator_eos_drift_shell0 (phi1=%s, n=%d)' % (tname, nn),
                           'the inner splitting is not a palindromic operator sequence (position %d from the ends: %s vs %s)'
                           % (i, C.word_str([word[i]]), C.word_str([word[len(word) - 1 - i]])))
    ctx.covered('R10.5', 'symmetric schemes (LEAPFROG, WHFast default kernel, uncorrected SABA, unprocessed EOS in both shells): one step is a palindromic operator word',
                n, floor=30, samples=samples)


def _proc(tv):
    from .c01 import _proc_trace
    return _proc_trace('pre', tv, 0)


def rule_components(ctx):
    from . import x1
    stats, nfun = x1.run_files(ctx, 'R10.6', ['integrator_janus.c', 'integrator_leapfrog.c', 'integrator_eos.c', 'integrator_sei.c'])
    ctx.covered('R10.6', 'x/y/z statement triples of the reversible schemes (JANUS integer conversion, drift and kick; leapfrog; EOS shells; SEI kick) are one formula under an axis permutation',
                stats['groups'], floor=40, samples=stats['samples'])


def rule_janus_grid_roundtrip(ctx):
    """R10.8: JANUS stores the state on an integer grid. to_double maps a grid index k to a coordinate, to_int maps it back
    with an implicit (truncating) conversion. On the grid the round trip must be exact: composing the two assignments
    symbolically has to give k itself - any residual offset (a rounding bias such as + 0.5) is truncated differently for
    negative and positive k, so a state that starts on the grid does not come back to its initial bits."""
    import sympy as sp
    from . import symexec
    tu = cfront.load_tu('integrator_janus.c')
    fi, fd = tu.func('to_int'), tu.func('to_double')

    def assigns(fn):
        out = {}
        for e in walk(cfront.body(fn)):
            if is_assign(e) and e['opcode'] == '=' and strip(e['inner'][0]).get('kind') == 'MemberExpr':
                out[strip(e['inner'][0])['name']] = e
        return out
    ai, ad = assigns(fi), assigns(fd)
    anchor(len(ai) >= 6 and set(ai) == set(ad), 'to_int and to_double assign the same six members')
    n = 0
    for m in sorted(ai):
        st = symexec.State()
        # to_double: ps[i].m = g(psi[i].m)
        try:
            g = st.ev(ad[m]['inner'][1])
            src = st.path(strip(ad[m]['inner'][0]))
            st2 = symexec.State()
            st2.syms = st.syms
            st2.vals[src] = g
            f = st2.ev(ai[m]['inner'][1])
        except ValueError as ex:
            raise AnalysisError('R10.8: conversion of member %s cannot be summarised (%s)' % (m, ex))
        k = st.sym(st.path(strip(ai[m]['inner'][0])))
        n += 1
        resid = sp.simplify(f - k)
        if resid != 0:
            ctx.report('R10.8', 'janus:grid:%s' % m, 'src/integrator_janus.c:%s to_int' % line_of(ai[m]),
                       'to_int(to_double(k)) = k + (%s) for member %s before the truncating conversion: grid points do not map to themselves for both signs of k, so a state on the grid is not recovered bit for bit' % (resid, m))
    ctx.covered('R10.8', 'JANUS grid conversions: to_int after to_double is the identity on grid indices (symbolic, per member)', n, floor=6)


def rule_stale_copies(ctx, rule='R10.10'):
    """R10.10: a local that is a by-value copy of a member struct of the simulation (const struct reb_integrator_sei ri_sei
    = r->ri_sei) is a snapshot. If a function that writes that member (its direct assignments, any translation unit) is
    called between the copy and a later use of the local, the use sees the old values: SEI would rotate with the
    sin/tan constants of the previous step size for the first half step after dt changed - or changed sign."""
    from . import c04
    from .. import normal
    tus = cfront.load_tus()
    writes = {}
    defs = {}
    for c, tu in tus.items():
        for fname, f_ in tu.funcs.items():
            b = cfront.body(f_)
            if b is None or fname in defs:
                continue
            defs[fname] = f_
            w = set()
            for e in walk(b):
                if is_assign(e):
                    p_ = c04._access_path(e['inner'][0])
                    if p_:
                        w.add(p_)
            writes[fname] = w
    n = 0
    samples = []
    for c, tu in sorted(tus.items()):
        for fname, fn in sorted(tu.funcs.items()):
            b = cfront.body(fn)
            if b is None or cfront.basename(fn.get('_locfile') or fn.get('_file')) != c:
                continue
            copies = {}
            for d in walk(b):
                if d.get('kind') == 'VarDecl' and 'init' in d and 'struct' in qtype(d) and '*' not in qtype(d):
                    init = [x for x in d.get('inner', []) if x.get('kind') not in ('FullComment',)]
                    if not init:
                        continue
                    src = c04._access_path(init[-1])
                    i0 = strip(init[-1], casts=True)
                    if src is None and i0.get('kind') == 'UnaryOperator' and i0.get('opcode') == '*':
                        # a copy through a pointer to the member struct (ri = &(r->ri_sei); copy = *ri): the paths are
                        # resolved by type, a pointer to struct reb_integrator_sei names r->ri_sei
                        from . import c09
                        bt = qtype(strip(i0['inner'][0], casts=True)).replace('const', '').replace('struct', '').replace('*', '').replace('restrict', '').strip()
                        host = c09._sim_member_of(bt)
                        if host and strip(i0['inner'][0], casts=True).get('kind') == 'DeclRefExpr':
                            copies[d['name']] = ('r.' + host, line_of(d), d.get('id'))
                        continue
                    if src and src.count('.') == 1 and strip(init[-1], casts=True).get('kind') == 'MemberExpr':
                        copies[d['name']] = (src, line_of(d), d.get('id'))
            if not copies:
                continue
            calls = [(line_of(e), callee_name(e)) for e in walk(b) if e.get('kind') == 'CallExpr' and callee_name(e) in writes]
            uses = {}
            for e in walk(b):
                if e.get('kind') == 'DeclRefExpr' and e['referencedDecl']['name'] in copies and e['referencedDecl'].get('id') == copies[e['referencedDecl']['name']][2]:
                    uses.setdefault(e['referencedDecl']['name'], []).append(line_of(e))
            for nm, (src, dl, _) in sorted(copies.items()):
                n += 1
                for cl, cal in calls:
                    if cl <= dl:
                        continue
                    hit = [w for w in writes[cal] if w == src or w.startswith(src + '.')]
                    later = [u for u in uses.get(nm, []) if u > cl]
                    if hit and later:
                        ctx.report(rule, '%s:stale:%s' % (fname, nm), 'src/%s:%s %s' % (c, later[0], fname),
                                   'the local %s is a copy of %s taken at line %s; %s (called at line %s) assigns %s afterwards, and the copy is still used at line %s: it carries the values from before the call' % (nm, src, dl, cal, cl, sorted(hit)[0], later[0]))
                        break
                samples.append('src/%s %s: %s = copy of %s' % (c, fname, nm, src))
    ctx.covered(rule, 'by-value copies of member structs of the simulation are not used after a call that assigns the member', n, floor=3, samples=samples[:6])


def run(ctx):
    from . import protocol
    protocol.rule_leapfrog_live(ctx, 'R10.14')           # LEAPFROG is symmetric
    from . import c09 as _c09
    _c09.rule_keep_unsynchronized(ctx)     # R09.3: a synchronisation that keeps the unsynchronised state leaves the integrator unsynchronised (reversibility through output points)
    from . import edges
    edges.rule_sentinel_before_use(ctx, 'R10.12')    # SEI caches its vertical constants for the frequency in use
    edges.rule_cached_count_identity(ctx, 'R10.13')
    from . import pyrules
    pyrules.rule_internal_flags(ctx, 'R10.11')     # re-selecting the integrator in use does not disturb the exact integer state
    rule_stale_copies(ctx)
    rule_janus_grid_roundtrip(ctx)
    from . import serial
    serial.rule_scratch_reset(ctx, 'R10.9')   # a force evaluation is a function of the positions alone (bit-wise reversibility needs F(x) to be reproducible)
    from . import c03
    c03.rule_bracket_swap(ctx)            # R03.8: a backward Kepler step that falls back to bisection brackets the root (time-reversed runs retrace the forward ones)
    rule_components(ctx)
    from . import sei
    sei.rule_reversible(ctx, 'R10.7')
    rule_janus_schemes(ctx)
    rule_janus_sequence(ctx)
    rule_janus_update_form(ctx)
    rule_symmetric_schemes(ctx)
    ctx.not_decided.append('the bit-wise round trip itself (runtime); platforms whose float->int conversion is not truncation; for SEI only the epicycle operator (R10.7), not the kick/operator sequence beyond R08.1')
