"""Tiny sequential symbolic executor for straight-line code over doubles (E8): statements are executed in order on a
state {access path: sympy expression}; used for algebraic identities of loop-free resolvers and helpers."""
import re

from ..core import AnalysisError
from .. import cfront
from ..cfront import strip, walk, toks, render, is_assign, qtype, callee_name, call_args

FUNCS = None


def _funcs():
    global FUNCS
    if FUNCS is None:
        import sympy as sp
        FUNCS = {'sqrt': sp.sqrt, 'cbrt': sp.cbrt, 'sin': sp.sin, 'cos': sp.cos, 'tan': sp.tan, 'fabs': sp.Abs, 'atan2': sp.atan2,
                 'log': sp.log, 'exp': sp.exp, 'acos': sp.acos, 'asin': sp.asin, 'sinh': sp.sinh, 'cosh': sp.cosh, 'tanh': sp.tanh,
                 'pow': lambda a, b: a ** b}
    return FUNCS


class State:
    def __init__(self, alias=None):
        self.vals = {}
        self.syms = {}
        self.alias = alias or {}      # local pointer name -> access path prefix

    def path(self, n):
        n = strip(n, casts=True)
        k = n.get('kind')
        if k == 'DeclRefExpr':
            nm = n['referencedDecl']['name']
            return self.alias.get(nm, nm)
        if k == 'MemberExpr':
            return self.path(n['inner'][0]) + '.' + n['name']
        if k == 'UnaryOperator' and n['opcode'] in ('*', '&'):
            return self.path(n['inner'][0])
        if k == 'ArraySubscriptExpr':
            return self.path(n['inner'][0]) + '[' + render(n['inner'][1]) + ']'
        raise ValueError('path ' + str(k))

    def sym(self, p):
        import sympy as sp
        if p not in self.syms:
            self.syms[p] = sp.Symbol(p.replace('.', '_').replace('[', '_').replace(']', ''), real=True)
        return self.syms[p]

    def get(self, p):
        if p in self.vals:
            return self.vals[p]
        return self.sym(p)

    def ev(self, n):
        import sympy as sp
        n = strip(n)
        k = n.get('kind')
        if k == 'FloatingLiteral':
            return sp.nsimplify(n['value'], rational=True) if len(n['value']) < 12 else sp.Float(n['value'], 30)
        if k == 'IntegerLiteral':
            return sp.Integer(int(n['value']))
        if k in ('DeclRefExpr', 'MemberExpr', 'ArraySubscriptExpr'):
            return self.get(self.path(n))
        if k == 'UnaryOperator':
            if n['opcode'] == '-':
                return -self.ev(n['inner'][0])
            if n['opcode'] == '+':
                return self.ev(n['inner'][0])
            if n['opcode'] in ('*',):
                return self.get(self.path(n))
            raise ValueError('unop ' + n['opcode'])
        if k == 'BinaryOperator':
            a, b = self.ev(n['inner'][0]), self.ev(n['inner'][1])
            op = n['opcode']
            if op == '+':
                return a + b
            if op == '-':
                return a - b
            if op == '*':
                return a * b
            if op == '/':
                return a / b
            raise ValueError('binop ' + op)
        if k == 'CStyleCastExpr':
            return self.ev(n['inner'][0])
        if k == 'CallExpr':
            nm = callee_name(n)
            f = _funcs().get(nm)
            if f is None:
                raise ValueError('call ' + str(nm))
            return f(*[self.ev(a) for a in call_args(n)])
        if k == 'ConditionalOperator':
            raise ValueError('conditional')
        raise ValueError('expr ' + str(k))

    def assign(self, lv, op, rhs):
        p = self.path(lv)
        v = self.ev(rhs)
        if op == '=':
            self.vals[p] = v
        else:
            cur = self.get(p)
            self.vals[p] = {'+=': cur + v, '-=': cur - v, '*=': cur * v, '/=': cur / v}[op]


def run_block(stmts, st, tracked_prefixes, skip_if=lambda cond: False):
    """Execute statements; IfStmts that write tracked paths stop the analysis unless skip_if(cond) says they are inert."""
    for s in stmts:
        k = s.get('kind')
        if k == 'DeclStmt':
            for d in s.get('inner', []):
                if d.get('kind') != 'VarDecl':
                    continue
                init = [c for c in d.get('inner', []) if c.get('kind') not in ('FullComment',)]
                if not init or 'init' not in d:
                    continue
                i0 = strip(init[-1], casts=True)
                if '*' in qtype(d):
                    # pointer alias: T* p = &(x)
                    try:
                        st.alias[d['name']] = st.path(i0)
                    except ValueError:
                        pass
                    continue
                try:
                    st.vals[d['name']] = st.ev(init[-1])
                except ValueError:
                    st.vals.pop(d['name'], None)
        elif k == 'IfStmt':
            cond = render(s['inner'][0])
            writes = []
            for e in walk(s):
                if is_assign(e):
                    try:
                        writes.append(st.path(e['inner'][0]))
                    except ValueError:
                        pass
            hit = [w for w in writes if any(w.startswith(p) for p in tracked_prefixes)]
            if hit and not skip_if(cond):
                raise AnalysisError('symexec: conditional write to %s under (%s) cannot be summarised' % (hit[0], cond))
            # locals written under the condition become unknown
            for w in writes:
                st.vals.pop(w, None)
        elif k == 'CompoundStmt':
            run_block(s.get('inner', []), st, tracked_prefixes, skip_if)
        elif k == 'ReturnStmt':
            return
        else:
            e = strip(s)
            if is_assign(e):
                try:
                    st.assign(e['inner'][0], e['opcode'], e['inner'][1])
                except ValueError:
                    try:
                        st.vals.pop(st.path(e['inner'][0]), None)
                    except ValueError:
                        pass
    return st
