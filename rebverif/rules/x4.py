"""X4 - composition extractor: sparse conditional constant propagation over the integrator drivers.

For fixed values of the integrator's option members the driver functions (part1, part2, synchronize and the helpers on
a descend list) are walked with integer/enum conditions folded and constant-trip loops unrolled, producing the ordered
sequence of operator applications (callee, coefficient as an exact polynomial in dt). No particle data, no floating
point state and no data-dependent branch is ever evaluated: conditions that do not fold are skipped and listed, and a
skipped block that contains an operator or a time update stops the extraction (ANALYSIS-ERROR)."""
from fractions import Fraction

from ..core import AnalysisError
from .. import cfront
from ..cfront import strip, walk, callee_name, call_args, qtype, render, line_of, toks


class Unknown(Exception):
    pass


class Poly:
    """Polynomial in dt with exact rational coefficients."""
    __slots__ = ('c',)

    def __init__(self, c=None):
        self.c = {k: Fraction(v) for k, v in (c or {}).items() if v != 0}

    @staticmethod
    def const(v):
        return Poly({0: Fraction(v)})

    @staticmethod
    def dt():
        return Poly({1: 1})

    def is_const(self):
        return all(k == 0 for k in self.c)

    def value(self):
        if not self.is_const():
            raise Unknown('symbolic value')
        return self.c.get(0, Fraction(0))

    def __add__(self, o):
        o = _p(o)
        d = dict(self.c)
        for k, v in o.c.items():
            d[k] = d.get(k, 0) + v
        return Poly(d)
    __radd__ = __add__

    def __neg__(self):
        return Poly({k: -v for k, v in self.c.items()})

    def __sub__(self, o):
        return self + (-_p(o))

    def __rsub__(self, o):
        return _p(o) - self

    def __mul__(self, o):
        o = _p(o)
        d = {}
        for k1, v1 in self.c.items():
            for k2, v2 in o.c.items():
                d[k1 + k2] = d.get(k1 + k2, 0) + v1 * v2
        return Poly(d)
    __rmul__ = __mul__

    def __truediv__(self, o):
        o = _p(o)
        if len(o.c) == 1:
            (k, v), = o.c.items()
            return Poly({k1 - k: v1 / v for k1, v1 in self.c.items()})
        if not o.c:
            raise Unknown('division by zero')
        raise Unknown('division by polynomial')

    def __eq__(self, o):
        o = _p(o)
        return self.c == o.c

    def __hash__(self):
        return hash(tuple(sorted(self.c.items())))

    def coef(self, k):
        return self.c.get(k, Fraction(0))

    def __repr__(self):
        if not self.c:
            return '0'
        out = []
        for k in sorted(self.c):
            v = self.c[k]
            s = str(v) if v.denominator < 10**6 else '%.17g' % float(v)
            out.append(s if k == 0 else ('%s*dt' % s if k == 1 else '%s*dt^%d' % (s, k)))
        return ' + '.join(out)


def _p(v):
    if isinstance(v, Poly):
        return v
    if isinstance(v, (int, Fraction)):
        return Poly.const(v)
    if isinstance(v, float):
        return Poly.const(Fraction(v))
    raise Unknown('not a number: %r' % (v,))


class BreakEx(Exception):
    pass


class ContinueEx(Exception):
    pass


class ReturnEx(Exception):
    def __init__(self, v):
        self.v = v


def literal_tables(tu, struct_types=('reb_janus_scheme',)):
    """{name: nested list of Fraction} for file-scope const double/int arrays and scalars with literal initialisers;
    file-scope objects of the listed struct types become dicts by field name."""
    tabs = {}

    def fields_of(sname):
        rec = tu.records.get(sname)
        if rec is None:
            for d in tu.decls:
                if d.get('kind') == 'RecordDecl' and d.get('name') == sname and d.get('completeDefinition'):
                    rec = d
        return [f['name'] for f in rec.get('inner', []) if f.get('kind') == 'FieldDecl'] if rec else None

    def lit(n, ty):
        n = strip(n)
        k = n.get('kind')
        if k == 'InitListExpr':
            vals = [lit(c, ty) for c in n.get('inner', [])]
            # trailing zero-fill of partially initialised arrays
            m = None
            import re
            mm = re.match(r'^.*?\[(\d+)\]', qtype(n).split(' ', 1)[-1]) if '[' in qtype(n) else None
            if mm:
                want = int(mm.group(1))
                while len(vals) < want:
                    vals.append(Fraction(0))
            return vals
        if k == 'FloatingLiteral':
            return Fraction(float(n['value']))
        if k == 'IntegerLiteral':
            return Fraction(int(n['value']))
        if k == 'UnaryOperator' and n.get('opcode') == '-':
            return -lit(n['inner'][0], ty)
        if k == 'UnaryOperator' and n.get('opcode') == '+':
            return lit(n['inner'][0], ty)
        if k == 'ImplicitValueInitExpr':
            return Fraction(0)
        if k == 'UnaryOperator' and n.get('opcode') == '&':
            # a table of pointers to file-scope objects (static const struct T* const all[] = {&a, &b, ...})
            t0 = strip(n['inner'][0], casts=True)
            if t0.get('kind') == 'DeclRefExpr':
                return ('ref', t0['referencedDecl']['name'])
            raise ValueError('address of a non-object')
        if k == 'BinaryOperator' and n.get('opcode') == '/' and all(strip(c, casts=True).get('kind') == 'UnaryExprOrTypeTraitExpr' for c in n['inner']):
            # sizeof(table)/sizeof(table[0]): the number of entries
            def sz_type(u):
                u = strip(u, casts=True)
                if u.get('argType'):
                    return u['argType'].get('qualType', '')
                return qtype(strip(u['inner'][0])) if u.get('inner') else ''
            import re as _re
            tn, td = sz_type(n['inner'][0]).replace(' ', ''), sz_type(n['inner'][1]).replace(' ', '')
            mm = _re.match(r'^(.*)\[(\d+)\]$', tn)
            if mm and mm.group(1) == td:
                return Fraction(int(mm.group(2)))
            raise ValueError('sizeof quotient')
        if k == 'BinaryOperator':
            a, b = lit(n['inner'][0], ty), lit(n['inner'][1], ty)
            op = n['opcode']
            if op == '/':
                # C double division: correctly rounded quotient of the two doubles
                return Fraction(float(a) / float(b)) if ('double' in qtype(n) or 'float' in qtype(n)) else Fraction(int(a) // int(b))
            if op == '*':
                return Fraction(float(a) * float(b)) if 'double' in qtype(n) else a * b
            if op == '+':
                return Fraction(float(a) + float(b)) if 'double' in qtype(n) else a + b
            if op == '-':
                return Fraction(float(a) - float(b)) if 'double' in qtype(n) else a - b
        raise ValueError('not a literal: ' + str(k))

    for name, n in tu.globals.items():
        qt = qtype(n)
        init = [c for c in n.get('inner', []) if c.get('kind') not in ('FullComment',)]
        if not init or 'init' not in n:
            continue
        st = [t for t in struct_types if qt.replace('const ', '').strip() == 'struct ' + t]
        if st:
            names = fields_of(st[0])
            il = strip(init[-1])
            if names and il.get('kind') == 'InitListExpr':
                try:
                    vals = [lit(c, qt) for c in il.get('inner', [])]
                    tabs[name] = dict(zip(names, vals))
                except (ValueError, KeyError, ZeroDivisionError):
                    pass
            continue
        if 'const' not in qt:
            continue
        try:
            tabs[name] = lit(init[-1], qt)
        except (ValueError, KeyError, ZeroDivisionError):
            pass
    return tabs


class Interp:
    def __init__(self, funcs, enums, tables, ops, descend, flags, inline_ops=True, ignore=()):
        self.funcs, self.enums, self.tables = funcs, enums, tables
        self.ops, self.descend = set(ops), set(descend)
        self.flags = dict(flags)
        self.trace = []      # (name, [Poly args]) in execution order; TIME entries for r.t updates
        self.raw = []        # (name, [all args: Poly or access path], line) for operator calls
        self.notes = []      # skipped constructs
        self.inline_ops = inline_ops
        self.ignore = set(ignore)
        self.noarg_ops = {'to_double', 'to_int'}
        self.depth = 0
        # file-local helpers that do not exist in the reference tree (a lookup split off into its own function) are entered
        # like any other code of the function that calls them
        from .. import normal as _normal
        self.new_helpers = set()
        for name_, f_ in funcs.items():
            if f_.get('storageClass') == 'static':
                cf_ = cfront.basename(f_.get('_locfile') or f_.get('_file') or '')
                ref_ = _normal.reference_names(cf_) if cf_ else None
                if ref_ and name_ not in ref_:
                    self.new_helpers.add(name_)

    # ---- access paths
    def path(self, n, env):
        n = strip(n, casts=True)
        k = n.get('kind')
        if k == 'DeclRefExpr':
            nm = n['referencedDecl']['name']
            v = env.get(nm)
            if isinstance(v, str) and v.startswith('@'):
                return v[1:]
            return nm
        if k == 'MemberExpr':
            return self.path(n['inner'][0], env) + '.' + n['name']
        if k == 'UnaryOperator' and n.get('opcode') in ('&', '*'):
            return self.path(n['inner'][0], env)
        if k == 'ArraySubscriptExpr':
            try:
                idx = self.ev(n['inner'][1], env)
                i = str(int(_p(idx).value()))
            except Unknown:
                i = '*'
            return self.path(n['inner'][0], env) + '[' + i + ']'
        raise Unknown('path ' + str(k))

    def load(self, p):
        if p in self.flags:
            v = self.flags[p]
            return v if isinstance(v, Poly) else _p(v)
        if p == 'r.dt':
            return Poly.dt()
        raise Unknown('load ' + p)

    # ---- expressions
    def ev(self, n, env):
        n = strip(n)
        k = n.get('kind')
        if k == 'IntegerLiteral':
            return Poly.const(int(n['value']))
        if k == 'FloatingLiteral':
            return Poly.const(Fraction(float(n['value'])))
        if k == 'DeclRefExpr':
            rd = n['referencedDecl']
            nm = rd['name']
            if rd.get('kind') == 'EnumConstantDecl':
                if nm not in self.enums:
                    raise Unknown('enum ' + nm)
                return Poly.const(self.enums[nm])
            if nm in env:
                v = env[nm]
                if isinstance(v, str) and v.startswith('@'):
                    return self.load(v[1:])
                if v is None:
                    raise Unknown('var ' + nm)
                return v
            if nm in self.tables:
                t = self.tables[nm]
                if isinstance(t, dict):
                    return ('struct', nm, t)
                return ('table', nm, t) if isinstance(t, list) else _p(t)
            if rd.get('kind') == 'FunctionDecl':
                return ('fn', nm)
            raise Unknown('var ' + nm)
        if k == 'MemberExpr':
            b0 = strip(n['inner'][0])
            if b0.get('kind') == 'DeclRefExpr':
                bn = b0['referencedDecl']['name']
                bv = env.get(bn)
                if bv is None and bn in self.tables and isinstance(self.tables[bn], dict):
                    bv = ('struct', bn, self.tables[bn])
                if isinstance(bv, tuple) and bv[0] == 'struct':
                    v = bv[2].get(n['name'])
                    if v is None:
                        raise Unknown('struct member')
                    return ('table', bv[1] + '.' + n['name'], v) if isinstance(v, list) else _p(v)
            elif b0.get('kind') in ('ArraySubscriptExpr', 'UnaryOperator', 'ParenExpr'):
                # member of an entry of a table of (pointers to) constant structs: all[k]->order
                try:
                    bv = self.ev(b0, env)
                except Unknown:
                    bv = None
                if isinstance(bv, tuple) and bv[0] == 'struct':
                    v = bv[2].get(n['name'])
                    if v is None:
                        raise Unknown('struct member')
                    return ('table', bv[1] + '.' + n['name'], v) if isinstance(v, list) else _p(v)
            return self.load(self.path(n, env))
        if k == 'ArraySubscriptExpr':
            b = self.ev(n['inner'][0], env)
            i = self.ev(n['inner'][1], env)
            if isinstance(b, tuple) and b[0] == 'table':
                idx = int(_p(i).value())
                if idx < 0 or idx >= len(b[2]):
                    raise AnalysisError('table %s indexed out of range (%d of %d) at line %s' % (b[1], idx, len(b[2]), line_of(n)))
                v = b[2][idx]
                if isinstance(v, tuple) and v[0] == 'ref':
                    if isinstance(self.tables.get(v[1]), dict):
                        return ('struct', v[1], self.tables[v[1]])
                    raise Unknown('pointer entry ' + v[1])
                return ('table', b[1], v) if isinstance(v, list) else _p(v)
            raise Unknown('subscript')
        if k == 'UnaryOperator':
            op = n['opcode']
            if op == '*':
                v = self.ev(n['inner'][0], env)
                if isinstance(v, tuple) and v[0] == 'struct':
                    return v            # *all[k]: the constant struct the entry points to
                raise Unknown('deref')
            if op == '&':
                raise Unknown('addr')
            v = self.ev(n['inner'][0], env)
            if op == '-':
                return -_p(v)
            if op == '+':
                return _p(v)
            if op == '!':
                return Poly.const(0 if _p(v).value() != 0 else 1)
            raise Unknown('unop ' + op)
        if k == 'BinaryOperator':
            o = n['opcode']
            if o == '&&':
                a = _p(self.ev(n['inner'][0], env)).value()
                if a == 0:
                    return Poly.const(0)
                b = _p(self.ev(n['inner'][1], env)).value()
                return Poly.const(1 if b != 0 else 0)
            if o == '||':
                try:
                    a = _p(self.ev(n['inner'][0], env)).value()
                    if a != 0:
                        return Poly.const(1)
                except Unknown:
                    b = _p(self.ev(n['inner'][1], env)).value()
                    if b != 0:
                        return Poly.const(1)
                    raise
                b = _p(self.ev(n['inner'][1], env)).value()
                return Poly.const(1 if b != 0 else 0)
            a = _p(self.ev(n['inner'][0], env))
            b = _p(self.ev(n['inner'][1], env))
            isint = 'double' not in qtype(n) and 'float' not in qtype(n)
            if o == '+':
                return a + b
            if o == '-':
                return a - b
            if o == '*':
                return a * b
            if o == '/':
                if isint and a.is_const() and b.is_const():
                    x, y = int(a.value()), int(b.value())
                    if y == 0:
                        raise Unknown('div0')
                    q = abs(x) // abs(y)
                    return Poly.const(q if (x >= 0) == (y >= 0) else -q)
                return a / b
            if o == '%':
                x, y = int(a.value()), int(b.value())
                if y == 0:
                    raise Unknown('mod0')
                r = abs(x) % abs(y)
                return Poly.const(r if x >= 0 else -r)
            if o in ('==', '!=', '<', '>', '<=', '>='):
                d = a - b
                if not d.is_const():
                    raise Unknown('symbolic comparison')
                v = d.value()
                return Poly.const(1 if {'==': v == 0, '!=': v != 0, '<': v < 0, '>': v > 0, '<=': v <= 0, '>=': v >= 0}[o] else 0)
            if o in ('&', '|', '<<', '>>', '^'):
                x, y = int(a.value()), int(b.value())
                return Poly.const({'&': x & y, '|': x | y, '<<': x << y, '>>': x >> y, '^': x ^ y}[o])
            raise Unknown('binop ' + o)
        if k == 'ConditionalOperator':
            c = _p(self.ev(n['inner'][0], env)).value()
            return self.ev(n['inner'][1 if c != 0 else 2], env)
        if k == 'CallExpr':
            nm = callee_name(n)
            if nm in self.funcs and (nm in self.descend or nm in getattr(self, 'new_helpers', ())):
                v = self.call(nm, [self.evarg(a, env) for a in call_args(n)])
                if v is None:
                    raise Unknown('call result ' + nm)
                return v
            raise Unknown('call ' + str(nm))
        if k == 'CStyleCastExpr':
            v = self.ev(n['inner'][0], env)
            if isinstance(v, Poly) and v.is_const() and ('int' in qtype(n)) and 'double' not in qtype(n):
                x = v.value()
                return Poly.const(int(x))
            return v
        raise Unknown('expr ' + str(k))

    def evarg(self, a, env):
        try:
            return self.ev(a, env)
        except Unknown:
            try:
                return '@' + self.path(a, env)
            except Unknown:
                return None

    # ---- statements
    def call(self, name, args):
        fn = self.funcs[name]
        env = {}
        for p, a in zip(cfront.params(fn), args):
            if p.get('name'):
                env[p['name']] = a
        self.depth += 1
        if self.depth > 40:
            raise AnalysisError('X4: call depth exceeded in ' + name)
        try:
            self.run(cfront.body(fn), env)
        except ReturnEx as r:
            return r.v
        finally:
            self.depth -= 1
        return None

    def contains_effect(self, node):
        """Does a skipped block contain an operator call or a time update (then skipping it would be a guess)?"""
        for e in walk(node):
            if e.get('kind') == 'CallExpr':
                nm = callee_name(e)
                if nm in self.ops or nm in self.descend:
                    return 'call of ' + nm
            if cfront.is_assign(e):
                try:
                    p = render(e['inner'][0])
                except Exception:
                    p = ''
                if p.replace('->', '.') in ('r.t',):
                    return 'write to r->t'
        return None

    def run(self, st, env):
        k = st.get('kind')
        if k == 'CompoundStmt':
            for c in st.get('inner', []):
                self.run(c, env)
        elif k == 'DeclStmt':
            for d in st.get('inner', []):
                if d.get('kind') != 'VarDecl':
                    continue
                init = [c for c in d.get('inner', []) if c.get('kind') not in ('FullComment',)]
                if init and 'init' in d:
                    try:
                        env[d['name']] = self.ev(init[-1], env)
                    except Unknown:
                        try:
                            env[d['name']] = '@' + self.path(init[-1], env)
                        except Unknown:
                            env[d['name']] = None
                else:
                    env[d['name']] = None
        elif k == 'IfStmt':
            ch = st['inner']
            try:
                c = _p(self.ev(ch[0], env)).value()
            except Unknown as e:
                eff = self.contains_effect(ch[1]) or (self.contains_effect(ch[2]) if len(ch) > 2 else None)
                if eff:
                    raise AnalysisError('X4: condition at line %s (%s) does not fold (%s) but guards %s'
                                        % (line_of(st), render(ch[0])[:80], e, eff))
                self.notes.append(('undecided-if', line_of(st), render(ch[0])[:80]))
                return
            if c != 0:
                self.run(ch[1], env)
            elif len(ch) > 2:
                self.run(ch[2], env)
        elif k == 'SwitchStmt':
            v = _p(self.ev(st['inner'][0], env)).value()
            bodyst = st['inner'][-1]
            items = bodyst.get('inner', []) if bodyst.get('kind') == 'CompoundStmt' else [bodyst]
            # find the matching case (or default), then execute with fall-through until break
            def labels(c):
                labs = []
                cur = c
                while cur.get('kind') in ('CaseStmt', 'DefaultStmt'):
                    if cur['kind'] == 'CaseStmt':
                        labs.append(_p(self.ev(cur['inner'][0], env)).value())
                        cur = cur['inner'][-1]
                    else:
                        labs.append('default')
                        cur = cur['inner'][-1]
                return labs, cur
            start = None
            default_at = None
            parsed = []
            for idx, c in enumerate(items):
                labs, inner = labels(c) if c.get('kind') in ('CaseStmt', 'DefaultStmt') else ([], c)
                parsed.append((labs, inner))
                if v in labs and start is None:
                    start = idx
                if 'default' in labs:
                    default_at = idx
            if start is None:
                start = default_at
            if start is None:
                self.notes.append(('switch-no-case', line_of(st), str(v)))
                return
            try:
                for labs, inner in parsed[start:]:
                    self.run(inner, env)
            except BreakEx:
                pass
        elif k == 'ForStmt':
            init, _, cond, inc, bd = st['inner']
            if init and init.get('kind'):
                if init.get('kind') == 'DeclStmt':
                    self.run(init, env)
                else:
                    self.exec_expr(init, env)
            guard = 0
            while True:
                try:
                    c = _p(self.ev(cond, env)).value() if cond and cond.get('kind') else 1
                except Unknown as e:
                    self.generic_loop(st, bd, env, str(e))
                    return
                if c == 0:
                    break
                try:
                    self.run(bd, env)
                except BreakEx:
                    break
                except ContinueEx:
                    pass
                if inc and inc.get('kind'):
                    self.exec_expr(inc, env)
                guard += 1
                if guard > 500:
                    raise AnalysisError('X4: loop at line %s does not terminate under constant propagation' % line_of(st))
        elif k in ('WhileStmt', 'DoStmt'):
            eff = self.contains_effect(st)
            if eff:
                raise AnalysisError('X4: while loop at line %s contains %s' % (line_of(st), eff))
            self.notes.append(('while-skipped', line_of(st)))
        elif k == 'BreakStmt':
            raise BreakEx()
        elif k == 'ContinueStmt':
            raise ContinueEx()
        elif k == 'ReturnStmt':
            v = None
            if st.get('inner'):
                try:
                    v = self.ev(st['inner'][0], env)
                except Unknown:
                    v = None
            raise ReturnEx(v)
        elif k in ('NullStmt', None):
            pass
        elif k in ('CaseStmt', 'DefaultStmt'):
            self.run(st['inner'][-1], env)
        else:
            self.exec_expr(st, env)

    def generic_loop(self, st, bd, env, why):
        """A loop over particles (bound not a compile-time constant): recognise inline drift/kick updates."""
        found = []
        if self.inline_ops:
            found = self.inline_updates(bd, env)
        eff = self.contains_effect(bd)
        if eff and not found:
            raise AnalysisError('X4: loop at line %s has a bound that does not fold (%s) but contains %s' % (line_of(st), why, eff))
        for op, coef in found:
            self.trace.append((op, [coef]))
        if not found:
            self.notes.append(('loop-skipped', line_of(st), why))

    def inline_updates(self, bd, env):
        """particles[i].x += c*particles[i].vx (x3) -> ('DRIFT', c); .vx += c*.ax -> ('KICK', c). Statement order kept."""
        out = []
        comps = {}
        order = []
        for e in walk(bd):
            if not cfront.is_assign(e) or e.get('opcode') not in ('+=', '-='):
                continue
            l = strip(e['inner'][0])
            if l.get('kind') != 'MemberExpr' or l['name'] not in ('x', 'y', 'z', 'vx', 'vy', 'vz'):
                continue
            kind = 'DRIFT' if l['name'] in ('x', 'y', 'z') else 'KICK'
            src = {'x': 'vx', 'y': 'vy', 'z': 'vz', 'vx': 'ax', 'vy': 'ay', 'vz': 'az'}[l['name']]
            coef = self.linear_coef(e['inner'][1], src, env)
            if coef is None:
                continue
            if e['opcode'] == '-=':
                coef = -coef
            key = (kind, render(l['inner'][0]))
            if key not in comps:
                comps[key] = {}
                order.append(key)
            comps[key][l['name']] = coef
        for key in order:
            cs = comps[key]
            vals = list(cs.values())
            if len(cs) == 3 and all(v == vals[0] for v in vals):
                out.append((key[0], vals[0]))
            else:
                raise AnalysisError('X4: inline %s update of %s is not the same coefficient on all three components: %s' % (key[0], key[1], cs))
        return out

    def linear_coef(self, rhs, srcname, env):
        """Coefficient c if rhs == c * <something>.srcname (c foldable), else None."""
        t = strip(rhs, casts=True)
        factors = []

        def flat(n):
            n = strip(n, casts=True)
            if n.get('kind') == 'BinaryOperator' and n['opcode'] == '*':
                flat(n['inner'][0])
                flat(n['inner'][1])
            else:
                factors.append(n)
        flat(t)
        src = [f for f in factors if f.get('kind') == 'MemberExpr' and f['name'] == srcname]
        if len(src) != 1:
            return None
        c = Poly.const(1)
        for f in factors:
            if f is src[0]:
                continue
            try:
                c = c * _p(self.ev(f, env))
            except Unknown:
                return None
        return c

    def exec_expr(self, e, env):
        e = strip(e)
        k = e.get('kind')
        if k == 'CallExpr':
            nm = callee_name(e)
            if nm in env and isinstance(env[nm], tuple) and env[nm][0] == 'fn':
                nm = env[nm][1]     # call through a function-pointer parameter bound to a known function
            if nm in self.ops:
                args = []
                raw = []
                for a in call_args(e):
                    try:
                        v = self.ev(a, env)
                        if isinstance(v, Poly):
                            args.append(v)
                            raw.append(v)
                            continue
                    except Unknown:
                        pass
                    try:
                        raw.append(self.path(a, env))
                    except Unknown:
                        raw.append(render(a))
                if not args and nm not in self.noarg_ops:
                    raise AnalysisError('X4: coefficient of operator %s at line %s does not fold: %s' % (nm, line_of(e), raw))
                self.trace.append((nm, args))
                self.raw.append((nm, raw, line_of(e)))
            elif nm in self.descend and nm in self.funcs:
                self.call(nm, [self.evarg(a, env) for a in call_args(e)])
            elif nm and nm not in self.ignore:
                self.trace.append(('CALL:' + nm, []))
            return
        if k in ('BinaryOperator', 'CompoundAssignOperator') and e.get('opcode') in ('=', '+=', '-=', '*=', '/='):
            l = strip(e['inner'][0])
            try:
                p = self.path(l, env)
            except Unknown:
                return
            islocal = l.get('kind') == 'DeclRefExpr' and not (isinstance(env.get(l['referencedDecl']['name']), str))
            try:
                v = self.ev(e['inner'][1], env)
                if isinstance(v, tuple) and v[0] in ('struct', 'fn', 'table') and islocal:
                    env[l['referencedDecl']['name']] = v
                    return
            except Unknown:
                if islocal:
                    env[l['referencedDecl']['name']] = None
                elif p in self.flags:
                    raise AnalysisError('X4: option member %s is assigned a value that does not fold (line %s)' % (p, line_of(e)))
                return
            if e['opcode'] != '=':
                try:
                    cur = self.ev(l, env)
                except Unknown:
                    if p == 'r.t':
                        cur = None
                    else:
                        if islocal:
                            env[l['referencedDecl']['name']] = None
                        return
                if p == 'r.t' and e['opcode'] in ('+=', '-='):
                    self.trace.append(('TIME', [_p(v) if e['opcode'] == '+=' else -_p(v)]))
                    return
                v = {'+=': lambda: _p(cur) + _p(v), '-=': lambda: _p(cur) - _p(v), '*=': lambda: _p(cur) * _p(v), '/=': lambda: _p(cur) / _p(v)}[e['opcode']]()
            elif p == 'r.t':
                self.trace.append(('TIME=', [_p(v)] if isinstance(v, Poly) else []))
                return
            if islocal:
                env[l['referencedDecl']['name']] = v
            else:
                self.flags[p] = v
            return
        if k == 'UnaryOperator' and e.get('opcode') in ('++', '--'):
            l = strip(e['inner'][0])
            if l.get('kind') == 'DeclRefExpr':
                nm = l['referencedDecl']['name']
                if isinstance(env.get(nm), Poly):
                    env[nm] = env[nm] + (1 if e['opcode'] == '++' else -1)
                    return
            try:
                p = self.path(l, env)
                if p in self.flags:
                    self.flags[p] = _p(self.flags[p]) + (1 if e['opcode'] == '++' else -1)
            except Unknown:
                pass
            return


def sums(trace, groups):
    """Sum the first Poly argument (the step coefficient) of trace entries per group name -> Poly."""
    out = {g: Poly() for g in groups}
    for nm, args in trace:
        for g, names in groups.items():
            if nm in names and args:
                out[g] = out[g] + args[0]
    return out


def all_funcs(tus):
    """functions as the interpreter walks them: new file-local helpers inlined (TU.func) and control flow in normal form
    (`init; while (c) {..; step}` is the for loop it spells)"""
    from .. import normal
    f = {}
    for tu in tus.values():
        for name, fn in tu.funcs.items():
            if name in f:
                continue
            if cfront.basename(fn.get('_locfile') or fn.get('_file')) == tu.cfile:
                try:
                    fn = normal.normalised_function(tu.func(name), guards=False)
                except Exception:
                    fn = tu.funcs[name]
            f[name] = fn
    return f
