"""Pair loops of the force routines: extraction and the rules over them (R02.3, R02.5, R02.5b, R02.7)."""
import re

from ..core import AnalysisError, anchor
from .. import cfront
from ..cfront import strip, walk, toks, render, qtype, is_assign, line_of, callee_name
from . import x1


class PairLoop:
    def __init__(self):
        self.fn = None
        self.cases = ()        # enclosing case enumerators / literals, outermost first
        self.line = None
        self.outer = None      # (var, init, cond, step) rendered
        self.inner = None
        self.A = self.B = None  # rendered subscripts of the two particles of the pair
        self.Abase = self.Bbase = None
        self.guards = []       # rendered conditions of `if (c) continue;` in the inner body (and outer body)
        self.lets = {}         # local name -> toks of its initialiser (inner and outer body)
        self.updates = []      # (lvalue toks, op, rhs toks, line, under_condition or None)
        self.body = None


def _for_header(n):
    ch = n['inner']
    init, cond, inc = ch[0], ch[2], ch[3]
    var = None
    ini = None
    if init and init.get('kind') == 'DeclStmt':
        d = [x for x in init['inner'] if x.get('kind') == 'VarDecl'][0]
        var = d['name']
        i0 = [c for c in d.get('inner', []) if c.get('kind') not in ('FullComment',)]
        ini = render(i0[-1]) if i0 else None
    elif init and is_assign(strip(init)):
        var = render(strip(init)['inner'][0])
        ini = render(strip(init)['inner'][1])
    return (var, ini, render(cond) if cond and cond.get('kind') else None, render(inc) if inc and inc.get('kind') else None)


def _case_label(c):
    lab = None
    for x in walk(c['inner'][0]):
        if x.get('kind') == 'DeclRefExpr' and x['referencedDecl'].get('kind') == 'EnumConstantDecl':
            lab = x['referencedDecl']['name']
        elif x.get('kind') == 'IntegerLiteral' and lab is None:
            lab = 'case ' + x['value']
    return lab


def find_pair_loops(tu, fn):
    out = []

    def scan_body(node, pl, cond=None):
        """collect lets, guards and updates of a loop body (not descending into nested for loops)."""
        for st in node.get('inner', []) or []:
            k = st.get('kind')
            if k == 'DeclStmt':
                for d in st.get('inner', []):
                    if d.get('kind') == 'VarDecl' and 'init' in d:
                        init = [c for c in d.get('inner', []) if c.get('kind') not in ('FullComment',)]
                        if init:
                            pl.lets[d['name']] = toks(init[-1])
            elif k == 'IfStmt':
                ch = st['inner']
                thenb = ch[1]
                body_kinds = [x.get('kind') for x in (thenb.get('inner', []) if thenb.get('kind') == 'CompoundStmt' else [thenb])]
                if body_kinds == ['ContinueStmt'] or thenb.get('kind') == 'ContinueStmt':
                    pl.guards.append(render(ch[0]))
                elif thenb.get('kind') == 'ReturnStmt' or body_kinds == ['ReturnStmt']:
                    pass
                else:
                    c = render(ch[0])
                    scan_body(thenb if thenb.get('kind') == 'CompoundStmt' else {'inner': [thenb]}, pl, c)
                    if len(ch) > 2:
                        scan_body(ch[2] if ch[2].get('kind') == 'CompoundStmt' else {'inner': [ch[2]]}, pl, '!(' + c + ')')
            elif k == 'CompoundStmt':
                scan_body(st, pl, cond)
            elif k in ('ForStmt', 'WhileStmt', 'DoStmt'):
                continue
            else:
                s = strip(st)
                if is_assign(s):
                    pl.updates.append((toks(s['inner'][0]), s['opcode'], toks(s['inner'][1]), line_of(s), cond))

    def rec(node, cases, outer_for):
        k = node.get('kind')
        if k == 'CaseStmt':
            lab = _case_label(node)
            cases = cases + ((lab,) if lab else ())
            for c in node['inner'][1:]:
                rec(c, cases, outer_for)
            return
        if k == 'CompoundStmt':
            cur = cases
            for c in node.get('inner', []):
                if c.get('kind') == 'CaseStmt':
                    lab = _case_label(c)
                    # a new case label at this level replaces the previous label of the same level
                    cur = cases + ((lab,) if lab else ())
                    for cc in c['inner'][1:]:
                        rec(cc, cur, outer_for)
                elif c.get('kind') == 'DefaultStmt':
                    cur = cases + ('default',)
                    for cc in c.get('inner', []):
                        rec(cc, cur, outer_for)
                else:
                    rec(c, cur, outer_for)
            return
        if k == 'IfStmt':
            # an if / else-if chain over `<mode> == K` is the switch it replaces: the then-branch is `case K`
            c = strip(node['inner'][0])
            lab = None
            if c.get('kind') == 'BinaryOperator' and c.get('opcode') == '==':
                a_, b_ = strip(c['inner'][0], casts=True), strip(c['inner'][1], casts=True)
                for u, v in ((a_, b_), (b_, a_)):
                    if u.get('kind') in ('MemberExpr', 'DeclRefExpr') and ('mode' in render(u) or 'gravity' in render(u)):
                        if v.get('kind') == 'IntegerLiteral':
                            lab = 'case ' + v['value']
                        elif v.get('kind') == 'DeclRefExpr' and v['referencedDecl'].get('kind') == 'EnumConstantDecl':
                            lab = v['referencedDecl']['name']
            rec(node['inner'][1], cases + ((lab,) if lab else ()), outer_for)
            if len(node['inner']) > 2 and node['inner'][2].get('kind'):
                rec(node['inner'][2], cases, outer_for)
            return
        if k == 'ForStmt':
            body = node['inner'][-1]
            # is this an inner pair loop? its own body (not nested loops) defines dx from two particle positions
            pl = PairLoop()
            pl.fn = fn['name']
            pl.cases = cases
            pl.line = line_of(node)
            pl.body = body
            if body and body.get('kind') == 'CompoundStmt':
                if outer_for is not None:
                    scan_body(outer_for['inner'][-1], pl)   # lets of the outer body (mi = map[i], x = particles[mi].x ...)
                    pl.guards = []
                    pl.updates = []
                scan_body(body, pl)
                pair = None
                for name, t in pl.lets.items():
                    if re.match(r'^d?x$|^dx$', name) and t[0] == 'bin' and t[1] == '-':
                        pair = (t[2], t[3])
                        break
                if pair and outer_for is not None:
                    def idx_of(t):
                        # particles[A].x  or a local that was itself defined as particles[A].x
                        if t[0] == 'id' and t[1] in pl.lets:
                            t = pl.lets[t[1]]
                        # ghost-box image: (gb.x + particles[A].x)
                        if t[0] == 'bin' and t[1] == '+':
                            for side, other in ((t[2], t[3]), (t[3], t[2])):
                                if side[0] == 'mem' and side[1][0] == 'id' and side[1][1] in ('gb', 'gbunmod'):
                                    t = other
                                    break
                        if t[0] == 'mem' and t[1][0] == 'idx':
                            return render(t[1][1]), render(t[1][2])
                        return None
                    a, b = idx_of(pair[0]), idx_of(pair[1])
                    if a and b:
                        pl.Abase, pl.A = a
                        pl.Bbase, pl.B = b
                        pl.outer = _for_header(outer_for)
                        pl.inner = _for_header(node)
                        pl.outer_node, pl.inner_node = outer_for, node
                        # the pair indices must come from the two loop variables (directly or through an index map)
                        def from_var(idx, var):
                            if idx == var:
                                return True
                            t_ = pl.lets.get(idx)
                            return bool(t_) and t_[0] == 'idx' and render(t_[2]) == var
                        vo, vi = pl.outer[0], pl.inner[0]
                        if (from_var(pl.A, vo) and from_var(pl.B, vi)) or (from_var(pl.A, vi) and from_var(pl.B, vo)):
                            out.append(pl)
            rec(body, cases, node)
            return
        for c in node.get('inner', []) or []:
            if isinstance(c, dict):
                rec(c, cases, outer_for)

    rec(cfront.body(fn), (), None)
    return out


def resolve(t, lets, depth=0):
    """Substitute local definitions into an expression tree (let-inlining)."""
    if depth > 12:
        return t
    if t[0] == 'id' and t[1] in lets:
        return resolve(lets[t[1]], lets, depth + 1)
    return tuple(resolve(c, lets, depth) if isinstance(c, tuple) else c for c in t)


def to_expr(t, lets, syms):
    return x1.to_sympy(resolve(t, lets), syms)


# ---------------------------------------------------------------- rules
PER_PARTICLE_ARRAYS = ('particles', 'dcrit', 'p_j', 'p_jh', 'cs', 'particles_var1', 'particles_var2', 'particles_var')


def rule_pair_index(ctx, rule, loops, cfile):
    """R02.7: inside a pair loop every subscript of a per-particle array is one of the two pair indices."""
    n = 0
    samples = []
    for pl in loops:
        ok_idx = {pl.A, pl.B}
        # aliases: int mi = map[i]
        seen = set()
        for e in walk(pl.body):
            if e.get('kind') != 'ArraySubscriptExpr':
                continue
            base = render(e['inner'][0])
            idx = render(e['inner'][1])
            bname = base.split('.')[-1]
            if bname not in PER_PARTICLE_ARRAYS:
                continue
            if (base, idx) in seen:
                continue
            seen.add((base, idx))
            n += 1
            if idx in ok_idx:
                continue
            ctx.report(rule, '%s:%s:%s[%s]' % (pl.fn, '/'.join(str(c) for c in pl.cases), bname, idx),
                       'src/%s:%s %s' % (cfile, line_of(e), pl.fn),
                       'pair loop over (%s,%s) subscripts %s with %s: a third index inside a pair interaction reads the wrong particle'
                       % (pl.A, pl.B, base, idx))
        if len(samples) < 5:
            samples.append('src/%s:%s %s %s pair (%s,%s)' % (cfile, pl.line, pl.fn, '/'.join(str(c) for c in pl.cases), pl.A, pl.B))
    return n, samples


def acc_updates(pl):
    """{particle index: {component: (op, rhs toks, cond)}} for acceleration (or velocity) updates in the loop."""
    out = {}
    for lv, op, rhs, line, cond in pl.updates:
        if lv[0] == 'mem' and lv[2][1] in ('ax', 'ay', 'az', 'vx', 'vy', 'vz') and lv[1][0] == 'idx':
            idx = render(lv[1][2])
            out.setdefault(idx, {})[lv[2][1]] = (op, rhs, cond, line)
    return out


def rule_antisymmetry(ctx, rule, loops, cfile):
    """R02.3: where a pair loop updates both bodies, m_A * (update of A) + m_B * (update of B) = 0 (Newton's third law),
    with the update of B the only one that may sit under the test-particle-type condition."""
    import sympy as sp
    n = 0
    samples = []
    for pl in loops:
        ups = acc_updates(pl)
        if pl.A not in ups or pl.B not in ups:
            continue
        for comp in ('ax', 'vx'):
            if comp not in ups[pl.A] or comp not in ups[pl.B]:
                continue
            opA, rA, cA, lineA = ups[pl.A][comp]
            opB, rB, cB, lineB = ups[pl.B][comp]
            syms = {}
            try:
                eA = to_expr(rA, pl.lets, syms) * (1 if opA == '+=' else -1)
                eB = to_expr(rB, pl.lets, syms) * (1 if opB == '+=' else -1)
            except ValueError:
                continue
            mA = syms.get('%s[%s].m' % (pl.Abase, pl.A))
            mB = syms.get('%s[%s].m' % (pl.Bbase, pl.B))
            if mA is None or mB is None:
                continue
            n += 1
            res = sp.simplify(mA * eA + mB * eB)
            where = 'src/%s:%s %s' % (cfile, lineA, pl.fn)
            key = '%s:%s:%s' % (pl.fn, '/'.join(str(c) for c in pl.cases), pl.line_key() if hasattr(pl, 'line_key') else '%s,%s@%s' % (pl.A, pl.B, pl.inner[2]))
            if res != 0:
                ctx.report(rule, key, where, 'the updates of the two bodies of pair (%s,%s) are not equal and opposite when weighted with their masses: m_A*dA + m_B*dB = %s != 0'
                           % (pl.A, pl.B, str(res)[:160]))
            elif len(samples) < 4:
                samples.append('%s pair (%s,%s): m_A*dA + m_B*dB = 0' % (where, pl.A, pl.B))
    return n, samples


def prefactor_in_L(pl, syms):
    """sympy expression of the coefficient multiplying dx in the update of particle A, with lets inlined."""
    ups = acc_updates(pl)
    if pl.A not in ups or 'ax' not in ups[pl.A]:
        return None
    op, rhs, cond, line = ups[pl.A]['ax']
    try:
        lets = {k: v for k, v in pl.lets.items() if k != 'L' and k not in (pl.A, pl.B)}   # keep L and the pair indices symbolic
        e = to_expr(rhs, lets, syms)
    except ValueError:
        return None
    return e * (1 if op == '+=' else -1)
