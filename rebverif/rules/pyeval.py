"""Finite-domain evaluation of a small straight-line/branching Python function body (no loops are unrolled, calls are
recorded, not followed): used where a Python front-end routine only routes a handful of option values into C switches.
Every environment of the given finite domains is pushed through the statements; unknown tests fork."""
import ast
import itertools


class Unknown:
    def __repr__(self):
        return '?'


UNK = Unknown()


class Ref:
    """an object known only by the access path it was obtained from: getattr(sim, 'ri_whfast') is Ref('sim.ri_whfast')"""
    def __init__(self, path):
        self.path = path

    def __repr__(self):
        return '&' + self.path

    def __eq__(self, o):
        return isinstance(o, Ref) and o.path == self.path

    def __hash__(self):
        return hash(self.path)


def _key(e, p):
    """environment key of a Name/Attribute, looking through names bound to a Ref"""
    if isinstance(e, ast.Attribute):
        base = _key(e.value, p) if isinstance(e.value, (ast.Name, ast.Attribute)) else ast.unparse(e.value)
        return base + '.' + e.attr
    if isinstance(e, ast.Name):
        v = p.env.get(e.id)
        return v.path if isinstance(v, Ref) else e.id
    return ast.unparse(e)


class Path:
    def __init__(self, env):
        self.env = dict(env)        # unparse(target) -> value
        self.events = []            # (lineno, 'call', text, {kw: value}, snapshot of env)
        self.done = None            # 'return' / 'raise'
        self.forks = []             # (lineno, test text) of tests that could not be decided: both branches were followed


def _ev(e, p):
    if isinstance(e, ast.Constant):
        return e.value
    if isinstance(e, ast.Name):
        return p.env.get(e.id, UNK)
    if isinstance(e, ast.Attribute):
        return p.env.get(_key(e, p), UNK)
    if isinstance(e, ast.Dict) and all(isinstance(k, ast.Constant) for k in e.keys):
        vs = {}
        for k, v in zip(e.keys, e.values):
            x = _ev(v, p)
            if x is UNK and isinstance(v, ast.Attribute):
                x = Ref(_key(v, p))          # an object reached through an attribute path: known by its path only
            if x is UNK and isinstance(v, ast.Name):
                x = 'class:' + v.id          # a class or function named in a table: known by its name only
            if x is UNK and isinstance(v, ast.Tuple):
                xs = []
                for e_ in v.elts:
                    y = _ev(e_, p)
                    if y is UNK and isinstance(e_, ast.Name):
                        y = 'class:' + e_.id
                    if y is UNK:
                        y = '?'
                    xs.append(y)
                x = tuple(xs)
            vs[k.value] = x
        return UNK if any(v is UNK for v in vs.values()) else vs
    if isinstance(e, ast.Call) and isinstance(e.func, ast.Attribute) and e.func.attr == 'get' and len(e.args) in (1, 2) and not e.keywords:
        d_ = _ev(e.func.value, p)
        k_ = _ev(e.args[0], p)
        if isinstance(d_, dict) and k_ is not UNK:
            try:
                return d_.get(k_, _ev(e.args[1], p) if len(e.args) == 2 else None)
            except TypeError:
                return UNK
        return UNK
    if isinstance(e, ast.Subscript):
        b, i = _ev(e.value, p), _ev(e.slice, p)
        if isinstance(b, (dict, tuple)) and i is not UNK:
            try:
                return b[i]
            except (KeyError, IndexError, TypeError):
                return UNK
        return UNK
    if isinstance(e, ast.Call) and isinstance(e.func, ast.Name) and e.func.id == 'isinstance' and len(e.args) == 2:
        v = _ev(e.args[0], p)
        tn = ast.unparse(e.args[1])
        if v is not UNK and not isinstance(v, Ref):
            if tn in ('int', 'int_types'):
                return isinstance(v, int) and not isinstance(v, bool)
            if tn in ('float',):
                return isinstance(v, float)
            if tn in ('str', 'basestring', 'string_types'):
                return isinstance(v, str)
        return UNK
    if isinstance(e, ast.Call) and isinstance(e.func, ast.Attribute) and e.func.attr in ('lower', 'upper', 'strip') and not e.args:
        v = _ev(e.func.value, p)
        return getattr(v, e.func.attr)() if isinstance(v, str) else UNK
    if isinstance(e, ast.Call) and isinstance(e.func, ast.Name) and e.func.id in ('list', 'tuple', 'set') and len(e.args) == 1:
        v = _ev(e.args[0], p)
        return tuple(v) if isinstance(v, (dict, tuple)) else UNK
    if isinstance(e, ast.Call) and isinstance(e.func, ast.Attribute) and e.func.attr == 'keys' and not e.args:
        v = _ev(e.func.value, p)
        return tuple(v) if isinstance(v, dict) else UNK
    if isinstance(e, ast.Call) and isinstance(e.func, ast.Name) and e.func.id == 'getattr' and len(e.args) == 2:
        nm = _ev(e.args[1], p)
        if isinstance(nm, str) and isinstance(e.args[0], (ast.Name, ast.Attribute)):
            path = _key(e.args[0], p) + '.' + nm
            v = p.env.get(path, UNK)
            return v if v is not UNK else Ref(path)
        return UNK
    if isinstance(e, (ast.List, ast.Tuple, ast.Set)):
        vs = [_ev(x, p) for x in e.elts]
        return UNK if any(v is UNK for v in vs) else tuple(vs)
    if isinstance(e, ast.UnaryOp) and isinstance(e.op, ast.Not):
        v = _ev(e.operand, p)
        return UNK if v is UNK else (not v)
    if isinstance(e, ast.BoolOp):
        vs = [_ev(x, p) for x in e.values]
        if isinstance(e.op, ast.And):
            if any(v is not UNK and not v for v in vs):
                return False
            return UNK if any(v is UNK for v in vs) else True
        if any(v is not UNK and v for v in vs):
            return True
        return UNK if any(v is UNK for v in vs) else False
    if isinstance(e, ast.Compare) and len(e.ops) > 1:
        # a < b < c  ==  a < b and b < c
        parts = []
        left = e.left
        for op, right in zip(e.ops, e.comparators):
            parts.append(_ev(ast.Compare(left=left, ops=[op], comparators=[right]), p))
            left = right
        if any(v is not UNK and not v for v in parts):
            return False
        return UNK if any(v is UNK for v in parts) else True
    if isinstance(e, ast.Compare) and len(e.ops) == 1:
        a, b = _ev(e.left, p), _ev(e.comparators[0], p)
        if a is UNK or b is UNK:
            return UNK
        op = e.ops[0]
        try:
            if isinstance(op, ast.LtE):
                return a <= b
            if isinstance(op, ast.GtE):
                return a >= b
            if isinstance(op, ast.Eq):
                return a == b
            if isinstance(op, ast.NotEq):
                return a != b
            if isinstance(op, ast.In):
                return a in b
            if isinstance(op, ast.NotIn):
                return a not in b
            if isinstance(op, ast.Is):
                return a is b
            if isinstance(op, ast.IsNot):
                return a is not b
            if isinstance(op, ast.Lt):
                return a < b
            if isinstance(op, ast.Gt):
                return a > b
        except TypeError:
            return UNK
        return UNK
    if isinstance(e, ast.BinOp) and isinstance(e.op, (ast.Add, ast.Sub, ast.Mult)):
        a, b = _ev(e.left, p), _ev(e.right, p)
        if a is UNK or b is UNK or not all(isinstance(x, (int, float)) and not isinstance(x, bool) for x in (a, b)):
            return UNK
        return a + b if isinstance(e.op, ast.Add) else (a - b if isinstance(e.op, ast.Sub) else a * b)
    if isinstance(e, ast.UnaryOp) and isinstance(e.op, ast.USub):
        v = _ev(e.operand, p)
        return UNK if v is UNK or not isinstance(v, (int, float)) else -v
    if isinstance(e, ast.IfExp):
        t = _ev(e.test, p)
        if t is UNK:
            a, b = _ev(e.body, p), _ev(e.orelse, p)
            return a if (a is not UNK and a == b) else UNK
        return _ev(e.body if t else e.orelse, p)
    return UNK


def _calls(node):
    return [c for c in ast.walk(node) if isinstance(c, ast.Call)]


def _exec(stmts, p):
    """yields finished or fallen-through paths"""
    if not stmts:
        yield p
        return
    st, rest = stmts[0], stmts[1:]
    if isinstance(st, ast.If):
        t = _ev(st.test, p)
        branches = []
        if t is UNK or t:
            branches.append(st.body)
        if t is UNK or not t:
            branches.append(st.orelse)
        for b in branches:
            q = Path(p.env)
            q.events = list(p.events)
            q.forks = list(p.forks) + ([(st.lineno, ast.unparse(st.test))] if t is UNK else [])
            for r in _exec(list(b), q):
                if r.done:
                    yield r
                else:
                    yield from _exec(rest, r)
        return
    for c in _calls(st):
        p.events.append((st.lineno, ast.unparse(c.func), {k.arg: _ev(k.value, p) for k in c.keywords if k.arg}, dict(p.env)))
    if isinstance(st, ast.Assign):
        v = _ev(st.value, p)
        for t in st.targets:
            if isinstance(t, (ast.Name, ast.Attribute)):
                p.env[_key(t, p) if isinstance(t, ast.Attribute) else t.id] = v
                # a rebound name invalidates what was known about its attributes
                if isinstance(t, ast.Name):
                    for k in [k for k in p.env if k.startswith(t.id + '.')]:
                        del p.env[k]
            elif isinstance(t, ast.Tuple):
                if isinstance(v, tuple) and len(v) == len(t.elts):
                    for x, xv in zip(t.elts, v):
                        p.env[_key(x, p) if isinstance(x, ast.Attribute) else ast.unparse(x)] = xv
                else:
                    for x in t.elts:
                        p.env[ast.unparse(x)] = UNK
    elif isinstance(st, ast.AugAssign):
        cur, v = p.env.get(ast.unparse(st.target), UNK), _ev(st.value, p)
        if cur is not UNK and v is not UNK and isinstance(st.op, (ast.Add, ast.Sub)) and all(isinstance(x, (int, float)) for x in (cur, v)):
            p.env[ast.unparse(st.target)] = cur + v if isinstance(st.op, ast.Add) else cur - v
        else:
            p.env[ast.unparse(st.target)] = UNK
    elif isinstance(st, ast.Return):
        p.done = 'return'
        p.events.append((st.lineno, 'return', {'value': st.value}, dict(p.env)))
        yield p
        return
    elif isinstance(st, ast.Raise):
        p.done = 'raise'
        exc = st.exc
        what = UNK
        if exc is not None:
            what = _ev(exc.func if isinstance(exc, ast.Call) else exc, p)
            if what is UNK and isinstance(exc.func if isinstance(exc, ast.Call) else exc, ast.Name):
                what = 'class:' + (exc.func if isinstance(exc, ast.Call) else exc).id
        p.events.append((st.lineno, 'raise', {'exc': what}, dict(p.env)))
        yield p
        return
    elif isinstance(st, (ast.For, ast.While, ast.With, ast.Try)):
        # bodies are walked once with everything they assign forgotten afterwards
        for x in ast.walk(st):
            if isinstance(x, ast.Assign):
                for t in x.targets:
                    p.env[ast.unparse(t)] = UNK
    yield from _exec(rest, p)


def paths(fn, domains, late=None):
    """domains: {'mode': [...], 'sim.integrator': [...]}; `late`: keys that only become known after the statement that
    binds their base name (e.g. sim.* after `sim = Simulation()`): they are re-installed whenever the base is assigned."""
    keys = sorted(domains)
    for combo in itertools.product(*[domains[k] for k in keys]):
        env = dict(zip(keys, combo))
        body = list(fn.body)
        if late:
            body = _Reinstall(late, env).visit_body(body)
        p = Path({k: v for k, v in env.items() if not (late and k.split('.')[0] in late)})
        for r in _exec(body, p):
            yield env, r


class _Reinstall:
    """after `base = ...` put back the attribute values of the chosen environment (they describe the restored object)"""
    def __init__(self, bases, env):
        self.bases, self.env = set(bases), env

    def visit_body(self, stmts):
        out = []
        for st in stmts:
            out.append(st)
            if isinstance(st, ast.Assign) and any(isinstance(t, ast.Name) and t.id in self.bases for t in st.targets):
                for k, v in self.env.items():
                    if k.split('.')[0] in self.bases and '.' in k:
                        a = ast.parse('%s = %r' % (k, v)).body[0]
                        ast.copy_location(a, st)
                        for x in ast.walk(a):
                            ast.copy_location(x, st)
                        out.append(a)
        return out
