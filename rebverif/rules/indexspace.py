"""Index spaces of the hybrid integrators (R02.9).

MERCURIUS and TRACE address particles in two index spaces: the global index into r->particles (and the arrays parallel to
it: particles_backup, dcrit, ...) and the compact index into the list of particles in a close encounter
(encounter_map[compact] = global). Each integer variable of a function is typed from the way it is used:
  GLOBAL  - bounds a loop against a particle count (N, N_real, N_active), subscripts a per-particle array, or is read out
            of the encounter map;
  COMPACT - bounds a loop against encounter_N / encounter_N_active, or is the position at which a global index is stored
            into the encounter map.
Comparing a COMPACT variable with the active count of the simulation (or a GLOBAL one with the encounter counts), or using a
COMPACT variable to subscript a per-particle array, mixes the spaces."""
import re

from ..core import AnalysisError, anchor
from .. import cfront
from ..cfront import walk, strip, render, line_of, is_assign, qtype

GLOBAL_ARRAYS = ('particles', 'particles_backup', 'particles_backup_kepler', 'particles_backup_additional_forces', 'dcrit', 'p_hold', 'particles_var1')
GLOBAL_COUNTS = ('r.N', 'N', 'N_real', '_N_real', 'r.N_active', 'N_active', '_N_active', 'r.N_var')
COMPACT_COUNTS = ('encounter_N', 'encounter_N_active')


def _last(name):
    return name.replace(' ', '').split('.')[-1]


def classify(fn):
    """{variable: {'G': [evidence], 'C': [evidence]}}"""
    ev = {}

    def add(v, k, why):
        ev.setdefault(v, {'G': [], 'C': [], 'name': names.get(v, v)})[k].append(why)

    names = {}
    for n in walk(fn):
        if n.get('kind') in ('VarDecl', 'ParmVarDecl') and n.get('id'):
            names[n['id']] = n.get('name')

    def vid(ref):
        return ref['referencedDecl'].get('id')

    for n in walk(cfront.body(fn)):
        k = n.get('kind')
        if k == 'ForStmt':
            cond = n['inner'][2]
            if cond and cond.get('kind'):
                c = strip(cond)
                if c.get('kind') == 'BinaryOperator' and c['opcode'] in ('<', '<='):
                    var = strip(c['inner'][0], casts=True)
                    if var.get('kind') == 'DeclRefExpr':
                        b = render(strip(c['inner'][1], casts=True)).replace(' ', '').strip('()')
                        if _last(b) in COMPACT_COUNTS:
                            add(vid(var), 'C', 'loop bound %s (line %s)' % (b, line_of(n)))
                        elif b in GLOBAL_COUNTS or re.match(r'^\(?r\.N-r\.N_var\)?$', b):
                            add(vid(var), 'G', 'loop bound %s (line %s)' % (b, line_of(n)))
        elif k == 'ArraySubscriptExpr':
            base = render(n['inner'][0]).replace(' ', '')
            idx = strip(n['inner'][1], casts=True)
            if idx.get('kind') == 'DeclRefExpr' and _last(base) in GLOBAL_ARRAYS and 'reb_particle' in qtype(n) + qtype(strip(n['inner'][0])) or \
                    (idx.get('kind') == 'DeclRefExpr' and _last(base) == 'dcrit'):
                add(vid(idx), 'G', 'subscript of %s (line %s)' % (base, line_of(n)))
        elif k == 'VarDecl' and 'init' in n:
            init = [c for c in n.get('inner', []) if c.get('kind') not in ('FullComment',)]
            if init:
                i0 = strip(init[-1], casts=True)
                if i0.get('kind') == 'ArraySubscriptExpr' and _last(render(i0['inner'][0])) in ('encounter_map', 'map'):
                    add(n['id'], 'G', 'read from %s (line %s)' % (render(i0['inner'][0]), line_of(n)))
        elif is_assign(n) and n['opcode'] == '=':
            lv = strip(n['inner'][0])
            rv = strip(n['inner'][1], casts=True)
            if lv.get('kind') == 'ArraySubscriptExpr' and _last(render(lv['inner'][0])) == 'encounter_map':
                ix = strip(lv['inner'][1], casts=True)
                if ix.get('kind') == 'DeclRefExpr' and rv.get('kind') == 'DeclRefExpr' and ix['referencedDecl']['name'] != rv['referencedDecl']['name']:
                    add(vid(ix), 'C', 'position at which %s is stored into the encounter map (line %s)' % (rv['referencedDecl']['name'], line_of(n)))
                    add(vid(rv), 'G', 'value stored into the encounter map (line %s)' % line_of(n))
    return ev


def check_function(ctx, rule, cfile, fn):
    ev = classify(fn)
    n = 0
    name = fn['name']
    for v, e in sorted(ev.items()):
        if e['G'] and e['C']:
            n += 1
            ctx.report(rule, '%s:%s:both' % (name, e['name']), 'src/%s %s' % (cfile, name),
                       'variable %s is used both as a global particle index (%s) and as a compact encounter index (%s)' % (e['name'], e['G'][0], e['C'][0]))
    for c in walk(cfront.body(fn)):
        if c.get('kind') != 'BinaryOperator' or c.get('opcode') not in ('<', '<=', '>', '>=', '==', '!='):
            continue
        sides = [strip(c['inner'][0], casts=True), strip(c['inner'][1], casts=True)]
        for a, b in (sides, sides[::-1]):
            if a.get('kind') != 'DeclRefExpr':
                continue
            v = a['referencedDecl'].get('id')
            if v not in ev:
                continue
            vn = ev[v]['name']
            bt = render(b).replace(' ', '').strip('()')
            if bt in ('r.N_active', 'N_active', '_N_active') and not (b.get('kind') == 'DeclRefExpr' and b['referencedDecl'].get('id') in ev and ev[b['referencedDecl'].get('id')]['C']):
                n += 1
                if ev[v]['C'] and not ev[v]['G']:
                    ctx.report(rule, '%s:%s:vs_N_active' % (name, vn), 'src/%s:%s %s' % (cfile, line_of(c), name),
                               '%s is a compact encounter index (%s) but is compared with the simulation\'s active count %s, which refers to positions in r->particles: active and test particles are told apart wrongly whenever a lower-indexed particle is not in the encounter'
                               % (vn, ev[v]['C'][0], bt))
            if _last(bt) in COMPACT_COUNTS:
                n += 1
                if ev[v]['G'] and not ev[v]['C']:
                    ctx.report(rule, '%s:%s:vs_encounter_N' % (name, vn), 'src/%s:%s %s' % (cfile, line_of(c), name),
                               '%s is a global particle index (%s) but is compared with %s, a count of the compact encounter list' % (vn, ev[v]['G'][0], bt))
    return n, ev


def rule_index_spaces(ctx, rule):
    files = ['integrator_mercurius.c', 'integrator_trace.c', 'gravity.c', 'collision.c', 'particle.c']
    tus = cfront.load_tus(files)
    n = 0
    typed = 0
    samples = []
    for c in files:
        tu = tus[c]
        for name, fn in sorted(tu.funcs.items()):
            if cfront.basename(fn.get('_locfile') or fn.get('_file')) != c:
                continue
            if not any(x.get('kind') == 'MemberExpr' and x.get('name') in ('encounter_map', 'encounter_N', 'encounter_N_active') for x in walk(fn)):
                continue
            k, ev = check_function(ctx, rule, c, fn)
            n += k
            typed += len(ev)
            cs = sorted(e['name'] for v, e in ev.items() if e['C'])
            if cs and len(samples) < 6:
                samples.append('src/%s %s: compact %s, global %s' % (c, name, cs, sorted(e['name'] for v, e in ev.items() if e['G'])[:6]))
    ctx.covered(rule, 'index spaces of the hybrid integrators: %d variables typed global/compact; comparisons with N_active / encounter counts and per-particle subscripts stay within one space' % typed,
                n, floor=20, samples=samples)
