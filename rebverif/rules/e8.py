"""E8 - algebraic summaries of loop-free C functions over doubles and small structs (sympy).

A function denotes a tuple of expressions in its inputs: locals are let-bindings, struct values are dicts by field
name (shared by reference when passed by pointer), calls to other summarised functions are inlined. No paths are
enumerated: an `if` makes the function not summarisable (ValueError) unless a hook decides it."""
from ..core import AnalysisError
from .. import cfront
from ..cfront import strip, walk, render, qtype, callee_name, call_args, is_assign


class NotSummarisable(ValueError):
    pass


def _sp():
    import sympy as sp
    return sp


def math_funcs():
    sp = _sp()
    return {'sqrt': sp.sqrt, 'cbrt': sp.cbrt, 'sin': sp.sin, 'cos': sp.cos, 'tan': sp.tan, 'fabs': sp.Abs, 'atan2': sp.atan2,
            'log': sp.log, 'exp': sp.exp, 'acos': sp.acos, 'asin': sp.asin, 'sinh': sp.sinh, 'cosh': sp.cosh, 'tanh': sp.tanh,
            'pow': lambda a, b: a ** b}


class E8:
    def __init__(self, tus, hooks=None, skip_if=None):
        """tus: {cfile: TU}; hooks: {callee name: python function(e8, call node, env) -> value} to model calls that are
        not summarisable (implicit functions, out-parameters); skip_if(function name, if node) -> True to ignore an
        if-statement (validity checks that only return an error)."""
        self.funcs = {}
        self.fields = {}
        for tu in tus.values():
            for name, fn in tu.funcs.items():
                self.funcs.setdefault(name, fn)
            for sname, rec in tu.records.items():
                self.fields.setdefault('struct ' + sname, [f['name'] for f in rec.get('inner', []) if f.get('kind') == 'FieldDecl'])
        self.hooks = hooks or {}
        self.skip_if = skip_if or (lambda fname, node: False)
        self.depth = 0

    def sym_struct(self, prefix, stype, real=True):
        sp = _sp()
        return {f: sp.Symbol('%s_%s' % (prefix, f), real=real) for f in self.fields[stype]}

    def zero_struct(self, stype):
        sp = _sp()
        return {f: sp.Integer(0) for f in self.fields[stype]}

    def stype_of(self, n):
        t = qtype(n).replace('const ', '').replace('restrict', '').strip()
        t = t.rstrip('*').strip()
        return t if t in self.fields else None

    # ---- expressions
    def ev(self, n, env, fname):
        sp = _sp()
        n = strip(n)
        k = n.get('kind')
        if k == 'FloatingLiteral':
            v = n['value']
            try:
                f = float(v)
                if f == int(f) and abs(f) < 1e6:
                    return sp.Integer(int(f))
            except ValueError:
                pass
            return sp.nsimplify(v, rational=True) if len(v) <= 8 else sp.Float(v, 40)
        if k == 'IntegerLiteral':
            return sp.Integer(int(n['value']))
        if k == 'DeclRefExpr':
            nm = n['referencedDecl']['name']
            if nm not in env:
                raise NotSummarisable('unbound name %s in %s' % (nm, fname))
            return env[nm]
        if k == 'MemberExpr':
            b = self.ev(n['inner'][0], env, fname)
            if not isinstance(b, dict):
                raise NotSummarisable('member of non-struct in ' + fname)
            if n['name'] not in b:
                raise NotSummarisable('unknown member %s in %s' % (n['name'], fname))
            return b[n['name']]
        if k == 'UnaryOperator':
            op = n['opcode']
            v = self.ev(n['inner'][0], env, fname)
            if op == '-':
                return -v
            if op in ('+', '*', '&'):
                return v      # pointers to structs are modelled as the struct itself (shared dict)
            raise NotSummarisable('unary %s in %s' % (op, fname))
        if k == 'BinaryOperator':
            a = self.ev(n['inner'][0], env, fname)
            b = self.ev(n['inner'][1], env, fname)
            op = n['opcode']
            if op == '+':
                return a + b
            if op == '-':
                return a - b
            if op == '*':
                return a * b
            if op == '/':
                return a / b
            raise NotSummarisable('binary %s in %s' % (op, fname))
        if k == 'CStyleCastExpr':
            return self.ev(n['inner'][0], env, fname)
        if k == 'CallExpr':
            return self.call_node(n, env, fname)
        if k == 'InitListExpr':
            st = self.stype_of(n)
            if st is None:
                raise NotSummarisable('initialiser list of %s in %s' % (qtype(n), fname))
            vals = {}
            for f, c in zip(self.fields[st], n.get('inner', [])):
                vals[f] = sp.Integer(0) if c.get('kind') == 'ImplicitValueInitExpr' else self.ev(c, env, fname)
            for f in self.fields[st]:
                vals.setdefault(f, sp.Integer(0))
            return vals
        if k == 'CompoundLiteralExpr':
            return self.ev(n['inner'][0], env, fname)
        if k == 'ImplicitValueInitExpr':
            return sp.Integer(0)
        raise NotSummarisable('expression kind %s in %s' % (k, fname))

    def call_node(self, n, env, fname):
        nm = callee_name(n)
        if nm in self.hooks:
            return self.hooks[nm](self, n, env, fname)
        mf = math_funcs()
        args = [self.ev(a, env, fname) for a in call_args(n)]
        if nm in mf:
            return mf[nm](*args)
        if nm in self.funcs and self._status_helper(nm):
            return _sp().Integer(0)
        if nm in self.funcs:
            return self.call(nm, args)
        raise NotSummarisable('call of %s in %s' % (nm, fname))

    def _status_helper(self, nm):
        """a file-local function that does not exist in the reference tree, returns an int and returns nothing but integer
        literals, the last one 0: validity checks split off into a status function. The summaries describe valid input (the
        checks written in place are skipped on the same assumption), so its value is 0."""
        from .. import normal
        f = self.funcs[nm]
        if f.get('storageClass') != 'static' or not (f.get('type') or {}).get('qualType', '').startswith('int '):
            return False
        cf = cfront.basename(f.get('_locfile') or f.get('_file') or '')
        ref = normal.reference_names(cf) if cf else None
        if not ref or nm in ref:
            return False
        rets = [x for x in cfront.walk(cfront.body(f)) if x.get('kind') == 'ReturnStmt']
        if not rets or not all(x.get('inner') and strip(x['inner'][0], casts=True).get('kind') == 'IntegerLiteral' for x in rets):
            return False
        top = cfront.body(f).get('inner', [])
        return bool(top) and top[-1].get('kind') == 'ReturnStmt' and strip(top[-1]['inner'][0], casts=True).get('value') == '0' \
            and not any(cfront.is_assign(x) for x in cfront.walk(cfront.body(f)))

    # ---- functions
    def call(self, name, args):
        fn = self.funcs[name]
        env = {}
        for p, a in zip(cfront.params(fn), args):
            if p.get('name'):
                # by-value structs are copied, pointers share
                if isinstance(a, dict) and '*' not in qtype(p):
                    a = dict(a)
                env[p['name']] = a
        self.depth += 1
        if self.depth > 30:
            raise NotSummarisable('recursion in ' + name)
        try:
            r = self.run(cfront.body(fn).get('inner', []), env, name)
        finally:
            self.depth -= 1
        return r[1] if r else None

    def run(self, stmts, env, fname):
        sp = _sp()
        for st in stmts:
            k = st.get('kind')
            if k == 'DeclStmt':
                for d in st.get('inner', []):
                    if d.get('kind') != 'VarDecl':
                        continue
                    init = [c for c in d.get('inner', []) if c.get('kind') not in ('FullComment',)]
                    if init and 'init' in d:
                        v = self.ev(init[-1], env, fname)
                        if isinstance(v, dict) and '*' not in qtype(d):
                            v = dict(v)
                        env[d['name']] = v
                    else:
                        stt = self.stype_of(d)
                        env[d['name']] = self.zero_struct(stt) if stt else sp.Integer(0)
            elif k == 'ReturnStmt':
                if st.get('inner'):
                    v = self.ev(st['inner'][0], env, fname)
                    return ('ret', dict(v) if isinstance(v, dict) else v)
                return ('ret', None)
            elif k == 'CompoundStmt':
                r = self.run(st.get('inner', []), env, fname)
                if r:
                    return r
            elif k == 'IfStmt':
                if self.skip_if(fname, st):
                    continue
                raise NotSummarisable('if-statement at line %s of %s' % (st.get('_line'), fname))
            elif k in ('NullStmt',):
                pass
            elif k in ('ForStmt', 'WhileStmt', 'DoStmt', 'SwitchStmt'):
                raise NotSummarisable('%s in %s' % (k, fname))
            else:
                e = strip(st)
                if is_assign(e):
                    self.assign(e, env, fname)
                elif e.get('kind') == 'CallExpr':
                    self.call_node(e, env, fname)
                else:
                    raise NotSummarisable('statement kind %s in %s' % (e.get('kind'), fname))
        return None

    def assign(self, e, env, fname):
        lhs = strip(e['inner'][0])
        rhs = self.ev(e['inner'][1], env, fname)
        op = e['opcode']

        def setv(val):
            if lhs.get('kind') == 'DeclRefExpr':
                env[lhs['referencedDecl']['name']] = dict(val) if isinstance(val, dict) else val
            elif lhs.get('kind') == 'MemberExpr':
                b = self.ev(lhs['inner'][0], env, fname)
                b[lhs['name']] = val
            elif lhs.get('kind') == 'UnaryOperator' and lhs.get('opcode') == '*':
                tgt = self.ev(lhs['inner'][0], env, fname)
                if isinstance(tgt, dict) and isinstance(val, dict):
                    tgt.update(val)
                else:
                    inner = strip(lhs['inner'][0])
                    if inner.get('kind') == 'DeclRefExpr':
                        env[inner['referencedDecl']['name']] = val
                    else:
                        raise NotSummarisable('store through pointer in ' + fname)
            else:
                raise NotSummarisable('assignment target %s in %s' % (lhs.get('kind'), fname))
        if op == '=':
            setv(rhs)
        else:
            cur = self.ev(lhs, env, fname)
            setv({'+=': lambda: cur + rhs, '-=': lambda: cur - rhs, '*=': lambda: cur * rhs, '/=': lambda: cur / rhs}[op]())


def zero_test(expr, n=4, seed=0, dps=40, ranges=None):
    """Numerical zero test of a residual at random high-precision points (used only after simplification failed);
    returns the largest magnitude seen."""
    import random
    import mpmath as mp
    sp = _sp()
    rnd = random.Random(seed)
    mp.mp.dps = dps
    fs = sorted(expr.free_symbols, key=str)
    if not fs:
        return abs(mp.mpf(sp.N(expr, dps)))
    f = sp.lambdify(fs, expr, 'mpmath')
    worst = mp.mpf(0)
    for _ in range(n):
        vals = []
        for s in fs:
            lo, hi = (ranges or {}).get(str(s), (0.3, 1.7))
            vals.append(mp.mpf(rnd.uniform(lo, hi)) + mp.mpf(rnd.random()) * mp.mpf('1e-20'))
        worst = max(worst, abs(f(*vals)))
    return worst
