"""C13 - collisions are detected completely and resolved conservatively: static necessary conditions."""
import re

from ..core import AnalysisError, anchor
from .. import cfront
from ..cfront import walk, strip, callee_name, call_args, render, line_of, is_assign, qtype, toks
from . import x1, x3, sibling, symexec


def rule_dispatch(ctx):
    n, samples = x3.check(ctx, 'R13.1', ['collision.c'], exceptions={}, member_filter=lambda c: c == 'r.collision')
    ctx.covered('R13.1', 'switch over the collision search mode is exhaustive or reports an error', n, floor=1, samples=samples)


def rule_fixup_siblings(ctx):
    tu = cfront.load_tu('collision.c')
    fn = tu.func('reb_collision_search')
    blocks = {}
    for ifs in walk(cfront.body(fn)):
        if ifs.get('kind') == 'IfStmt':
            # `if (outcome & k)`, also spelled `(outcome & k) != 0`: normal form of the condition
            from .. import normal
            c = render(normal.norm_cond(ifs['inner'][0])).replace(' ', '')
            while c.startswith('((') and c.endswith('))'):
                c = c[1:-1]
            m = re.match(r'^\(?(\w+)&(\d)\)?$', c)
            if m:
                blocks[int(m.group(2))] = ifs['inner'][1]
    anchor(1 in blocks and 2 in blocks, 'reb_collision_search: "if (outcome & 1)" and "if (outcome & 2)" fix-up blocks')
    a = sibling.flat(blocks[1], [(r'\bc\.p1\b', 'c.REMOVED'), (r'\bremovedp1\b', 'removed')])
    b = sibling.flat(blocks[2], [(r'\bc\.p2\b', 'c.REMOVED'), (r'\bremovedp2\b', 'removed')])
    n = max(len(a), len(b))
    where = 'src/collision.c reb_collision_search (index fix-up after removing p1 / after removing p2)'
    for tag, xa, xb in sibling.diff(a, b):
        # admitted: the stanza that updates c.p2 of the *current* collision exists only after removing p1
        txt = xa + xb
        if not xb and all(('c.p2' in l) or l in ('}', '}else{') or l.startswith('if(collision_resolve_keep_sorted)') for l in xa):
            continue
        ctx.report('R13.2', 'fixup:%s' % (txt[0][:50]), where,
                   'the fix-up after removing p1 and the fix-up after removing p2 differ beyond the stanza for the current collision: p1-block has %s, p2-block has %s'
                   % (xa or 'nothing', xb or 'nothing'))
    # invalidation precedes re-indexing inside each inner loop
    for k, blk in blocks.items():
        for loop in walk(blk):
            if loop.get('kind') != 'ForStmt':
                continue
            items = loop['inner'][-1].get('inner', [])
            kinds = []
            for st in items:
                if st.get('kind') == 'IfStmt':
                    c = render(st['inner'][0])
                    if '==c.p%d' % k in c.replace(' ', '') and '||' in c:
                        kinds.append('invalidate')
                    elif 'collision_resolve_keep_sorted' in c:
                        kinds.append('reindex')
            n += 1
            if 'reindex' in kinds and ('invalidate' not in kinds or kinds.index('invalidate') > kinds.index('reindex')):
                ctx.report('R13.2', 'fixup:order:p%d' % k, where, 'pending collisions are re-indexed before the ones involving the removed particle are invalidated')
    ctx.covered('R13.2', 'index fix-up blocks after removing p1 / p2 are the same statements under p1<->p2 (one admitted stanza); invalidate before re-index', n, floor=20,
                samples=['p1-block %d statements, p2-block %d statements' % (len(a), len(b))])


def rule_merge(ctx):
    import sympy as sp
    tu = cfront.load_tu('collision.c')
    fn = tu.func('reb_collision_resolve_merge')
    st = symexec.State()
    inert = lambda cond: 'track_energy_offset' in cond
    symexec.run_block(cfront.body(fn).get('inner', []), st, ('r.particles[i]', 'r.particles[j]'), inert)
    n = 0
    where = 'src/collision.c reb_collision_resolve_merge'
    P = lambda idx, f: 'r.particles[%s].%s' % (idx, f)
    mi, mj = st.sym(P('i', 'm')), st.sym(P('j', 'm'))
    M = mi + mj
    for f in ('x', 'y', 'z', 'vx', 'vy', 'vz'):
        n += 1
        fin = st.vals.get(P('i', f))
        if fin is None:
            ctx.report('R13.3', 'merge:' + f, where, 'the surviving particle keeps its old %s' % f)
            continue
        res = sp.simplify(fin * M - (mi * st.sym(P('i', f)) + mj * st.sym(P('j', f))))
        if res != 0:
            ctx.report('R13.3', 'merge:' + f, where, 'merged %s does not conserve %s: (m_i+m_j)*%s\' - (m_i*%s_i + m_j*%s_j) = %s'
                       % (f, 'momentum' if f.startswith('v') else 'the centre of mass', f, f, f, str(res)[:120]))
    n += 1
    fin = st.vals.get(P('i', 'm'))
    if fin is None or sp.simplify(fin - M) != 0:
        ctx.report('R13.3', 'merge:m', where, 'merged mass is %s, not m_i + m_j' % fin)
    n += 1
    fin = st.vals.get(P('i', 'r'))
    ri, rj = st.sym(P('i', 'r')), st.sym(P('j', 'r'))
    if fin is None or sp.simplify(fin ** 3 - (ri ** 3 + rj ** 3)) != 0:
        ctx.report('R13.3', 'merge:r', where, 'merged radius does not conserve volume: r\'^3 - (r_i^3 + r_j^3) = %s' % (sp.simplify(fin ** 3 - (ri ** 3 + rj ** 3)) if fin is not None else 'unset'))
    for f in ('x', 'y', 'z', 'vx', 'vy', 'vz', 'm', 'r'):
        if P('j', f) in st.vals:
            ctx.report('R13.3', 'merge:j:' + f, where, 'the particle that is removed is modified (%s)' % f)
    # the particle removed is the one with the larger index; the return code names it (1 = p1, 2 = p2)
    txt = [render(s['inner'][0]) for s in walk(cfront.body(fn)) if s.get('kind') == 'ReturnStmt' and s.get('inner')]
    n += 1
    if '(swap?1:2)' not in [t.replace(' ', '') for t in txt]:
        ctx.report('R13.3', 'merge:return', where, 'the return code is not swap?1:2 (got %s)' % txt)
    swapif = [x for x in walk(cfront.body(fn)) if x.get('kind') == 'IfStmt' and render(x['inner'][0]).replace(' ', '') == '(j<i)']
    n += 1
    if len(swapif) != 1:
        ctx.report('R13.3', 'merge:swap', where, 'the "merge into the lower index" test (j<i) is missing')
    else:
        sets = {render(e['inner'][0]): render(e['inner'][1]) for e in walk(swapif[0]['inner'][1]) if is_assign(e)}
        if sets != {'swap': '1', 'i': 'c.p2', 'j': 'c.p1'}:
            ctx.report('R13.3', 'merge:swap', where, 'when p2 < p1 the roles are not exchanged consistently: %s' % sets)
    # a particle that already merged in this step is not merged twice
    first = cfront.body(fn)['inner'][0]
    n += 1
    if not (first.get('kind') == 'IfStmt' and 'last_collision' in render(first['inner'][0]) and 'r.t' in render(first['inner'][0])):
        ctx.report('R13.3', 'merge:twice', where, 'the guard against merging a particle twice in one step (last_collision == t) is not the first statement')
    # halt resolver removes nothing
    hf = tu.func('reb_collision_resolve_halt')
    rets = [render(s['inner'][0]) for s in walk(cfront.body(hf)) if s.get('kind') == 'ReturnStmt' and s.get('inner')]
    n += 1
    if rets != ['0']:
        ctx.report('R13.3', 'halt:return', 'src/collision.c reb_collision_resolve_halt', 'halt must not remove a particle (returns %s)' % rets)
    ctx.covered('R13.3', 'merge resolver: (m_i+m_j) x\' = m_i x_i + m_j x_j for x,y,z,vx,vy,vz; m\' = m_i+m_j; r\'^3 = r_i^3+r_j^3; removed = larger index; no double merge',
                n, floor=12, samples=['sequential symbolic execution of %d assignments' % len(st.vals)])


def rule_keep_sorted(ctx):
    n = 0
    for cfile, fname in (('collision.c', 'reb_collision_search'), ('particle.c', 'reb_simulation_remove_particle')):
        tu = cfront.load_tu(cfile)
        fn = tu.func(fname)
        n += 1
        forced = set()
        for ifs in walk(cfront.body(fn)):
            if ifs.get('kind') == 'IfStmt':
                c = render(ifs['inner'][0])
                ints = set(re.findall(r'r\.integrator==(REB_INTEGRATOR_\w+)', c.replace(' ', '')))
                if not ints:
                    continue
                # direct statements of the then-branch (not nested ifs)
                thenb = ifs['inner'][1]
                for st in (thenb.get('inner', []) if thenb.get('kind') == 'CompoundStmt' else [thenb]):
                    e = strip(st)
                    if is_assign(e) and 'keep_sorted' in render(e['inner'][0]) and render(e['inner'][1]) == '1':
                        forced |= ints
        want = {'REB_INTEGRATOR_MERCURIUS', 'REB_INTEGRATOR_TRACE'}
        if forced != want:
            ctx.report('R13.4', 'keep_sorted:' + fname, 'src/%s %s' % (cfile, fname),
                       'order preservation is forced for %s here, not for the hybrid integrators %s: their per-particle arrays go out of step with the particle array after a removal'
                       % (sorted(forced) or 'no integrator', sorted(want)))
    ctx.covered('R13.4', 'order-preserving removal is forced for the hybrid integrators at both deciding sites', n, floor=2)


def rule_growth(ctx, rule='R13.6'):
    """every write to r->collisions[collisions_N] is preceded in its block by the growth test of the array"""
    n = 0
    samples = []

    def is_growth_if(st):
        if st.get('kind') != 'IfStmt':
            return False
        c = render(st['inner'][0]).replace(' ', '')
        return 'N_allocated_collisions<=' in c and any('realloc' in render(e['inner'][1]) for e in walk(st['inner'][1]) if is_assign(e))
    # helpers that guarantee capacity: a function whose body starts (at top level, before any write) with the growth test,
    # or with a call of such a helper
    growers = set()
    allf = {}
    for cfile in ('collision.c', 'tree.c'):
        allf.update(cfront.load_tu(cfile).funcs)
    changed = True
    while changed:
        changed = False
        for fname, fn in allf.items():
            if fname in growers:
                continue
            for st in cfront.body(fn).get('inner', []):
                s_ = strip(st)
                if is_growth_if(st) or (s_.get('kind') == 'CallExpr' and callee_name(s_) in growers):
                    growers.add(fname)
                    changed = True
                    break
                if st.get('kind') not in ('DeclStmt',):
                    break
    for cfile in ('collision.c', 'tree.c'):
        tu = cfront.load_tu(cfile)
        for fname, fn in tu.funcs.items():
            if cfront.basename(fn.get('_locfile') or fn.get('_file')) != cfile:
                continue
            for comp in walk(cfront.body(fn)):
                if comp.get('kind') != 'CompoundStmt':
                    continue
                grown = False
                for st in comp.get('inner', []):
                    if is_growth_if(st):
                        grown = True
                    s = strip(st)
                    if s.get('kind') == 'CallExpr' and callee_name(s) in growers:
                        grown = True
                    if is_assign(s) and re.match(r'^r\.collisions\[[^\]]+\](\.|$)', render(s['inner'][0])) and not re.match(r'^r\.collisions\[(i|new)\]', render(s['inner'][0])):
                        n += 1
                        if not grown:
                            ctx.report(rule, 'collisions:growth:%s' % fname, 'src/%s:%s %s' % (cfile, line_of(s), fname),
                                       'r->collisions[...] is written without the preceding capacity test/realloc: a write beyond the allocated array')
                        if len(samples) < 3:
                            samples.append('src/%s:%s %s' % (cfile, line_of(s), fname))
    ctx.covered(rule, 'writes to the pending-collision array are preceded by its growth test (inline or through a helper that starts with it)', n, floor=2, samples=samples)


def rule_components(ctx):
    files = ['collision.c', 'boundary.c', 'tree.c', 'particle.c']
    only = {'boundary.c': {'reb_boundary_get_ghostbox'}}
    tus = cfront.load_tus(files)
    stats = {'groups': 0, 'samples': []}
    for c in files:
        tu = tus[c]
        for name, fn in sorted(tu.funcs.items()):
            if cfront.basename(fn.get('_locfile') or fn.get('_file')) != c:
                continue
            if c in only and name not in only[c]:
                continue
            if name in x1.ANISOTROPIC:
                continue
            x1.check_function(tu, fn, ctx.report, stats, 'R13.5')
    ctx.covered('R13.5', 'x/y/z statement triples of the collision searches, tree neighbour search, ghost-box shifts and merge are one formula under an axis permutation',
                stats['groups'], floor=50, samples=stats['samples'])


def _sum_terms(t):
    """flatten a token tree over + into its terms."""
    if t[0] == 'bin' and t[1] == '+':
        return _sum_terms(t[2]) + _sum_terms(t[3])
    if t[0] == 'cast':
        return _sum_terms(t[2])
    return [t]


def rule_pruning_radius(ctx):
    """R13.7: a tree cell may be skipped only if no particle in it can touch particle 1. The opening radius compared with
    the distance to the cell centre therefore has to be a sum containing (a) the search radius of particle 1 - the radius
    plus the distance travelled in the last step where the walk receives one -, (b) a bound on the partner's radius
    (max_radius), (c) for the line search a bound on the partner's travel (maxdrift) and (d) at least sqrt(3)/2 times the
    cell width (half the diagonal). Dropping any term loses collisions without any other visible effect."""
    tu = cfront.load_tu('collision.c')
    n = 0
    samples = []
    walks = {'reb_tree_get_nearest_neighbour_in_cell': {'p1': 'p1_r', 'line': False},
             'reb_tree_check_for_overlapping_trajectories_in_cell': {'p1': 'p1_r_plus_dtv', 'line': True}}
    for fname, spec in walks.items():
        fn = tu.func(fname)
        pnames = [p.get('name') for p in cfront.params(fn)]
        anchor(spec['p1'] in pnames, '%s receives %s' % (fname, spec['p1']))
        # the opening test: if (r2 < rp*rp) around the recursive calls
        rp = None
        for ifs in walk(cfront.body(fn)):
            if ifs.get('kind') != 'IfStmt':
                continue
            if not any(e.get('kind') == 'CallExpr' and callee_name(e) == fname for e in walk(ifs['inner'][1])):
                continue
            c = strip(ifs['inner'][0])
            if c.get('kind') == 'BinaryOperator' and c['opcode'] in ('<', '<='):
                rhs = toks(c['inner'][1])
                if rhs[0] == 'bin' and rhs[1] == '*' and rhs[2] == rhs[3] and rhs[2][0] == 'id':
                    rp = rhs[2][1]
                    rp_ids = {x['referencedDecl'].get('id') for x in walk(c['inner'][1]) if x.get('kind') == 'DeclRefExpr' and x['referencedDecl'].get('name') == rp}
        anchor(rp is not None, 'opening test r2 < rp*rp around the recursion of %s' % fname)
        init = None
        for d in walk(cfront.body(fn)):
            if d.get('kind') == 'VarDecl' and d.get('name') == rp and 'init' in d and d.get('id') in rp_ids:
                ini = [c_ for c_ in d.get('inner', []) if c_.get('kind') not in ('FullComment',)]
                t_ = toks(ini[-1])
                init = (t_, line_of(d))
        anchor(init is not None, 'declaration of the opening radius %s tested in %s' % (rp, fname))
        # locals that merely name a sub-expression are inlined (const double halfdiag = 0.866*c->w; rp = ... + halfdiag)
        from .pairloops import resolve as _resolve
        lets_ = {}
        for d in walk(cfront.body(fn)):
            if d.get('kind') == 'VarDecl' and 'init' in d and d.get('name') != rp and 'double' in qtype(d) and '*' not in qtype(d):
                ini = [c_ for c_ in d.get('inner', []) if c_.get('kind') not in ('FullComment',)]
                if ini:
                    lets_.setdefault(d['name'], toks(ini[-1]))
        pn = {p_.get('name') for p_ in cfront.params(fn)}
        lets_ = {k_: v_ for k_, v_ in lets_.items() if k_ not in pn}
        init = (_resolve(init[0], lets_), init[1])
        terms = [render(t_).replace(' ', '') for t_ in _sum_terms(init[0])]
        where = 'src/collision.c:%s %s' % (init[1], fname)
        need = [(spec['p1'], 'the search radius of particle 1 (%s)' % spec['p1'], lambda ts, nm=spec['p1']: nm in ts),
                ('max_radius', 'a bound on the partner\'s radius (r->max_radius1 or max_radius0)', lambda ts: any(t_ in ('r.max_radius1', 'r.max_radius0') for t_ in ts))]
        if spec['line']:
            need.append(('maxdrift', 'a bound on the partner\'s travel during the step (maxdrift)', lambda ts: 'maxdrift' in ts))
        for key, what, pred in need:
            n += 1
            if not pred(terms):
                ctx.report('R13.7', '%s:%s' % (fname, key), where, 'the opening radius %s = %s lacks %s: cells holding a colliding partner are skipped' % (rp, ' + '.join(terms), what))
        n += 1
        coef = None
        for t_ in _sum_terms(init[0]):
            if t_[0] == 'bin' and t_[1] == '*':
                sides = (t_[2], t_[3])
                for a_, b_ in (sides, sides[::-1]):
                    if a_[0] == 'lit' and render(b_).replace(' ', '') in ('c.w', 'node.w'):
                        coef = float(a_[1])
        if coef is None or coef < 0.8660254037:
            ctx.report('R13.7', '%s:diagonal' % fname, where, 'the opening radius adds %s times the cell width; half the diagonal of a cube is sqrt(3)/2 = 0.8660254...' % coef)
        samples.append('%s: %s = %s' % (where, rp, ' + '.join(terms)))
        # no parameter of the walk is merely handed down the recursion
        for prm in cfront.params(fn):
            nm = prm.get('name')
            if not nm:
                continue
            n += 1
            uses = 0
            passed = 0
            for e in walk(cfront.body(fn)):
                if e.get('kind') == 'DeclRefExpr' and e['referencedDecl'].get('name') == nm:
                    uses += 1
                if e.get('kind') == 'CallExpr' and callee_name(e) == fname:
                    for a_ in call_args(e):
                        sa = strip(a_)
                        if sa.get('kind') == 'DeclRefExpr' and sa['referencedDecl'].get('name') == nm:
                            passed += 1
            if uses and uses == passed:
                ctx.report('R13.7', '%s:dead:%s' % (fname, nm), 'src/collision.c %s' % fname,
                           'parameter %s is only handed down the recursion and never consulted: the quantity it carries no longer takes part in the search' % nm)
    ctx.covered('R13.7', 'tree collision walks: opening radius contains the search radius of particle 1, the partner radius bound, the partner drift bound (line search) and >= sqrt(3)/2 cell widths; no walk parameter is dead',
                n, floor=20, samples=samples)


def rule_top_two(ctx):
    """R13.8: the tree searches prune with the second-largest radius (R13.7), which reb_simulation_add maintains together
    with the largest one. The update touches its values only through comparisons and copies, so it is decided on one
    representative per ordering of (new radius, largest, second largest): afterwards the pair must be the two largest
    of the three values."""
    from . import orders
    tu = cfront.load_tu('particle.c')
    from .. import normal
    fns = normal.with_new_helpers(tu, 'reb_simulation_add')
    target = None
    # the update stands in reb_simulation_add as an if/else, or is the whole body of a helper split off from it
    frags = [(st, None) for st in cfront.body(tu.func('reb_simulation_add')).get('inner', []) if st.get('kind') == 'IfStmt']
    frags += [(cfront.body(h), h) for h in fns if h['name'] != 'reb_simulation_add']
    for st, h in frags:
        assigned = sorted({orders._path(e['inner'][0]) for e in walk(st) if is_assign(e) and strip(e['inner'][0]).get('kind') == 'MemberExpr'})
        if len(assigned) == 2 and all('radius' in a for a in assigned):
            target = (st, assigned, h)
    anchor(target is not None, 'reb_simulation_add: if/else that maintains the two largest radii')
    st, (m_a, m_b), h = target
    reads = sorted({orders._path(e) for e in walk(st) if e.get('kind') == 'MemberExpr' and strip(e).get('kind') == 'MemberExpr'} - {m_a, m_b})
    reads = [r_ for r_ in reads if not any(r_ == x.rsplit('.', 1)[0] for x in (m_a, m_b))]
    if h is not None:
        # in a helper the new value arrives as a parameter
        reads += sorted({p_['name'] for p_ in cfront.params(h) if 'double' in qtype(p_) and '*' not in qtype(p_)
                         and any(x.get('kind') == 'DeclRefExpr' and x['referencedDecl'].get('name') == p_['name'] for x in walk(st))})
    pre = []
    if not reads and h is None:
        # the new value named by a local (const double radius = pt.r): the declaration is evaluated with the fragment
        loc = sorted({x['referencedDecl']['name'] for x in walk(st) if x.get('kind') == 'DeclRefExpr' and x['referencedDecl'].get('kind') == 'VarDecl' and 'double' in qtype(x)})
        for nm_ in loc:
            for d_ in walk(cfront.body(tu.func('reb_simulation_add'))):
                if d_.get('kind') == 'VarDecl' and d_.get('name') == nm_ and 'init' in d_:
                    init_ = [c for c in d_.get('inner', []) if c.get('kind') not in ('FullComment',)]
                    src_ = strip(init_[-1], casts=True) if init_ else {}
                    if src_.get('kind') == 'MemberExpr':
                        reads.append(orders._path(src_))
                        pre.append((nm_, orders._path(src_)))
    anchor(len(reads) == 1, 'reb_simulation_add: one new value is compared with the two maxima (%s)' % reads)
    v = reads[0]
    n = 0
    fails = {}
    for top, second in ((m_a, m_b), (m_b, m_a)):
        bad = []
        for env0 in orders.weak_orderings([v, top, second]):
            if env0[top] < env0[second]:
                continue            # the pair is kept ordered: only such states are reachable
            env = dict(env0)
            for nm_, src_ in pre:
                env[nm_] = env[src_]
            try:
                orders.run(st, env)
            except orders.Unsupported as ex:
                raise AnalysisError('R13.8: the update of the largest radii in reb_simulation_add is no longer made of comparisons and copies only (%s)' % ex)
            n += 1
            want = sorted([env0[v], env0[top], env0[second]], reverse=True)[:2]
            if [env[top], env[second]] != want:
                bad.append('new %g, largest %g, second %g -> (%g, %g), expected (%g, %g)' % (env0[v], env0[top], env0[second], env[top], env[second], want[0], want[1]))
        fails[(top, second)] = bad
    good = [k_ for k_, b_ in fails.items() if not b_]
    if not good:
        k_ = min(fails, key=lambda q: len(fails[q]))
        ctx.report('R13.8', 'reb_simulation_add:top2', 'src/particle.c:%s reb_simulation_add' % line_of(st),
                   'after adding a particle (%s, %s) are not the two largest radii in %d of the orderings, e.g. %s: the tree searches open cells with the second-largest radius and miss pairs whose partner is larger'
                   % (k_[0], k_[1], len(fails[k_]), fails[k_][0]))
    ctx.covered('R13.8', 'largest/second-largest radius update evaluated on every ordering of (new, largest, second)', n, floor=10,
                samples=['%s is the largest, %s the second largest' % good[0]] if good else [])


def rule_per_particle_terms(ctx):
    """R13.10: the critical distance below which a pair is handed to the collision search under MERCURIUS is the maximum of
    several criteria computed for particle i. Every term accumulated into the returned value must depend on particle i
    (through particles[i], a pointer to it, or a local computed from it): a term built from another particle only - the
    physical radius of the star instead of the body's own - is the same constant for all particles, so overlapping bodies
    larger than their other criteria are never flagged and never collision-searched."""
    tu = cfront.load_tu('integrator_mercurius.c')
    fn = tu.func('reb_integrator_mercurius_calculate_dcrit_for_particle')
    ps = cfront.params(fn)
    idx = [p_['name'] for p_ in ps if 'int' in qtype(p_)]
    anchor(len(idx) == 1, 'index parameter of reb_integrator_mercurius_calculate_dcrit_for_particle')
    ivar = idx[0]
    ret = None
    for x in walk(cfront.body(fn)):
        if x.get('kind') == 'ReturnStmt' and x.get('inner'):
            r0 = strip(x['inner'][0], casts=True)
            if r0.get('kind') == 'DeclRefExpr':
                ret = r0['referencedDecl']['name']
    anchor(ret is not None, 'the function returns an accumulated local')
    tainted = set()

    def dep(e):
        for y in walk(e):
            if y.get('kind') == 'DeclRefExpr':
                nm = y['referencedDecl']['name']
                if nm == ivar or (nm in tainted and nm != ret):
                    return True
        return False
    n = 0
    tables = {}
    for st in walk(cfront.body(fn)):
        if st.get('kind') == 'VarDecl' and 'init' in st and st.get('name') != ret:
            init = [c for c in st.get('inner', []) if c.get('kind') not in ('FullComment',)]
            if init and '[' in qtype(st) and strip(init[-1]).get('kind') == 'InitListExpr':
                tables[st['name']] = [c for c in strip(init[-1]).get('inner', []) if isinstance(c, dict) and c.get('kind')]
                continue
            if init and dep(init[-1]):
                tainted.add(st['name'])
        elif is_assign(st) and render(st['inner'][0]) == ret:
            rhs = st['inner'][1]
            r0_ = strip(rhs, casts=True)
            if r0_.get('kind') == 'ArraySubscriptExpr' and strip(r0_['inner'][0], casts=True).get('kind') == 'DeclRefExpr' \
                    and strip(r0_['inner'][0], casts=True)['referencedDecl']['name'] in tables:
                # the criteria stand in a local table that a loop folds into the result: every entry is a term
                for el in tables[strip(r0_['inner'][0], casts=True)['referencedDecl']['name']]:
                    n += 1
                    if not dep(el) and not all(y.get('kind') != 'DeclRefExpr' for y in walk(el)):
                        ctx.report('R13.10', 'dcrit:term:%s' % line_of(el), 'src/integrator_mercurius.c:%s %s' % (line_of(el), fn['name']),
                                   'the criterion accumulated here (%s) does not depend on particle %s: it is the same value for every particle (a quantity of another body - e.g. the star\'s radius in place of the body\'s own)' % (render(el)[:90], ivar))
                continue
            n += 1
            if not dep(rhs):
                lits = all(y.get('kind') != 'DeclRefExpr' or y['referencedDecl']['name'] == ret for y in walk(rhs))
                if lits:
                    continue        # plain initialisation with a constant
                ctx.report('R13.10', 'dcrit:term:%s' % line_of(st), 'src/integrator_mercurius.c:%s %s' % (line_of(st), fn['name']),
                           'the criterion accumulated here (%s) does not depend on particle %s: it is the same value for every particle (a quantity of another body - e.g. the star\'s radius in place of the body\'s own)' % (render(rhs)[:90], ivar))
    ctx.covered('R13.10', 'criteria accumulated into the MERCURIUS critical distance of particle i depend on particle i', n, floor=4)


def rule_self_exclusion(ctx, rule='R13.11'):
    """R13.11: a tree walk started for particle p1 considers every particle it reaches in an opened cell as a partner, except
    p1 itself. The exclusion compares two particle indices for identity (c->pt != p1). An ordering in its place ("record
    each pair from its lower index only") halves the candidates: it relies on the pair being found from the other
    particle's walk as well, which the opening criterion (built on the second-largest radius and p1's own radius) does not
    promise - a small particle next to the largest one is then never reported."""
    tu = cfront.load_tu('collision.c')
    n = 0
    for fname in sorted(tu.funcs):
        if 'tree' not in fname:
            continue
        fn = tu.func(fname)
        if cfront.body(fn) is None:
            continue
        for e in walk(cfront.body(fn)):
            if e.get('kind') != 'BinaryOperator' or e.get('opcode') not in ('!=', '==', '<', '>', '<=', '>='):
                continue
            a, b = render(e['inner'][0]).replace(' ', ''), render(e['inner'][1]).replace(' ', '')
            if not ((a.endswith('.pt') and re.search(r'\.p[12]$', b)) or (b.endswith('.pt') and re.search(r'\.p[12]$', a))):
                continue
            n += 1
            if e['opcode'] not in ('!=', '=='):
                ctx.report(rule, '%s:self-exclusion' % fname, 'src/collision.c:%s %s' % (line_of(e), fname),
                           'the particle found in the cell is compared with the searching particle by %s: every partner on the other side of the ordering is skipped as if it were the particle itself, so pairs are reported only from one of their members - and not at all when that member\'s walk does not open the cell' % render(e))
    ctx.covered(rule, 'tree searches exclude only the searching particle itself (identity test of the two indices)', n, floor=2)


def run(ctx):
    from . import c15 as _c15
    _c15.rule_axis_conditions(ctx)     # R15.9: cell membership treats x, y, z alike (a particle left in a wrong leaf is pruned from the collision walk)
    from . import serial as _serial13
    _serial13.rule_R05_2(ctx)          # R05.2: max_radius0/1 are persisted under their own names (the pruning radius survives a restart)
    from . import protocol
    protocol.rule_collision_step_size(ctx, 'R08.14')
    from . import edges as _edges
    _edges.rule_drift_magnitudes(ctx, 'R13.12')     # search radii grow with |dt|, also for backward integrations
    from . import edges
    edges.rule_threshold_siblings(ctx, 'R01.13')     # one quantity, one literal, one line: particle 0 is a leaf occupant like any other
    edges.rule_time_direction(ctx, 'R08.12')         # time may be negative and may run backwards: mergers are decided the same way in both directions of time
    from . import c14
    c14.rule_unsorted_removal_moves(ctx)     # R14.14: the re-indexing of pending collisions after a merger assumes "last -> index"
    rule_self_exclusion(ctx)
    rule_per_particle_terms(ctx)
    rule_top_two(ctx)
    from . import serial
    serial.rule_tree_predicate(ctx, 'R13.9')   # every site that decides "this simulation uses the tree" names both tree searches: a restored linetree simulation gets its tree back
    rule_pruning_radius(ctx)
    rule_dispatch(ctx)
    rule_fixup_siblings(ctx)
    rule_merge(ctx)
    rule_keep_sorted(ctx)
    rule_growth(ctx)
    rule_components(ctx)
    ctx.not_decided.append('completeness of detection; soundness of the tree pruning radius; independence of the outcome from the (randomised) processing order; hard-sphere momentum/energy identities')
