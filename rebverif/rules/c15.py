"""C15 - boundary conditions and the spatial tree keep every particle accounted for: static necessary conditions."""
import re

from ..core import AnalysisError, anchor
from .. import cfront
from ..cfront import walk, strip, callee_name, call_args, render, line_of, is_assign, qtype
from . import x1, x3, serial, extents

AX = ('x', 'y', 'z')


_named_values = extents.named_values


def _rs(node, L):
    return extents.canon(extents.resolve(render(node), L))


def _wrap_loops(node, L):
    """while (P.c OP box.c/2) P.c +-= box.c  ->  list of dicts (names resolved, parentheses dropped)"""
    out = []
    for w in walk(node):
        if w.get('kind') != 'WhileStmt':
            continue
        c = _rs(w['inner'][0], L)
        m = re.match(r'^(.+?)\.([xyz])([<>])(-?)(.+?)\.([xyz])/2(?:\.0?)?$', c)
        if not m:
            continue
        obj, comp, op, neg, box, bcomp = m.groups()
        ups = []
        for e in walk(w['inner'][1]):
            if is_assign(e):
                ups.append((_rs(e['inner'][0], L), e['opcode'], _rs(e['inner'][1], L)))
        out.append({'obj': obj, 'comp': comp, 'op': op, 'neg': bool(neg), 'box': box, 'bcomp': bcomp, 'ups': ups, 'line': line_of(w), 'cond': c})
    return out


def _boundary_cases(fn, L):
    """{REB_BOUNDARY_x: [statements]} of the dispatch on r->boundary, written as a switch or as an if / else-if chain"""
    cases = {}
    for sw in walk(cfront.body(fn)):
        if sw.get('kind') == 'SwitchStmt' and _rs([c for c in sw['inner'] if c and c.get('kind')][0], L) == 'r.boundary':
            cur = None
            for st in sw['inner'][-1].get('inner', []):
                node = st
                while node.get('kind') in ('CaseStmt', 'DefaultStmt'):
                    if node['kind'] == 'CaseStmt':
                        for x in walk(node['inner'][0]):
                            if x.get('kind') == 'DeclRefExpr':
                                cur = x['referencedDecl']['name']
                    else:
                        cur = 'default'
                    node = node['inner'][-1]
                cases.setdefault(cur, []).append(node)
            return cases
    for i in walk(cfront.body(fn)):
        if i.get('kind') == 'IfStmt':
            m = re.match(r'^(?:r\.boundary==(REB_BOUNDARY_\w+)|(REB_BOUNDARY_\w+)==r\.boundary)$', _rs(i['inner'][0], L))
            if m:
                cases.setdefault(m.group(1) or m.group(2), []).append(i['inner'][1])
    return cases


def rule_wrap(ctx):
    tu = cfront.load_tu('boundary.c')
    fn = tu.func('reb_boundary_check')
    n = 0
    samples = []
    NV = _named_values(fn)
    cases = _boundary_cases(fn, NV)
    for case in ('REB_BOUNDARY_PERIODIC', 'REB_BOUNDARY_SHEAR'):
        anchor(case in cases, 'reb_boundary_check case ' + case)
        loops = []
        for node in cases[case]:
            loops += _wrap_loops(node, NV)
        anchor(len(loops) == 6, '%s has six wrap loops (found %d)' % (case, len(loops)))
        seen = set()
        for L in loops:
            n += 1
            where = 'src/boundary.c:%s reb_boundary_check (%s)' % (L['line'], case.replace('REB_BOUNDARY_', ''))
            key = 'wrap:%s:%s%s' % (case.replace('REB_BOUNDARY_', ''), L['comp'], L['op'])
            seen.add((L['comp'], L['op']))
            if L['comp'] != L['bcomp']:
                ctx.report('R15.1', key + ':box', where, 'the %s coordinate is compared with the box size in %s' % (L['comp'], L['bcomp']))
            if (L['op'] == '>') == L['neg']:
                ctx.report('R15.1', key + ':side', where, 'the test %s compares against the wrong face (upper face is +box/2, lower face is -box/2)' % L['cond'])
            main = [u for u in L['ups'] if u[0] == '%s.%s' % (L['obj'], L['comp'])]
            want_op = '-=' if L['op'] == '>' else '+='
            if len(main) != 1 or main[0][1] != want_op or main[0][2] != '%s.%s' % (L['box'], L['comp']):
                ctx.report('R15.1', key + ':shift', where, 'a particle beyond the %s face must be moved by one box length in %s with %s; found %s' % ('upper' if L['op'] == '>' else 'lower', L['comp'], want_op, L['ups']))
            others = [u for u in L['ups'] if u[0] != '%s.%s' % (L['obj'], L['comp'])]
            if case == 'REB_BOUNDARY_PERIODIC' and others:
                ctx.report('R15.1', key + ':extra', where, 'a periodic wrap changes more than the wrapped coordinate: %s' % others)
            if case == 'REB_BOUNDARY_SHEAR':
                if L['comp'] == 'x':
                    oy = [u for u in others if u[0].endswith('.y')]
                    ovy = [u for u in others if u[0].endswith('.vy')]
                    rest = [u for u in others if not (u[0].endswith('.y') or u[0].endswith('.vy'))]
                    sgn = '+=' if L['op'] == '>' else '-='
                    # the two azimuthal offsets are the locals defined through fmod(-+ 3/2 OMEGA Lx t ...): names are free
                    offs = {}
                    for d_ in walk(fn):
                        if d_.get('kind') == 'VarDecl' and 'init' in d_:
                            ini_ = [c_ for c_ in d_.get('inner', []) if c_.get('kind') not in ('FullComment',)]
                            txt_ = render(ini_[-1]).replace(' ', '').replace('(', '') if ini_ else ''
                            if 'fmod' in txt_ and 'OMEGA' in txt_:
                                offs['>' if txt_.split('fmod', 1)[1].startswith('-') else '<'] = extents.canon(extents.resolve(d_['name'], NV))
                    anchor(set(offs) == {'>', '<'}, 'the two shear offsets (locals defined with fmod of -+ 3/2 OMEGA boxsize.x t) in reb_boundary_check')
                    off = offs[L['op']]
                    if len(oy) != 1 or oy[0][1] != '+=' or oy[0][2] != off:
                        ctx.report('R15.1', key + ':shear-y', where, 'radial wrap must shift y by %s; found %s' % (off, oy))
                    if len(ovy) != 1 or ovy[0][1] != sgn or not re.search(r'OMEGA\*(r\.)?boxsize\.x', ovy[0][2]) or '3' not in ovy[0][2]:
                        ctx.report('R15.1', key + ':shear-vy', where, 'radial wrap must change vy by %s 3/2 OMEGA boxsize.x; found %s' % (sgn, ovy))
                    if rest:
                        ctx.report('R15.1', key + ':shear-extra', where, 'radial wrap changes %s' % rest)
                elif others:
                    ctx.report('R15.1', key + ':extra', where, 'azimuthal/vertical wrap changes more than the wrapped coordinate: %s' % others)
            samples.append('%s: while %s -> %s' % (where, L['cond'], L['ups'][:1]))
        for comp in AX:
            for op in '<>':
                if (comp, op) not in seen:
                    ctx.report('R15.1', 'wrap:%s:%s%s:missing' % (case, comp, op), 'src/boundary.c reb_boundary_check (%s)' % case, 'no wrap loop for the %s face in %s' % ('upper' if op == '>' else 'lower', comp))
    # OPEN: removal iff outside one of the six half planes; loop compensation matches loop direction
    anchor('REB_BOUNDARY_OPEN' in cases, 'reb_boundary_check case REB_BOUNDARY_OPEN')
    loops = [x for node in cases['REB_BOUNDARY_OPEN'] for x in walk(node) if x.get('kind') == 'ForStmt']
    anchor(len(loops) == 1, 'open boundary: one loop over particles')
    loop = loops[0]
    tests = set()
    lv_ = None
    for d_ in walk(loop['inner'][0] or {}):
        if d_.get('kind') == 'VarDecl':
            lv_ = d_['name']
    anchor(lv_ is not None, 'loop variable of the open-boundary loop')
    # the six outside tests: comparisons of a coordinate of particle i with +-boxsize/2 anywhere in the loop (separate ifs,
    # one || chain, a flag initialiser ...). Each must pair the coordinate with its own box length and the right face.
    for cmp_ in walk(loop):
        if cmp_.get('kind') != 'BinaryOperator' or cmp_.get('opcode') not in ('<', '>'):
            continue
        c = _rs(cmp_, NV)
        m = re.match(r'^(?:r\.)?particles\[(\w+)\]\.([xyz])([<>])(-?)(?:r\.)?boxsize\.([xyz])/2(?:\.0?)?$', c)
        if m and m.group(1) == lv_:
            n += 1
            _, comp, op, neg, bcomp = m.groups()
            where = 'src/boundary.c:%s reb_boundary_check (OPEN)' % line_of(cmp_)
            if comp != bcomp or (op == '>') == bool(neg):
                ctx.report('R15.1', 'open:%s%s' % (comp, op), where, 'the outside test %s does not mark exactly the particles beyond the %s face of the box in %s' % (c, 'upper' if op == '>' else 'lower', comp))
            tests.add((comp, op))
    anchor(any(x.get('kind') == 'CallExpr' and callee_name(x) == 'reb_simulation_remove_particle' for x in walk(loop)), 'open boundary removes particles with reb_simulation_remove_particle')
    for comp in AX:
        for op in '<>':
            if (comp, op) not in tests:
                ctx.report('R15.1', 'open:%s%s:missing' % (comp, op), 'src/boundary.c reb_boundary_check (OPEN)', 'particles beyond the %s face in %s are not removed' % ('upper' if op == '>' else 'lower', comp))
    hdr = [render(x) if x and x.get('kind') else '' for x in loop['inner'][:4]]
    inc = hdr[3].replace(' ', '')
    ascending = inc in (lv_ + '++', '++' + lv_)
    comp_stmts = [e for e in walk(loop['inner'][-1]) if e.get('kind') == 'UnaryOperator' and e.get('opcode') == '--' and render(e['inner'][0]) == lv_]
    n += 1
    where = 'src/boundary.c:%s reb_boundary_check (OPEN)' % line_of(loop)
    if ascending and len(comp_stmts) != 1:
        ctx.report('R15.1', 'open:recheck', where, 'the loop runs forwards but does not re-examine slot i after a removal moved another particle into it: that particle is never tested')
    if not ascending and comp_stmts:
        ctx.report('R15.1', 'open:recheck', where, 'the loop runs backwards (%s) and still steps i back after a removal: slot i-1 is skipped and a particle outside the box survives the step' % inc)
    if ascending and comp_stmts:
        # the compensation only applies when the particle is removed at once (no tree)
        from . import pathcond
        cs = pathcond.conditions(fn).get(id(comp_stmts[0]), [])
        if not any(c.replace('(', '').replace(')', '') in ('!r.tree_root', 'r.tree_root==0', 'r.tree_root==void*0') for c in cs):
            ctx.report('R15.1', 'open:recheck:tree', where, 'the index compensation is applied even when a tree is in use (the particle is only flagged then)')
    # reb_boundary_particle_is_in_box tests the same six faces
    f2 = tu.func('reb_boundary_particle_is_in_box')
    faces = set()
    pname_ = [p_['name'] for p_ in cfront.params(f2) if 'reb_particle' in qtype(p_)]
    anchor(pname_, 'particle parameter of reb_boundary_particle_is_in_box')
    for cmp_ in walk(cfront.body(f2)):
        if cmp_.get('kind') == 'BinaryOperator' and cmp_.get('opcode') in ('<', '>'):
            c = render(cmp_).replace(' ', '')
            m = re.match(r'^\(%s\.([xyz])([<>])\(?(-?)\(?r\.boxsize\.([xyz])/2(?:\.0?)?\)*$' % re.escape(pname_[0]), c)
            if m and m.group(1) == m.group(4) and (m.group(2) == '>') != bool(m.group(3)):
                faces.add((m.group(1), m.group(2)))
    n += 1
    if len(faces) != 6:
        ctx.report('R15.1', 'is_in_box:faces', 'src/boundary.c reb_boundary_particle_is_in_box', 'only %d of the six box faces are tested' % len(faces))
    ctx.covered('R15.1', 'wrap loops (guard, face, shift, component agree), shear offsets, open-boundary face tests and loop compensation, is_in_box faces', n, floor=19, samples=samples[:4])


def rule_ghostbox(ctx):
    tu = cfront.load_tu('boundary.c')
    fn = tu.func('reb_boundary_get_ghostbox')
    stats = {'groups': 0, 'samples': []}
    x1.check_function(tu, fn, ctx.report, stats, 'R15.2')
    n = stats['groups']
    # shear stanza: differs from periodic only in gb.y (shift) and gb.vy
    vals = {}
    for comp, case in x1.compounds_with_case(cfront.body(fn)):
        for st in comp.get('inner', []):
            s = strip(st)
            if is_assign(s) and render(s['inner'][0]).startswith('gb.'):
                vals.setdefault(case, {})[render(s['inner'][0])] = render(s['inner'][1]).replace(' ', '')
    per, sh = vals.get('REB_BOUNDARY_PERIODIC', {}), vals.get('REB_BOUNDARY_SHEAR', {})
    anchor(per and sh, 'ghost-box cases PERIODIC and SHEAR')
    for k in sorted(set(per) | set(sh)):
        n += 1
        if k in ('gb.y', 'gb.vy'):
            continue
        if per.get(k) != sh.get(k):
            ctx.report('R15.2', 'ghostbox:shear:' + k, 'src/boundary.c reb_boundary_get_ghostbox', 'the shear-periodic image differs from the periodic one in %s (%s vs %s); only y and vy carry the shear' % (k, sh.get(k), per.get(k)))
    if 'shift' not in sh.get('gb.y', '') or 'boxsize.y*j' not in sh.get('gb.y', '').replace('r.', '').replace('(', '').replace(')', ''):
        ctx.report('R15.2', 'ghostbox:shear:y', 'src/boundary.c reb_boundary_get_ghostbox', 'shear image y is %s, expected boxsize.y*j - shift' % sh.get('gb.y'))
    if 'OMEGA' not in sh.get('gb.vy', '') or 'boxsize.x' not in sh.get('gb.vy', '') or '1.5' not in sh.get('gb.vy', ''):
        ctx.report('R15.2', 'ghostbox:shear:vy', 'src/boundary.c reb_boundary_get_ghostbox', 'shear image vy is %s, expected -1.5*i*OMEGA*boxsize.x' % sh.get('gb.vy'))
    ctx.covered('R15.2', 'ghost-box images: component isomorphism; shear differs from periodic only in y and vy', n, floor=10, samples=stats['samples'])


def rule_tree_geometry(ctx):
    tu = cfront.load_tu('tree.c')
    tp = cfront.load_tu('particle.c')
    n = 0
    samples = []
    # R15.3 octant encode <-> decode
    enc = {}
    f = tu.func('reb_reb_tree_get_octant_for_particle_in_cell')
    for ifs in walk(cfront.body(f)):
        if ifs.get('kind') == 'IfStmt':
            c = render(ifs['inner'][0]).replace(' ', '')
            m = re.match(r'^\(p\.([xyz])([<>]=?)node\.([xyz])\)$', c)
            adds = [(e['opcode'], render(e['inner'][1])) for e in walk(ifs['inner'][1]) if is_assign(e) and render(e['inner'][0]) == 'octant']
            if m and adds:
                n += 1
                comp, op, ncomp = m.groups()
                enc[comp] = (op, ncomp, adds[0])
    anchor(len(enc) == 3, 'octant encoder tests x, y and z')
    dec = {}
    f = tu.func('reb_tree_add_particle_to_cell')
    for e in walk(cfront.body(f)):
        if is_assign(e):
            lv = render(e['inner'][0]).replace(' ', '')
            m = re.match(r'^node\.([xyz])$', lv)
            rhs = render(e['inner'][1]).replace(' ', '')
            if m and 'o>>' in rhs:
                mm = re.search(r'\(\(\(o>>(\d)\)%2\)==0\)\?(-?[\d.]+):(-?[\d.]+)', rhs)
                pc = re.search(r'parent\.([xyz])', rhs)
                if mm and pc:
                    n += 1
                    dec[m.group(1)] = (int(mm.group(1)), float(mm.group(2)), float(mm.group(3)), pc.group(1), rhs)
    anchor(len(dec) == 3, 'child-cell geometry in reb_tree_add_particle_to_cell uses (o>>b)%2 for x, y and z')
    for comp in AX:
        op, ncomp, (aop, aval) = enc[comp]
        bit, v0, v1, pcomp, rhs = dec[comp]
        where = 'src/tree.c reb_reb_tree_get_octant_for_particle_in_cell / reb_tree_add_particle_to_cell'
        if ncomp != comp or pcomp != comp:
            ctx.report('R15.3', 'octant:%s:component' % comp, where, 'octant logic for %s compares with node.%s / places the child relative to parent.%s' % (comp, ncomp, pcomp))
        if aop != '+=' or aval != str(1 << bit):
            ctx.report('R15.3', 'octant:%s:bit' % comp, where, 'the encoder adds %s for %s but the child geometry reads bit %d (value %d)' % (aval, comp, bit, 1 << bit))
        lower_when_set = op in ('<', '<=')
        child_lower_when_set = v1 < 0 < v0
        if lower_when_set != child_lower_when_set:
            ctx.report('R15.3', 'octant:%s:side' % comp, where, 'bit set means p.%s %s node.%s but the child with that bit is placed on the %s side' % (comp, op, comp, 'lower' if child_lower_when_set else 'upper'))
        samples.append('%s: bit %d set iff p.%s %s node.%s; child centre parent.%s %s w/4' % (comp, bit, comp, op, comp, comp, '-' if child_lower_when_set else '+'))
    # R15.4 root box index: decided on values, not on the spelling of the index arithmetic - the index function and the
    # root-cell constructor are evaluated exactly on a family of layouts (unequal counts per axis, so mixed components and
    # wrong strides show) and points (faces, root-box borders, interior): valid index, same cell, cell contains the point
    from . import rootbox
    rootbox.rule_root_box_of_point(ctx, 'R15.4')
    ctx.covered('R15.3', 'octant encoder vs child-cell geometry (component, bit, side)', n, floor=6, samples=samples)


def rule_step_order(ctx):
    tu = cfront.load_tu('rebound.c')
    fn = tu.func('reb_simulation_step')
    seq = []
    for e in walk(cfront.body(fn)):
        if e.get('kind') == 'CallExpr':
            nm = callee_name(e)
            if nm in ('reb_boundary_check', 'reb_simulation_update_tree', 'reb_simulation_update_tree_gravity_data', 'reb_calculate_acceleration',
                      'reb_integrator_part1', 'reb_integrator_part2', 'reb_collision_search'):
                seq.append(nm)
    want = ['reb_integrator_part1', 'reb_boundary_check', 'reb_simulation_update_tree', 'reb_simulation_update_tree_gravity_data', 'reb_calculate_acceleration',
            'reb_integrator_part2', 'reb_boundary_check', 'reb_simulation_update_tree', 'reb_collision_search']
    n = len(seq)
    if seq != want:
        ctx.report('R15.5', 'step:order', 'src/rebound.c reb_simulation_step', 'a step is %s, expected %s: particles are wrapped/removed and the tree is updated before it is used by gravity and by the collision search' % (seq, want))
    f2 = cfront.load_tu('tree.c').func('reb_simulation_update_tree')
    n += 1
    if not any(is_assign(e) and render(e['inner'][0]) == 'r.tree_needs_update' and render(e['inner'][1]) == '0' for e in walk(cfront.body(f2))):
        ctx.report('R15.5', 'tree:needs_update', 'src/tree.c reb_simulation_update_tree', 'the update does not clear tree_needs_update')
    ctx.covered('R15.5', 'order of boundary check, tree update, gravity data, forces and collision search in a step', n, floor=9, samples=[str(seq)])


def rule_aggregation(ctx):
    tu = cfront.load_tu('tree.c')
    stats = {'groups': 0, 'samples': []}
    for name, fn in sorted(tu.funcs.items()):
        if cfront.basename(fn.get('_locfile') or fn.get('_file')) != 'tree.c':
            continue
        x1.check_function(tu, fn, ctx.report, stats, 'R15.6')
    tu2 = cfront.load_tu('rebound.c')
    for name in ('reb_simulation_configure_box', 'reb_simulation_init'):
        fn = tu2.funcs.get(name)
        anchor(fn is not None, 'function %s in rebound.c' % name)
        x1.check_function(tu2, fn, ctx.report, stats, 'R15.6')
    ctx.covered('R15.6', 'x/y/z statement triples in tree.c (cell mass / centre of mass aggregation, cell geometry) and of the box set-up (boxsize, root counts) are one formula under an axis permutation',
                stats['groups'], floor=10, samples=stats['samples'])


def rule_boundary_extent(ctx):
    """R15.8: boundary conditions act on positions. The loops of reb_boundary_check range over the real particles
    (r->N - r->N_var): variational particles are tangent vectors - wrapping them changes the variation, and the wrap
    loops `while (x > L/2) x -= L` do not terminate once a component exceeds ~2^53 box lengths."""
    from . import extents
    tu = cfront.load_tu('boundary.c')
    fn = tu.func('reb_boundary_check')
    n = 0
    samples = []
    loops = extents.particle_loops(fn)
    anchor(len(loops) >= 3, 'particle loops of reb_boundary_check (open, periodic, shear)')
    for f, var, bound, subs in loops:
        n += 1
        where = 'src/boundary.c:%s reb_boundary_check' % line_of(f)
        if bound != extents.REAL:
            ctx.report('R15.8', 'boundary_check:extent:%s' % bound, where,
                       'the boundary loop runs over %s, not over the real particles r->N - r->N_var: variational particles are wrapped (or removed) as if they were positions' % bound)
        else:
            samples.append('%s: loop over %s covers r->N - r->N_var' % (where, ','.join(subs)))
    ctx.covered('R15.8', 'boundary check loops cover the real particles only', n, floor=3, samples=samples)


def rule_axis_conditions(ctx, rule='R15.9', files=('tree.c', 'boundary.c', 'collision.c', 'gravity.c', 'particle.c', 'rebound.c', 'communication_mpi.c'), floor=2):
    """R15.9: geometric membership tests (particle inside cell, inside box, ghost box overlap) are one comparison per axis joined
    by || or &&: each such comparison occurs exactly once for x, y and z."""
    from . import x1
    n = 0
    for cfile in files:
        tu = cfront.load_tu(cfile)
        for fname in sorted(tu.funcs):
            fn = tu.func(fname)
            if cfront.body(fn) is None:
                continue
            n += x1.check_condition_triples(cfile, fn, ctx.report, rule)
    ctx.covered(rule, 'per-axis comparisons inside || / && chains occur once for each of x, y, z (%s)' % ', '.join(files), n, floor=floor)


def rule_cell_moments(ctx, rule='R15.10'):
    """R15.10: reb_simulation_update_tree_gravity_data_in_cell is called for every root cell and recursively for every
    daughter. (a) Called on a leaf it must take mass and position from the particle the leaf holds - a function that
    refreshes leaves only while visiting their parent leaves a root box holding exactly one particle at mass 0.
    (b) The centre of mass is a quotient by the accumulated cell mass, which is 0 for a cell of massless particles: every
    division by the accumulated mass is guarded by a test that it is positive (else NaN positions poison every walk)."""
    from . import pathcond, extents
    tu = cfront.load_tu('tree.c')
    fn = tu.func('reb_simulation_update_tree_gravity_data_in_cell')
    node = [p_['name'] for p_ in cfront.params(fn) if 'reb_treecell' in qtype(p_)]
    anchor(len(node) == 1, 'cell parameter of reb_simulation_update_tree_gravity_data_in_cell')
    node = node[0]
    pc = pathcond.conditions(fn)
    L = extents.lets(fn)
    n = 0
    # (a) leaf case of the cell itself
    leaf = []
    for e in walk(cfront.body(fn)):
        if is_assign(e) and e['opcode'] == '=' and render(e['inner'][0]) == node + '.m':
            rhs = extents.canon(extents.resolve(render(e['inner'][1]), L))
            if ('particles[%s.pt]' % node) in rhs:
                leaf.append(e)
    n += 1
    if not leaf:
        ctx.report(rule, 'cell-moments:leaf', 'src/tree.c %s' % fn['name'],
                   'the function never sets %s->m from the particle %s->pt: when it is called on a leaf (a root box holding a single particle, or a daughter leaf) the cell keeps its old mass - zero for a fresh cell - and the particle attracts nobody' % (node, node))
    else:
        for e in leaf:
            cs = [c.replace(' ', '') for c in pc.get(id(e), [])]
            if not any(('%s.pt' % node) in c for c in cs):
                ctx.report(rule, 'cell-moments:leaf:guard', 'src/tree.c:%s %s' % (line_of(e), fn['name']), 'the leaf case is not selected by a test of %s->pt' % node)
    # (b) divisions by the accumulated mass
    acc = {render(e['inner'][0]) for e in walk(cfront.body(fn)) if is_assign(e) and e['opcode'] == '+=' and render(e['inner'][0]).endswith('.m')}
    names = set(acc)
    for k_, v_ in L.items():
        if extents.canon(v_) in {extents.canon(a) for a in acc}:
            names.add(k_)
    for e in walk(cfront.body(fn)):
        div = None
        if is_assign(e) and e['opcode'] == '/=':
            div = render(e['inner'][1])
        elif e.get('kind') == 'BinaryOperator' and e.get('opcode') == '/':
            div = render(e['inner'][1])
        if div is None or div.strip('()') not in names:
            continue
        n += 1
        cs = [c.replace(' ', '').strip('()') for c in pc.get(id(e), [])]
        ok = any(c in ('%s>0' % d_, '%s>0.0' % d_, '0<%s' % d_, '%s!=0' % d_, d_) for c in cs for d_ in names)
        if not ok:
            ctx.report(rule, 'cell-moments:division:%s' % line_of(e), 'src/tree.c:%s %s' % (line_of(e), fn['name']),
                       'division by the accumulated cell mass %s without a test that it is positive (conditions: %s): a cell that holds only massless particles gets a NaN centre of mass, which every tree walk then adds to every acceleration' % (div, cs or 'none'))
    ctx.covered(rule, 'cell moments: leaf case of the visited cell itself; divisions by the accumulated mass are guarded', n, floor=4)


def rule_moments_every_time(ctx, rule='R15.12'):
    """R15.12: the leaves of the tree carry a copy of their particle's mass and position (the monopole the walk uses when it
    reaches a leaf). The copy is refreshed by reb_simulation_update_tree_gravity_data, which the step calls before every
    tree force evaluation; a leaf is re-created only when its particle leaves the cell, so nothing else keeps the copy
    current. The refresh therefore visits every root cell on every call: nothing but the MPI locality test may stand between
    the function's entry and the call of the per-cell routine (no early exit for "easy" parameter values)."""
    from . import pathcond
    tu = cfront.load_tu('tree.c')
    fn = tu.func('reb_simulation_update_tree_gravity_data')
    pc = pathcond.conditions(fn)
    calls = [e for e in walk(cfront.body(fn)) if e.get('kind') == 'CallExpr' and callee_name(e) == 'reb_simulation_update_tree_gravity_data_in_cell']
    anchor(calls, 'call of the per-cell refresh in reb_simulation_update_tree_gravity_data')
    n = 0
    for e in calls:
        n += 1
        cs = [c.replace(' ', '') for c in pc.get(id(e), [])]
        other = [c for c in cs if not re.search(r'tree_root\[|rootbox_is_local|N_root', c)]
        if other:
            ctx.report(rule, 'gravity-data:conditional', 'src/tree.c:%s reb_simulation_update_tree_gravity_data' % line_of(e),
                       'the refresh of the cells is skipped unless %s: the leaves keep the mass and position their particle had when the leaf was created, and the next force evaluation uses stale sources' % other)
    ctx.covered(rule, 'the monopole data of the tree is refreshed for every root cell on every call (conditions on the way: root cell exists / is local)', n, floor=1)


def rule_update_when_flagged(ctx, rule='R15.11'):
    """R15.11: reb_boundary_check and reb_simulation_remove_particle only *flag* work for the tree (tree_needs_update = 1;
    a particle that left an open box is marked and physically removed by the next tree update). Every tree update in
    reb_simulation_step is therefore reached whenever the flag is raised: each condition on the way to the call is the flag
    itself or a disjunction that contains it - never a conjunction with something else (a module test, "the collision
    search will do it"), which leaves flagged particles in the arrays for the rest of the step."""
    from . import pathcond
    tu = cfront.load_tu('rebound.c')
    fn = tu.func('reb_simulation_step')
    pc = pathcond.conditions(fn)
    n = 0

    def conjuncts(c):
        c = c.replace(' ', '')
        out, depth, cur = [], 0, ''
        i = 0
        while i < len(c):
            ch = c[i]
            if ch == '(':
                depth += 1
            elif ch == ')':
                depth -= 1
            if depth <= 1 and c[i:i + 2] == '&&' and (depth == 0 or (c.startswith('(') and c.endswith(')') and depth == 1)):
                out.append(cur)
                cur = ''
                i += 2
                continue
            cur += ch
            i += 1
        out.append(cur)
        return out
    for e in walk(cfront.body(fn)):
        if e.get('kind') == 'CallExpr' and callee_name(e) == 'reb_simulation_update_tree':
            n += 1
            for c in pc.get(id(e), []):
                for cj in conjuncts(c):
                    if 'tree_needs_update' not in cj:
                        ctx.report(rule, 'step:update_tree:%s' % line_of(e), 'src/rebound.c:%s reb_simulation_step' % line_of(e),
                                   'the tree update is only reached if %s holds in addition to the flag: particles flagged by the boundary check (or by a removal) stay in the particle array - N is too large and the flagged particle (y = NaN) takes part in direct collision searches and force sums' % cj.strip('()'))
    anchor(n >= 2, 'calls of reb_simulation_update_tree in reb_simulation_step')
    ctx.covered(rule, 'tree updates in reb_simulation_step are reached whenever tree_needs_update is raised', n, floor=2)


def rule_leaf_occupancy(ctx, rule='R15.13'):
    """R15.13: every particle of the array is the occupant of exactly one leaf, and the tree update finds particles (also the
    ones flagged for removal) only through their leaf. In reb_tree_add_particle_to_cell a leaf's occupant `node->pt` is
    therefore set to the new particle only in a freshly allocated cell; an occupied leaf is split (both particles handed
    down, pt set to the interior count) - its occupant is never simply replaced, which would orphan the old particle: it
    stays in the array for ever, N is one too large and its hash is still found."""
    from . import pathcond
    tu = cfront.load_tu('tree.c')
    fn = tu.func('reb_tree_add_particle_to_cell')
    ps = cfront.params(fn)
    node = [p_['name'] for p_ in ps if 'reb_treecell' in qtype(p_)]
    idx = [p_['name'] for p_ in ps if qtype(p_).strip() in ('int', 'const int')]
    anchor(node and idx, 'cell and particle-index parameters of reb_tree_add_particle_to_cell')
    node, pt = node[0], idx[0]
    pc = pathcond.conditions(fn)
    n = 0
    for e in walk(cfront.body(fn)):
        if is_assign(e) and e['opcode'] == '=' and render(e['inner'][0]).replace(' ', '') == node + '.pt' and render(e['inner'][1]).replace(' ', '').strip('()') == pt:
            n += 1
            cs = [c.replace(' ', '') for c in pc.get(id(e), [])]
            fresh = any(re.match(r'^\(?%s==(0|NULL|\(\(void\*\)0\))\)?$' % re.escape(node), c) or c in ('(!%s)' % node, '!%s' % node) for c in cs)
            if not fresh:
                ctx.report(rule, 'tree:add:replace', 'src/tree.c:%s reb_tree_add_particle_to_cell' % line_of(e),
                           'the occupant of an existing cell is replaced by the new particle (conditions: %s): the particle that sat in the leaf is no longer reachable from the tree, so the tree update never moves, re-inserts or removes it again' % cs)
    anchor(n >= 1, 'a new cell takes the particle as its occupant (node->pt = pt)')
    ctx.covered(rule, 'a leaf\'s occupant is set only in a freshly allocated cell', n, floor=1)


def run(ctx):
    from . import c13 as _c13
    _c13.rule_components(ctx)     # R13.5: ghost rings of the tree searches are taken per axis
    from . import protocol
    protocol.rule_root_loops(ctx, 'R02.13')
    from . import edges
    edges.rule_box_face_strictness(ctx, 'R15.14')    # a particle on a face of the box is inside, for every test
    edges.rule_threshold_siblings(ctx, 'R01.13')     # one quantity, one literal, one line: leaf test of tree cells
    rule_leaf_occupancy(ctx)
    rule_update_when_flagged(ctx)
    rule_moments_every_time(ctx)
    from . import c02 as _c02
    _c02.rule_components(ctx)             # R02.2: ghost-box image loops of every gravity routine treat the three axes alike
    rule_cell_moments(ctx)
    rule_axis_conditions(ctx)
    serial.rule_R05_2(ctx)                 # the box and root-grid geometry of a restored simulation: each descriptor row designates the member it names
    rule_boundary_extent(ctx)
    rule_wrap(ctx)
    rule_ghostbox(ctx)
    rule_tree_geometry(ctx)
    rule_step_order(ctx)
    rule_aggregation(ctx)
    serial.rule_tree_predicate(ctx, 'R15.7')
    ctx.not_decided.append('"each particle sits in exactly one leaf whose cell contains it" under incremental updates (needs shape analysis of a pointer-linked octree with swap-removal); '
                           'cell sums equal the sums over their contents for every tree shape')
