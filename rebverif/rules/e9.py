"""E9 - homogeneity / dimension typing of double-valued expressions (abstract interpretation over exponent vectors).

Every expression gets a vector of exponents (L, T, M); G is (3,-2,-1). Non-zero literals are dimensionless, the literal
0 is polymorphic; * and / add and subtract exponents, sqrt/cbrt divide them, + - and ?: unify, arguments of
transcendental functions must be dimensionless. Locals take the dimension of their initialiser. Only genuine clashes
are reported: the two sides of + / - / += / -=, a comparison between two dimensioned quantities, a transcendental
argument with a dimension, and an argument passed to an annotated parameter with another dimension."""
from fractions import Fraction as Fr

from ..core import AnalysisError
from .. import cfront
from ..cfront import strip, walk, render, qtype, callee_name, call_args, is_assign, line_of

ANY = 'ANY'      # polymorphic (literal zero)
UNK = None       # not inferred


def D(l=0, t=0, m=0):
    return (Fr(l), Fr(t), Fr(m))


ONE = D()
L_, T_, M_ = D(1), D(0, 1), D(0, 0, 1)
V_, A_ = D(1, -1), D(1, -2)
G_ = D(3, -2, -1)
GM_ = D(3, -2, 0)

FIELD = {'x': L_, 'y': L_, 'z': L_, 'vx': V_, 'vy': V_, 'vz': V_, 'ax': A_, 'ay': A_, 'az': A_, 'm': M_, 'r': L_, 'G': G_, 'softening': L_,
         't': T_, 'dt': T_, 'dt_last_done': T_}


def mul(a, b):
    if a is UNK or b is UNK:
        return UNK
    if a == ANY or b == ANY:
        return ANY
    return tuple(x + y for x, y in zip(a, b))


def div(a, b):
    if a is UNK or b is UNK:
        return UNK
    if a == ANY:
        return ANY
    if b == ANY:
        return UNK
    return tuple(x - y for x, y in zip(a, b))


def root(a, n):
    if a in (ANY, UNK):
        return a
    return tuple(x / n for x in a)


def fmt(d):
    if d in (ANY, UNK):
        return str(d)
    names = ('L', 'T', 'M')
    s = ' '.join('%s^%s' % (n, v) for n, v in zip(names, d) if v != 0)
    return s or 'dimensionless'


class Typer:
    def __init__(self, fn, params=None, names=None, arrays=None, callee_params=None, funcs_ret=None):
        """params/names: {identifier: dim}; arrays: {(array name, index): dim}; callee_params: {callee: [dim or None per arg]}."""
        self.fn = fn
        self.env = dict(names or {})
        self.env.update(params or {})
        self.arrays = arrays or {}
        self.callee_params = callee_params or {}
        self.funcs_ret = funcs_ret or {}
        self.conflicts = []     # (line, what, a, b, text)
        self.checked = 0
        self.unknown = 0

    def unify(self, a, b, node, what):
        if a is UNK or b is UNK:
            self.unknown += 1
            return a if b is UNK else b
        if a == ANY:
            return b
        if b == ANY:
            return a
        self.checked += 1
        if a != b:
            self.conflicts.append((line_of(node), what, fmt(a), fmt(b), render(node)[:110]))
            return a
        return a

    def ev(self, n):
        n = strip(n)
        k = n.get('kind')
        if k == 'FloatingLiteral':
            try:
                return ANY if float(n['value']) == 0 else ONE
            except ValueError:
                return ONE
        if k == 'IntegerLiteral':
            return ANY if int(n['value']) == 0 else ONE
        if k == 'DeclRefExpr':
            nm = n['referencedDecl']['name']
            if nm in self.env:
                return self.env[nm]
            ty = qtype(n)
            if ('int' in ty or 'unsigned' in ty) and '*' not in ty and '[' not in ty:
                return ONE
            return UNK
        if k == 'MemberExpr':
            nm = n['name']
            bt = qtype(strip(n['inner'][0]))
            if 'reb_particle' in bt or 'reb_simulation' in bt or 'reb_vec6d' in bt or 'reb_treecell' in bt:
                if nm in FIELD:
                    return FIELD[nm]
                return ONE if 'double' not in qtype(n) else UNK
            return UNK
        if k == 'ArraySubscriptExpr':
            base = strip(n['inner'][0])
            idx = strip(n['inner'][1])
            if base.get('kind') == 'DeclRefExpr' and idx.get('kind') == 'IntegerLiteral':
                key = (base['referencedDecl']['name'], int(idx['value']))
                if key in self.arrays:
                    return self.arrays[key]
            if base.get('kind') == 'DeclRefExpr' and (base['referencedDecl']['name'], '*') in self.arrays:
                return self.arrays[(base['referencedDecl']['name'], '*')]
            return self.ev(n['inner'][0]) if base.get('kind') != 'DeclRefExpr' else UNK
        if k == 'UnaryOperator':
            if n['opcode'] in ('-', '+'):
                return self.ev(n['inner'][0])
            if n['opcode'] == '!':
                return ONE
            return self.ev(n['inner'][0])
        if k == 'CStyleCastExpr':
            return self.ev(n['inner'][0])
        if k == 'BinaryOperator':
            o = n['opcode']
            a = self.ev(n['inner'][0])
            b = self.ev(n['inner'][1])
            if o == '*':
                return mul(a, b)
            if o == '/':
                return div(a, b)
            if o in ('+', '-'):
                return self.unify(a, b, n, 'the two sides of %s' % o)
            if o in ('<', '>', '<=', '>=', '==', '!='):
                # a comparison with a bare literal (tolerances, thresholds) is not a dimensional statement
                la, lb = strip(n['inner'][0]).get('kind'), strip(n['inner'][1]).get('kind')
                if 'Literal' not in (la or '') and 'Literal' not in (lb or ''):
                    self.unify(a, b, n, 'the two sides of the comparison %s' % o)
                return ONE
            return ONE
        if k == 'ConditionalOperator':
            self.ev(n['inner'][0])
            a = self.ev(n['inner'][1])
            b = self.ev(n['inner'][2])
            return self.unify(a, b, n, 'the two branches of ?:')
        if k == 'CallExpr':
            nm = callee_name(n)
            args = [self.ev(x) for x in call_args(n)]
            if nm == 'sqrt':
                return root(args[0], 2)
            if nm == 'cbrt':
                return root(args[0], 3)
            if nm in ('fabs', 'fastabs', 'floor', 'ceil', 'copysign', 'fmod', '__builtin_fabs'):
                return args[0] if args else UNK
            if nm in ('sin', 'cos', 'tan', 'exp', 'log', 'acos', 'asin', 'atan', 'tanh', 'sinh', 'cosh'):
                if args and args[0] not in (ANY, UNK):
                    self.unify(args[0], ONE, n, 'the argument of %s()' % nm)
                return ONE
            if nm in self.callee_params:
                for i, (want, got) in enumerate(zip(self.callee_params[nm], args)):
                    if want is not None:
                        self.unify(got, want, call_args(n)[i], 'argument %d of %s (declared %s)' % (i + 1, nm, fmt(want)))
            if nm in self.funcs_ret:
                return self.funcs_ret[nm]
            return UNK
        return UNK

    def run(self, node=None):
        node = node or cfront.body(self.fn)
        self._stmt(node)
        return self

    def _stmt(self, st):
        k = st.get('kind')
        if k == 'DeclStmt':
            for d in st.get('inner', []):
                if d.get('kind') != 'VarDecl':
                    continue
                ty = qtype(d)
                init = [x for x in d.get('inner', []) if x.get('kind') not in ('FullComment',)]
                if d['name'] in self.env and d['name'] in getattr(self, 'pinned', ()):
                    continue
                if init and 'init' in d and 'double' in ty and '*' not in ty and '[' not in ty:
                    v = self.ev(init[-1])
                    self.env[d['name']] = v
                elif init and 'init' in d and ('int' in ty) and '*' not in ty and '[' not in ty:
                    self.ev(init[-1])
                    self.env[d['name']] = ONE
                elif 'double' in ty and '*' not in ty and '[' not in ty:
                    self.env.setdefault(d['name'], ANY)
            return
        s = strip(st) if k in ('ParenExpr', 'ImplicitCastExpr') else st
        if is_assign(s):
            l = strip(s['inner'][0])
            r = self.ev(s['inner'][1])
            o = s['opcode']
            lv = self.ev(l)
            if l.get('kind') == 'DeclRefExpr' and 'double' in qtype(l) and '*' not in qtype(l):
                nm = l['referencedDecl']['name']
                if o == '=':
                    if lv in (ANY, UNK) or nm not in self.env:
                        self.env[nm] = r
                    else:
                        self.env[nm] = self.unify(lv, r, s, 'assignment to %s (previously %s)' % (nm, fmt(lv)))
                elif o in ('+=', '-='):
                    self.env[nm] = self.unify(lv, r, s, 'accumulation into %s' % nm)
                elif o == '*=':
                    self.env[nm] = mul(lv, r)
                elif o == '/=':
                    self.env[nm] = div(lv, r)
            else:
                if o in ('=', '+=', '-='):
                    self.unify(lv, r, s, 'the store %s' % o)
                # *= and /= on stored members: scale factor must be dimensionless only if the member is annotated; skip
            return
        for ch in st.get('inner', []) or []:
            if not isinstance(ch, dict):
                continue
            ck = ch.get('kind', '')
            if ck.endswith('Stmt') or ck in ('CompoundStmt',):
                self._stmt(ch)
            elif is_assign(strip(ch)):
                self._stmt(strip(ch))
            else:
                try:
                    self.ev(ch)
                except Exception:
                    pass
