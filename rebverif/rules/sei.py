"""SEI: the epicycle operator H012 summarised algebraically (E8) and compared with its specification.

(a) reversibility: H012 with (-dt, -sin, -tan) applied after H012 with (dt, sin, tan) is the identity as a rational map -
    true for the three-shear form whatever sin/tan are, false as soon as one shear uses a stale variable;
(b) exactness: with sin = sin(-OMEGA dt/2), tan = tan(-OMEGA dt/4) the map is the flow of Hill's equations over dt/2:
    it is the identity at dt = 0 and its derivative with respect to the elapsed time is the Hill vector field."""
from ..core import AnalysisError, anchor
from .. import cfront
from . import e8 as E8mod


def summary():
    import sympy as sp
    tus = cfront.load_tus(['integrator_sei.c'])
    e = E8mod.E8(tus)
    anchor('operator_H012' in e.funcs, 'operator_H012 in integrator_sei.c')
    anchor('struct reb_integrator_sei' in e.fields, 'struct reb_integrator_sei')
    return e


def apply(e, p, ri, dt):
    q = dict(p)
    e.call('operator_H012', [dt, ri, q])
    return q


def rule_reversible(ctx, rule):
    import sympy as sp
    e = summary()
    p = e.sym_struct('p', 'struct reb_particle')
    names = ('OMEGA', 'OMEGAZ', 'sindt', 'tandt', 'sindtz', 'tandtz')
    ri = {f: sp.Integer(0) for f in e.fields['struct reb_integrator_sei']}
    S = {k: sp.Symbol(k, real=True) for k in names}
    ri.update(S)
    dt = sp.Symbol('dt', real=True)
    try:
        q = apply(e, p, ri, dt)
        rb = dict(ri)
        for k in ('sindt', 'tandt', 'sindtz', 'tandtz'):
            rb[k] = -S[k]
        back = apply(e, q, rb, -dt)
    except E8mod.NotSummarisable as ex:
        raise AnalysisError('%s: operator_H012 is no longer summarisable: %s' % (rule, ex))
    n = 0
    samples = []
    for comp in ('x', 'y', 'z', 'vx', 'vy', 'vz'):
        n += 1
        res = sp.simplify(sp.together(back[comp] - p[comp]))
        if res != 0:
            ctx.report(rule, 'H012:reverse:' + comp, 'src/integrator_sei.c operator_H012',
                       'H012(-dt) after H012(dt) does not return %s: residual %s - the shear sequence is not its own inverse under dt -> -dt, the scheme is not time-reversible (nor area preserving)' % (comp, str(res)[:160]))
        else:
            samples.append('H012(-dt) o H012(dt) restores %s identically' % comp)
    # area preservation of the two 2x2 rotations
    for pair in (('z', 'vz'), ('x', 'vx', 'y', 'vy')):
        n += 1
        vars_ = [p[c] for c in pair]
        J = sp.Matrix([[sp.diff(q[c], v) for v in vars_] for c in pair])
        det = sp.simplify(J.det())
        if det != 1:
            ctx.report(rule, 'H012:det:' + pair[0], 'src/integrator_sei.c operator_H012', 'the Jacobian determinant of the (%s) map is %s, not 1: phase-space volume is not preserved' % (','.join(pair), str(det)[:120]))
    ctx.covered(rule, 'SEI epicycle operator: inverse under dt -> -dt component by component; unit Jacobian of the vertical and horizontal maps', n, floor=8, samples=samples[:3])


def rule_exact(ctx, rule):
    import sympy as sp
    e = summary()
    p = e.sym_struct('p', 'struct reb_particle')
    O, Oz, h = sp.symbols('OMEGA OMEGAZ h', positive=True)
    ri = {f: sp.Integer(0) for f in e.fields['struct reb_integrator_sei']}
    ri.update({'OMEGA': O, 'OMEGAZ': Oz, 'sindt': sp.sin(-O * h), 'tandt': sp.tan(-O * h / 2), 'sindtz': sp.sin(-Oz * h), 'tandtz': sp.tan(-Oz * h / 2)})
    try:
        q = apply(e, p, ri, 2 * h)
    except E8mod.NotSummarisable as ex:
        raise AnalysisError('%s: operator_H012 is no longer summarisable: %s' % (rule, ex))
    # the constants the init routine stores: sin(OMEGA*(-dt/2)), tan(OMEGA*(-dt/4))
    tu = cfront.load_tu('integrator_sei.c')
    from .. import normal
    init = normal.dealiased(tu.func('reb_integrator_sei_init'))     # ri = &(r->ri_sei), dt = r->dt read as what they name
    dts = sp.Symbol('dt', real=True)
    env = {'r': {'ri_sei': {'OMEGA': O, 'OMEGAZ': Oz}, 'dt': dts}}
    want = {'sindt': sp.sin(-O * dts / 2), 'tandt': sp.tan(-O * dts / 4), 'sindtz': sp.sin(-Oz * dts / 2), 'tandtz': sp.tan(-Oz * dts / 4)}
    n = 0
    seen = set()
    for a in cfront.walk(cfront.body(init)):
        if cfront.is_assign(a):
            lv = cfront.render(a['inner'][0])
            k = lv.split('.')[-1]
            if lv.startswith('r.ri_sei.') and k in want:
                n += 1
                seen.add(k)
                try:
                    g = e.ev(a['inner'][1], env, 'reb_integrator_sei_init')
                except E8mod.NotSummarisable as ex:
                    raise AnalysisError('%s: initialiser of %s not summarisable: %s' % (rule, lv, ex))
                if sp.simplify(g - want[k]) != 0:
                    ctx.report(rule, 'sei:init:' + k, 'src/integrator_sei.c:%s reb_integrator_sei_init' % cfront.line_of(a),
                               '%s is initialised with %s; the epicycle operator is exact only with %s' % (lv, g, want[k]))
    anchor(seen == set(want), 'initialisers of sindt, tandt, sindtz, tandtz in reb_integrator_sei_init')
    field = {'x': q['vx'], 'y': q['vy'], 'z': q['vz'],
             'vx': 2 * O * q['vy'] + 3 * O ** 2 * q['x'], 'vy': -2 * O * q['vx'], 'vz': -Oz ** 2 * q['z']}
    samples = []
    for comp in ('x', 'y', 'z', 'vx', 'vy', 'vz'):
        n += 2
        at0 = sp.simplify(q[comp].subs(h, 0) - p[comp])
        res = sp.simplify(sp.diff(q[comp], h) - field[comp])
        if res != 0:
            res = sp.simplify(sp.expand_trig(sp.expand(res)))
        if res != 0:
            worst = E8mod.zero_test(res, n=4, seed=1)
            if worst < 1e-25:
                res = 0
        if at0 != 0:
            ctx.report(rule, 'H012:identity:' + comp, 'src/integrator_sei.c operator_H012', 'at dt = 0 the operator changes %s by %s' % (comp, str(at0)[:120]))
        if res != 0:
            ctx.report(rule, 'H012:flow:' + comp, 'src/integrator_sei.c operator_H012',
                       'd/dt of the new %s is not the Hill vector field (x\'\' = 2 OMEGA vy + 3 OMEGA^2 x, y\'\' = -2 OMEGA vx, z\'\' = -OMEGAZ^2 z): residual %s - H0 is not solved exactly' % (comp, str(res)[:140]))
        else:
            samples.append('d(%s)/dt equals the Hill vector field identically' % comp)
    ctx.covered(rule, 'SEI epicycle operator is the exact flow of Hill\'s equations (identity at dt=0, derivative equals the vector field), with the constants stored by the init routine', n, floor=16, samples=samples[:3])
