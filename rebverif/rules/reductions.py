"""Reductions: scalars accumulated over a particle loop and the summands they are built from.

A loop `for (i...) { s += f(i); }` denotes s = sum_i f(i). Two facts are decided here:
 - completeness: a scalar accumulated in a loop may not be read by another statement of the same loop (it would see a
   partial sum) - the totals used in a formula must come from a loop that has finished;
 - the summands: the statements `acc.c += term` of a loop add up, per component, to a closed-form summand that can be
   compared with a specification (sympy identity)."""
import re

from ..core import AnalysisError, anchor
from .. import cfront
from ..cfront import walk, strip, render, line_of, is_assign, toks, qtype


def loops(fn):
    return [f for f in walk(cfront.body(fn)) if f.get('kind') == 'ForStmt']


def body_statements(f):
    b = f['inner'][-1]
    items = b.get('inner', []) if b.get('kind') == 'CompoundStmt' else [b]
    return [strip(s) for s in items]


def accumulations(f):
    """[(lvalue text, op, rhs node, line)] of the += / -= statements directly in the loop body."""
    out = []
    for s in body_statements(f):
        if is_assign(s) and s['opcode'] in ('+=', '-='):
            out.append((render(s['inner'][0]), s['opcode'], s['inner'][1], line_of(s)))
    return out


def partial_sum_reads(f):
    """[(scalar, line of the read)] - scalars accumulated in this loop and read by another statement of it."""
    acc = {}
    for lv, op, rhs, line in accumulations(f):
        if re.match(r'^[A-Za-z_]\w*$', lv):
            acc.setdefault(lv, line)
    out = []
    for s in body_statements(f):
        if not is_assign(s):
            continue
        lv = render(s['inner'][0])
        for e in walk(s['inner'][1]):
            if e.get('kind') == 'DeclRefExpr' and e['referencedDecl'].get('name') in acc and e['referencedDecl']['name'] != lv:
                out.append((e['referencedDecl']['name'], line_of(s)))
    return out


def to_expr(t, leaf):
    """token tree -> sympy; leaf(text) maps an access path to a symbol (raises KeyError if unknown)."""
    import sympy as sp
    k = t[0]
    if k == 'lit':
        return sp.nsimplify(t[1], rational=True)
    if k in ('id', 'mem', 'idx'):
        return leaf(render(t).replace(' ', ''))
    if k == 'bin':
        a, b = to_expr(t[2], leaf), to_expr(t[3], leaf)
        return {'+': lambda: a + b, '-': lambda: a - b, '*': lambda: a * b, '/': lambda: a / b}[t[1]]()
    if k == 'un' and t[1] == '-':
        return -to_expr(t[2], leaf)
    if k == 'cast':
        return to_expr(t[2], leaf)
    raise KeyError('expression ' + k)


def summand(f, target, leaf):
    """sum of the terms added to `target` in loop f (sign adjusted), as sympy."""
    import sympy as sp
    tot = sp.Integer(0)
    k = 0
    for lv, op, rhs, line in accumulations(f):
        if lv.replace(' ', '') != target:
            continue
        e = to_expr(toks(rhs), leaf)
        tot += e if op == '+=' else -e
        k += 1
    return tot, k
