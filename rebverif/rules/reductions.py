"""Reductions: scalars accumulated over a particle loop and the summands they are built from.

A loop `for (i...) { s += f(i); }` denotes s = sum_i f(i). Two facts are decided here:
 - completeness: a scalar accumulated in a loop may not be read by another statement of the same loop (it would see a
   partial sum) - the totals used in a formula must come from a loop that has finished;
 - the summands: the statements `acc.c += term` of a loop add up, per component, to a closed-form summand that can be
   compared with a specification (sympy identity)."""
import re

from ..core import AnalysisError, anchor
from .. import cfront
from ..cfront import walk, strip, render, line_of, is_assign, toks, qtype


def loops(fn):
    return [f for f in walk(cfront.body(fn)) if f.get('kind') == 'ForStmt']


def body_statements(f):
    b = f['inner'][-1]
    items = b.get('inner', []) if b.get('kind') == 'CompoundStmt' else [b]
    return [strip(s) for s in items]


def accumulations(f):
    """[(lvalue text, op, rhs node, line)] of the += / -= statements directly in the loop body."""
    out = []
    for s in body_statements(f):
        if is_assign(s) and s['opcode'] in ('+=', '-='):
            out.append((render(s['inner'][0]), s['opcode'], s['inner'][1], line_of(s)))
    return out


def body_lets(f):
    """{name: initialiser node} of the locals declared directly in the loop body (const double w = ...; struct copies)"""
    b = f['inner'][-1]
    items = b.get('inner', []) if b.get('kind') == 'CompoundStmt' else [b]
    out = {}
    for st in items:
        if st.get('kind') == 'DeclStmt':
            for d in st.get('inner', []):
                if d.get('kind') == 'VarDecl' and 'init' in d:
                    init = [c for c in d.get('inner', []) if c.get('kind') not in ('FullComment',)]
                    if init:
                        out[d['name']] = init[-1]
    return out


def partial_sum_reads(f):
    """[(scalar, line of the read)] - scalars accumulated in this loop and read by another statement of it, directly or through
    a local of the loop body that was computed from them."""
    acc = {}
    for lv, op, rhs, line in accumulations(f):
        if re.match(r'^[A-Za-z_]\w*$', lv):
            acc.setdefault(lv, line)
    lets = body_lets(f)
    via = {}          # body local -> accumulated scalar it was computed from
    changed = True
    while changed:
        changed = False
        for nm, init in lets.items():
            if nm in via:
                continue
            for e in walk(init):
                if e.get('kind') == 'DeclRefExpr':
                    r_ = e['referencedDecl'].get('name')
                    if r_ in acc or r_ in via:
                        via[nm] = acc and (r_ if r_ in acc else via[r_])
                        changed = True
                        break
    out = []
    for s in body_statements(f):
        if not is_assign(s):
            continue
        lv = render(s['inner'][0])
        for e in walk(s['inner'][1]):
            if e.get('kind') == 'DeclRefExpr':
                r_ = e['referencedDecl'].get('name')
                if r_ in acc and r_ != lv:
                    out.append((r_, line_of(s)))
                elif r_ in via and via[r_] != lv:
                    out.append((via[r_], line_of(s)))
    return out


def to_expr(t, leaf):
    """token tree -> sympy; leaf(text) maps an access path to a symbol (raises KeyError if unknown)."""
    import sympy as sp
    k = t[0]
    if k == 'lit':
        return sp.nsimplify(t[1], rational=True)
    if k in ('id', 'mem', 'idx'):
        txt = render(t).replace(' ', '')
        lets = getattr(leaf, 'lets', None)
        if lets:
            if k == 'id' and txt in lets:
                return to_expr(toks(lets[txt]), leaf)
            m = re.match(r'^([A-Za-z_]\w*)\.(\w+)$', txt)
            if k == 'mem' and m and m.group(1) in lets:
                base = render(strip(lets[m.group(1)], casts=True)).replace(' ', '')
                while base.startswith('(') and base.endswith(')'):
                    base = base[1:-1]
                return leaf('%s.%s' % (base, m.group(2)))
        return leaf(txt)
    if k == 'bin':
        a, b = to_expr(t[2], leaf), to_expr(t[3], leaf)
        return {'+': lambda: a + b, '-': lambda: a - b, '*': lambda: a * b, '/': lambda: a / b}[t[1]]()
    if k == 'un' and t[1] == '-':
        return -to_expr(t[2], leaf)
    if k == 'cast':
        return to_expr(t[2], leaf)
    raise KeyError('expression ' + k)


def summand(f, target, leaf):
    """sum of the terms added to `target` in loop f (sign adjusted), as sympy."""
    import sympy as sp
    tot = sp.Integer(0)
    k = 0
    try:
        lets = dict(getattr(leaf, 'outer_lets', {}) or {})
        lets.update(body_lets(f))
        leaf.lets = lets
    except AttributeError:
        pass
    for lv, op, rhs, line in accumulations(f):
        if lv.replace(' ', '') != target:
            continue
        e = to_expr(toks(rhs), leaf)
        tot += e if op == '+=' else -e
        k += 1
    return tot, k


def function_lets(fn):
    """{name: initialiser node} of the scalar locals of a function that are never assigned again (names for a value)"""
    mutated = {render(e['inner'][0]) for e in walk(cfront.body(fn)) if is_assign(e)}
    mutated |= {render(x['inner'][0]) for x in walk(cfront.body(fn)) if x.get('kind') == 'UnaryOperator' and x.get('opcode') in ('++', '--')}
    out = {}
    for d in walk(cfront.body(fn)):
        if d.get('kind') == 'VarDecl' and 'init' in d and d.get('name') not in mutated and 'double' in qtype(d) and '*' not in qtype(d):
            init = [c for c in d.get('inner', []) if c.get('kind') not in ('FullComment',)]
            if init:
                out.setdefault(d['name'], init[-1])
    return out


def loop_var(f):
    i0 = f['inner'][0]
    if i0 and i0.get('kind') == 'DeclStmt':
        for d in i0.get('inner', []):
            if d.get('kind') == 'VarDecl':
                return d['name']
    if i0 and is_assign(strip(i0)):
        return render(strip(i0)['inner'][0])
    return None


def invariant_accumulator_reads(f):
    """[(accumulator text, line)] - lvalues accumulated with += / -= in this loop that do not depend on the loop variable
    (a scalar, or a fixed element such as particles[0].ax) and are read by another statement of the same loop body, directly
    or through a local of the body computed from them: that statement sees a partial sum."""
    iv = loop_var(f)
    stmts = []

    def collect(node):
        b = node
        items = b.get('inner', []) if b.get('kind') == 'CompoundStmt' else [b]
        for st in items:
            if st.get('kind') == 'CompoundStmt':
                collect(st)
            elif st.get('kind') == 'IfStmt':
                for br in st['inner'][1:]:
                    if br.get('kind'):
                        collect(br)
                stmts.append(('cond', st['inner'][0]))
            elif st.get('kind') in ('ForStmt', 'WhileStmt', 'DoStmt'):
                continue          # inner loops are visited on their own
            else:
                stmts.append(('stmt', st))
    collect(f['inner'][-1])
    acc = {}
    for kind, st in stmts:
        s_ = strip(st)
        if kind == 'stmt' and is_assign(s_) and s_['opcode'] in ('+=', '-='):
            lv = render(s_['inner'][0]).replace(' ', '')
            uses_iv = iv is not None and any(x.get('kind') == 'DeclRefExpr' and x['referencedDecl'].get('name') == iv for x in walk(s_['inner'][0]))
            if not uses_iv:
                acc.setdefault(lv, line_of(s_))
    if not acc:
        return []

    def reads_acc(e):
        for x in walk(e):
            if x.get('kind') in ('MemberExpr', 'DeclRefExpr', 'ArraySubscriptExpr'):
                t = render(x).replace(' ', '')
                if t in acc:
                    return t
        return None
    via = {}
    out = []
    for kind, st in stmts:
        if kind == 'cond':
            continue
        if st.get('kind') == 'DeclStmt':
            for d in st.get('inner', []):
                if d.get('kind') == 'VarDecl' and 'init' in d:
                    init = [c for c in d.get('inner', []) if c.get('kind') not in ('FullComment',)]
                    if init:
                        a = reads_acc(init[-1])
                        if a is None:
                            for x in walk(init[-1]):
                                if x.get('kind') == 'DeclRefExpr' and x['referencedDecl'].get('name') in via:
                                    a = via[x['referencedDecl']['name']]
                        if a:
                            via[d['name']] = a
            continue
        s_ = strip(st)
        if not is_assign(s_):
            continue
        lv = render(s_['inner'][0]).replace(' ', '')
        a = reads_acc(s_['inner'][1])
        if a is None:
            for x in walk(s_['inner'][1]):
                if x.get('kind') == 'DeclRefExpr' and x['referencedDecl'].get('name') in via:
                    a = via[x['referencedDecl']['name']]
        if a and a != lv:
            out.append((a, line_of(s_)))
    return out
