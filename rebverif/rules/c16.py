"""C16 - variational particles are the derivatives of the trajectory: static necessary conditions.
R16.1 every element-derivative constructor equals the symbolic derivative of the repository's own element->Cartesian map."""
import ast
import os
import re
from concurrent.futures import ProcessPoolExecutor

from ..core import AnalysisError, anchor, REPO
from .. import cfront, pyfront
from ..cfront import walk, strip, render, line_of, is_assign, callee_name, call_args, qtype
from . import e8

LEVEL = 'proof'
CHECKER_CMD = 'python3-vt -m rebverif check C16  (sympy 1.14 symbolic differentiation + simplification; mpmath 40-digit zero test of residuals that do not simplify)'
TRUSTED_BASE = ['clang 14 AST', 'sympy differentiation and simplification', 'mpmath arbitrary precision evaluation', 'rebverif E8 translation of loop-free C to sympy',
                'the forward maps reb_particle_from_orbit_err / reb_particle_from_pal of the repository itself (the derivatives are checked against them, not against an external definition)']

CLASSICAL = ['a', 'e', 'inc', 'Omega', 'omega', 'f']
PAL = ['a', 'lambda', 'k', 'h', 'ix', 'iy']
COMPS = ['x', 'y', 'z', 'vx', 'vy', 'vz', 'm']


def _split_vars(suffix):
    """'omega_Omega' -> ['omega','Omega']; names never contain underscores themselves."""
    return suffix.split('_')


def family(vars_):
    if any(v in ('lambda', 'h', 'k', 'ix', 'iy') for v in vars_):
        return 'pal'
    return 'classical'


def _setup():
    import sympy as sp
    tus = cfront.load_tus(['derivatives.c', 'tools.c'])
    sym = {n: sp.Symbol(n, real=True) for n in ['G', 'm', 'a', 'e', 'inc', 'Omega', 'omega', 'f', 'lambda', 'k', 'h', 'ix', 'iy', 'p', 'q']}
    st = {'mode': None}

    def h_orbit(E, n, env, fname):
        o = {fld: sp.Symbol('o_' + fld, real=True) for fld in E.fields['struct reb_orbit']}
        for v in CLASSICAL:
            o[v] = sym[v]
        return o

    def h_to_pal(E, n, env, fname):
        args = call_args(n)
        for arg, v in zip(args[3:], ['a', 'lambda', 'k', 'h', 'ix', 'iy']):
            tgt = strip(strip(arg)['inner'][0])
            env[tgt['referencedDecl']['name']] = sym[v]
        return None

    def h_kepler_pal(E, n, env, fname):
        args = call_args(n)
        for arg, v in zip(args[3:], ['p', 'q']):
            tgt = strip(strip(arg)['inner'][0])
            env[tgt['referencedDecl']['name']] = sym[v]
        return None

    def h_fabs(E, n, env, fname):
        # domain assumption: 4 - ix^2 - iy^2 > 0 (inclination below 180 degrees), so |.| is the identity on the only argument it is applied to
        return E.ev(call_args(n)[0], env, fname)

    hooks = {'reb_orbit_from_particle': h_orbit, 'reb_tools_particle_to_pal': h_to_pal, 'reb_tools_solve_kepler_pal': h_kepler_pal, 'fabs': h_fabs}
    skip = lambda fname, node: fname == 'reb_particle_from_orbit_err'
    E = e8.E8(tus, hooks=hooks, skip_if=skip)
    prim = E.sym_struct('P', 'struct reb_particle')
    po = E.sym_struct('po', 'struct reb_particle')
    po['m'] = sym['m']
    return sp, tus, E, sym, prim, po


def forward_maps(sp, E, sym, prim):
    err = sp.Symbol('err')
    Fc = E.call('reb_particle_from_orbit_err', [sym['G'], dict(prim), sym['m'], sym['a'], sym['e'], sym['inc'], sym['Omega'], sym['omega'], sym['f'], err])
    Fp = E.call('reb_particle_from_pal', [sym['G'], dict(prim), sym['m'], sym['a'], sym['lambda'], sym['k'], sym['h'], sym['ix'], sym['iy']])
    return Fc, Fp


def pal_total(sp, sym):
    """Total derivative operator for the Pal family: p and q are implicit functions of (lambda, k, h) through
    p = k sin(lambda+p) - h cos(lambda+p),  q = k cos(lambda+p) + h sin(lambda+p) (the equations reb_tools_solve_kepler_pal iterates on)."""
    lam, k, h, p, q = sym['lambda'], sym['k'], sym['h'], sym['p'], sym['q']
    th = lam + p
    E1 = p - k * sp.sin(th) + h * sp.cos(th)
    qexpr = k * sp.cos(th) + h * sp.sin(th)

    def total(expr, var):
        dp = -sp.diff(E1, var) / sp.diff(E1, p)
        dq = sp.diff(qexpr, var) + sp.diff(qexpr, p) * dp
        return sp.diff(expr, var) + sp.diff(expr, p) * dp + sp.diff(expr, q) * dq
    return total


def check_one(args):
    """Worker: check one constructor; returns (name, [(component, status, magnitude)], error or None)."""
    name, seed = args
    try:
        sp, tus, E, sym, prim, po = _setup()
        import mpmath as mp
        import random
        Fc, Fp = forward_maps(sp, E, sym, prim)
        suffix = name[len('reb_particle_derivative_'):]
        vars_ = _split_vars(suffix)
        fam = family(vars_)
        callees = {callee_name(x) for x in walk(cfront.body(E.funcs[name])) if x.get('kind') == 'CallExpr'}
        if 'reb_tools_particle_to_pal' in callees:
            fam = 'pal'          # the constructor reads the orbit back as Pal elements (a, m derivatives hold the other Pal elements fixed)
        elif 'reb_orbit_from_particle' in callees:
            fam = 'classical'
        D = E.call(name, [sym['G'], dict(prim), dict(po)])
        F = Fc if fam == 'classical' else Fp
        total = pal_total(sp, sym) if fam == 'pal' else (lambda ex, v: sp.diff(ex, v))
        out = []
        rnd = random.Random(seed)
        for c in COMPS:
            ref = F[c]
            for v in vars_:
                ref = total(ref, sym[v])
            res = D[c] - ref
            status = None
            mag = 0.0
            if res == 0:
                status = 'identical'
            else:
                # numerical zero test at random points of the elements' domain, 40 digits
                mp.mp.dps = 40
                fs = sorted(res.free_symbols, key=str)
                fnum = sp.lambdify(fs, res, 'mpmath')
                worst = mp.mpf(0)
                scale = mp.mpf(0)
                fref = sp.lambdify(fs, ref, 'mpmath') if ref != 0 else None
                for _ in range(4):
                    vals = {}
                    if fam == 'pal':
                        kk = mp.mpf(rnd.uniform(-0.3, 0.3))
                        hh = mp.mpf(rnd.uniform(-0.3, 0.3))
                        tht = mp.mpf(rnd.uniform(0.2, 6.0))
                        pp = kk * mp.sin(tht) - hh * mp.cos(tht)
                        vals.update({'k': kk, 'h': hh, 'p': pp, 'lambda': tht - pp, 'q': kk * mp.cos(tht) + hh * mp.sin(tht),
                                     'ix': mp.mpf(rnd.uniform(-0.5, 0.5)), 'iy': mp.mpf(rnd.uniform(-0.5, 0.5))})
                    else:
                        vals.update({'e': mp.mpf(rnd.uniform(0.05, 0.7)), 'inc': mp.mpf(rnd.uniform(0.1, 1.4)), 'Omega': mp.mpf(rnd.uniform(0.1, 6.0)),
                                     'omega': mp.mpf(rnd.uniform(0.1, 6.0)), 'f': mp.mpf(rnd.uniform(0.1, 6.0))})
                    vals['a'] = mp.mpf(rnd.uniform(0.5, 2.5))
                    vals['G'] = mp.mpf(rnd.uniform(0.5, 40.0))
                    vals['m'] = mp.mpf(rnd.uniform(1e-3, 0.5))
                    argv = []
                    for s_ in fs:
                        nm = str(s_)
                        if nm in vals:
                            argv.append(vals[nm])
                        elif nm == 'P_m':
                            argv.append(mp.mpf(rnd.uniform(0.5, 2.0)))
                        else:
                            argv.append(mp.mpf(rnd.uniform(-1.0, 1.0)))
                    val = fnum(*argv)
                    worst = max(worst, abs(val))
                    if fref is not None:
                        try:
                            scale = max(scale, abs(fref(*argv)))
                        except Exception:
                            pass
                mag = float(worst / (scale if scale > 1 else 1))
                status = 'numeric-zero' if mag < 1e-25 else 'MISMATCH'
            out.append((c, status, mag))
        return name, out, None
    except e8.NotSummarisable as ex:
        return name, [], 'not summarisable: %s' % ex
    except Exception as ex:   # noqa
        import traceback
        return name, [], 'internal: %s' % traceback.format_exc()[-400:]


def rule_constructors(ctx):
    tu = cfront.load_tu('derivatives.c')
    names = sorted(n for n in tu.funcs if n.startswith('reb_particle_derivative_'))
    anchor(len(names) >= 65, 'derivatives.c defines the 65 element-derivative constructors (found %d)' % len(names))
    first = [n for n in names if len(_split_vars(n[len('reb_particle_derivative_'):])) == 1]
    second = [n for n in names if n not in first]
    todo = first + second if ctx.tier == 'thorough' or os.environ.get('REBVERIF_C16_ALL', '1') == '1' else first
    jobs = min(16, len(todo))
    with ProcessPoolExecutor(jobs) as ex:
        results = list(ex.map(check_one, [(n, ctx.seed) for n in todo]))
    n = 0
    samples = []
    kinds = {'identical': 0, 'numeric-zero': 0}
    for name, comps, err in results:
        where = 'src/derivatives.c %s' % name
        if err:
            raise AnalysisError('R16.1: %s: %s' % (name, err))
        for c, status, mag in comps:
            n += 1
            ok = status in ('identical', 'numeric-zero')
            ctx.obligation(ok)
            if ok:
                kinds[status] += 1
            else:
                suffix = name[len('reb_particle_derivative_'):]
                ctx.report('R16.1', 'deriv:%s:%s' % (suffix, c), where,
                           'component %s of %s is not the %s derivative d/d(%s) of the element->Cartesian map (relative residual %.2e at random 40-digit points)'
                           % (c, name, 'first' if '_' not in suffix else 'second', suffix.replace('_', ' d'), mag))
        if len(samples) < 4:
            samples.append('%s: %s' % (name, [(c, s) for c, s, m_ in comps][:3]))
    ctx.covered('R16.1', 'derivative constructors x 7 components: equal to the symbolic derivative of reb_particle_from_orbit_err / reb_particle_from_pal '
                '(%d identical after substitution, %d closed by a 40-digit zero test at random points)' % (kinds['identical'], kinds['numeric-zero']),
                n, floor=84 if todo is first else 455, samples=samples)


def rule_names(ctx):
    tu = cfront.load_tu('derivatives.c')
    defined = {n for n in tu.funcs if n.startswith('reb_particle_derivative_')}
    hdr = cfront.load_tu('rebound.c')
    declared = {n for n in list(hdr.protos) + list(hdr.funcs) if n.startswith('reb_particle_derivative_')}
    n = 0
    for nm in sorted(declared | defined):
        n += 1
        if nm not in defined:
            ctx.report('R16.2', 'names:undefined:' + nm, 'src/rebound.h', '%s is declared but not defined' % nm)
        if nm not in declared:
            ctx.report('R16.2', 'names:undeclared:' + nm, 'src/derivatives.c', '%s is defined but not declared in rebound.h (Python cannot call it)' % nm)
    # names Python can synthesise: variationtypes list in Particle.__init__
    db = pyfront.pydb()
    tree = db.files['rebound/particle.py']
    vt = None
    for node in ast.walk(tree):
        if isinstance(node, ast.Assign) and isinstance(node.targets[0], ast.Name) and node.targets[0].id == 'variationtypes' and isinstance(node.value, ast.List):
            vt = [e.value for e in node.value.elts if isinstance(e, ast.Constant)]
    anchor(vt, 'particle.py variationtypes list')
    fams = [[v for v in vt if v in ('m', 'a', 'e', 'inc', 'omega', 'Omega', 'f')], [v for v in vt if v in ('m', 'a', 'lambda', 'h', 'k', 'ix', 'iy')]]
    for fam in fams:
        for i, u in enumerate(vt):
            if u not in fam:
                continue
            n += 1
            if 'reb_particle_derivative_' + u not in defined:
                ctx.report('R16.2', 'names:first:' + u, 'rebound/particle.py', 'a first-order variation in %s asks for reb_particle_derivative_%s, which does not exist' % (u, u))
            for w in vt[i:]:
                if w not in fam:
                    continue
                n += 1
                # Python orders the pair by position in variationtypes
                cand = 'reb_particle_derivative_%s_%s' % (u, w)
                if cand not in defined:
                    ctx.report('R16.2', 'names:second:%s_%s' % (u, w), 'rebound/particle.py', 'a second-order variation in (%s,%s) asks for %s, which does not exist' % (u, w, cand))
    ctx.covered('R16.2', 'derivative constructors: declared == defined; every name Python synthesises from variationtypes (canonical order, one family) exists', n, floor=100)


def rule_rescale(ctx):
    tu = cfront.load_tu('tools.c')
    fn = tu.func('reb_simulation_rescale_var')
    n = 0
    divs = {}
    logs = []
    # pointer locals that name one element of the particle array (struct reb_particle* const p = &(particles[i]))
    alias = {}
    for d in walk(cfront.body(fn)):
        if d.get('kind') == 'VarDecl' and 'init' in d and '*' in qtype(d):
            init = [c for c in d.get('inner', []) if c.get('kind') not in ('FullComment',)]
            t = render(init[-1]).replace(' ', '') if init else ''
            m = re.match(r'^\(?&\(*((?:r\.)?particles\[[^\]]*\])\)*$', t)
            if m:
                alias[d['name']] = m.group(1)
    for e in walk(cfront.body(fn)):
        if is_assign(e):
            lv = render(e['inner'][0])
            head = lv.split('.', 1)
            if len(head) == 2 and head[0] in alias:
                lv = alias[head[0]] + '.' + head[1]
            m = re.match(r'^(?:r\.)?particles\[.*\]\.(\w+)$', lv)
            if m and e['opcode'] in ('/=', '*='):
                divs.setdefault(m.group(1), []).append((e['opcode'], render(e['inner'][1])))
            if 'lrescale' in lv:
                logs.append((e['opcode'], render(e['inner'][1])))
    anchor(divs, 'reb_simulation_rescale_var rescales particle coordinates')
    comps = ('x', 'y', 'z', 'vx', 'vy', 'vz')
    for c in comps:
        n += 1
        if c not in divs:
            ctx.report('R16.3', 'rescale:' + c, 'src/tools.c reb_simulation_rescale_var', 'component %s of a variational particle is not rescaled: the vector changes direction' % c)
    ops = {(o, r_) for c in comps for (o, r_) in divs.get(c, [])}
    scales = {r_ for o, r_ in ops}
    n += 1
    extra = set(divs) - set(comps) - {'ax', 'ay', 'az'}
    if extra:
        ctx.report('R16.3', 'rescale:extra', 'src/tools.c reb_simulation_rescale_var', 'rescaling also changes %s' % sorted(extra))
    n += 1
    if not logs or not all(o == '+=' and 'log(' in r_ for o, r_ in logs):
        ctx.report('R16.3', 'rescale:log', 'src/tools.c reb_simulation_rescale_var', 'the recorded magnitude lrescale is not advanced by log(scale) (%s)' % logs)
    ctx.covered('R16.3', 'automatic rescaling: all six coordinates of a variational particle scaled, lrescale += log(scale)', n, floor=8,
                samples=['scales %s, log updates %s' % (sorted(scales)[:3], logs[:2])])


def rule_ias15_domains(ctx):
    """R16.5: in the IAS15 step every loop that saves, predicts or restores particle coordinates runs over the full set
    being integrated (N, which includes the variational particles), never over the real particles only."""
    tu = cfront.load_tu('integrator_ias15.c')
    fn = tu.func('reb_integrator_ias15_step')
    n = 0
    samples = []
    for loop in walk(cfront.body(fn)):
        if loop.get('kind') != 'ForStmt':
            continue
        body = loop['inner'][-1]
        touches = False
        for e in walk(body):
            if e.get('kind') in ('ForStmt',) and e is not loop:
                pass
            if is_assign(e):
                lv = render(e['inner'][0])
                rv = render(e['inner'][1])
                if re.match(r'^particles\[\w+\]\.(x|y|z|vx|vy|vz)$', lv) or (re.match(r'^(x0|v0)\[', lv) and 'particles[' in rv):
                    touches = True
        if not touches:
            continue
        # direct loops only (the assignment sits in this loop's own body, not in a nested loop)
        nested = [x for x in walk(body) if x.get('kind') == 'ForStmt']
        if nested:
            continue
        cond = render(loop['inner'][2]).replace(' ', '')
        n += 1
        if not re.match(r'^\(\w+<N\)$', cond):
            ctx.report('R16.5', 'ias15:domain:%s' % cond, 'src/integrator_ias15.c:%s reb_integrator_ias15_step' % line_of(loop),
                       'a loop that saves/predicts/restores particle coordinates runs over %s instead of all N integrated particles: variational particles are left in an intermediate state' % cond)
        samples.append('src/integrator_ias15.c:%s %s' % (line_of(loop), cond))
    ctx.covered('R16.5', 'IAS15: loops that save, predict or restore particle coordinates range over all N integrated particles', n, floor=5, samples=samples[:4])


def rule_variational_mirror(ctx):
    """R16.6: in WHFast the variational particles live in the same Jacobi arrays as the real ones. Wherever a statement
    list converts the real particles between Jacobi and inertial coordinates AND contains the per-configuration loop that
    does the same for the variational particles, every such conversion in that list has to stand next to its loop (before the
    next force evaluation) - otherwise one kick sees variational positions from the previous sub-step."""
    tu = cfront.load_tu('integrator_whfast.c')
    n = 0
    samples = []
    lists = 0

    def item(st):
        s_ = strip(st)
        if s_.get('kind') == 'CallExpr':
            nm = callee_name(s_) or ''
            args = [render(a).replace(' ', '') for a in call_args(s_)]
            if nm.startswith('reb_particles_transform_') and args and args[0] in ('particles', 'r.particles'):
                return ('T', nm, line_of(s_))
            if nm in ('reb_simulation_update_acceleration',):
                return ('F', nm, line_of(s_))
            return ('C', nm, line_of(s_))
        if st.get('kind') == 'ForStmt' and 'N_var_config' in render(st['inner'][2] or {}):
            for e in walk(st['inner'][-1]):
                if e.get('kind') == 'CallExpr' and (callee_name(e) or '').startswith('reb_particles_transform_') and any('vc.index' in render(a) for a in call_args(e)):
                    return ('M', callee_name(e), line_of(st))
            return ('V', None, line_of(st))
        return None

    def seqs(node, fname):
        k = node.get('kind')
        if k == 'CompoundStmt':
            cur = []
            for c in node.get('inner', []):
                body_ = c
                while body_.get('kind') in ('CaseStmt', 'DefaultStmt'):
                    if cur:
                        yield cur
                    cur = []
                    body_ = body_['inner'][-1]
                if body_.get('kind') == 'BreakStmt':
                    if cur:
                        yield cur
                    cur = []
                    continue
                it = item(body_)
                if it:
                    cur.append(it)
                if body_.get('kind') in ('IfStmt', 'SwitchStmt', 'ForStmt', 'WhileStmt', 'CompoundStmt') and not (it and it[0] in ('M', 'V')):
                    yield from seqs(body_, fname)
            if cur:
                yield cur
        else:
            for c in node.get('inner', []) or []:
                if isinstance(c, dict):
                    yield from seqs(c, fname)

    for fname, fn in sorted(tu.funcs.items()):
        if cfront.basename(fn.get('_locfile') or fn.get('_file')) != 'integrator_whfast.c':
            continue
        for seq in seqs(cfront.body(fn), fname):
            mirrored = {nm for k, nm, ln in seq if k == 'M'}
            if not mirrored:
                continue
            lists += 1
            for i, (k, nm, ln) in enumerate(seq):
                if k != 'T' or nm not in mirrored:
                    continue
                n += 1
                nxt = seq[i + 1] if i + 1 < len(seq) else None
                prv = seq[i - 1] if i > 0 else None
                where = 'src/integrator_whfast.c:%s %s' % (ln, fname)
                if prv and prv[0] == 'M' and prv[1] == nm and not (nxt and nxt[0] == 'M' and nxt[1] == nm):
                    nxt = prv           # the variational loop may come first (interaction step)
                if not (nxt and nxt[0] == 'M' and nxt[1] == nm):
                    ctx.report('R16.6', '%s:%s:mirror' % (fname, nm.replace('reb_particles_transform_', '')), where,
                               'the real particles are converted with %s but the loop over the variational configurations that does the same (present elsewhere in this statement list) is not adjacent to it: the next force evaluation uses stale variational coordinates'
                               % nm)
                else:
                    samples.append('%s: %s followed by its variational loop (line %s)' % (where, nm, nxt[2]))
    anchor(lists >= 2, 'statement lists in integrator_whfast.c that convert real and variational particles side by side')
    ctx.covered('R16.6', 'WHFast: each Jacobi<->inertial conversion of the real particles is followed by the same conversion of every variational configuration where the list has one',
                n, floor=3, samples=samples[:4])


def rule_rescale_integrator_state(ctx):
    """R16.7: rescaling divides a variational configuration by `scale`. The variational equations are linear, so the step
    that follows is unchanged up to that factor only if *all* state linear in the variation is divided too. IAS15 keeps such
    state between steps: every per-coordinate double array that reb_integrator_ias15_alloc sizes (compensated-summation
    terms, predictor coefficients, saved positions). The set of arrays the allocator grows must equal the set the rescaler
    divides by the same scale, over the coordinates of the configuration."""
    tus = cfront.load_tus(['tools.c', 'integrator_ias15.c'])
    alloc = tus['integrator_ias15.c'].func('reb_integrator_ias15_alloc')
    arrays, dp7s = set(), set()
    for e in walk(cfront.body(alloc)):
        if is_assign(e) and e['opcode'] == '=':
            rhs = strip(e['inner'][1], casts=True)
            if rhs.get('kind') == 'CallExpr' and callee_name(rhs) == 'realloc' and 'double' in qtype(strip(e['inner'][0])):
                arrays.add(render(e['inner'][0]).split('.')[-1])
        if e.get('kind') == 'CallExpr' and callee_name(e) == 'realloc_dp7':
            dp7s.add(render(call_args(e)[0]).replace('&', '').replace('(', '').replace(')', '').split('.')[-1])
    anchor(len(arrays) >= 7 and len(dp7s) >= 6, 'double arrays (%s) and dp7 blocks (%s) grown by reb_integrator_ias15_alloc' % (sorted(arrays), sorted(dp7s)))
    fn = tus['tools.c'].func('reb_simulation_rescale_var')
    # the IAS15 branch
    branch = None
    for ifs in walk(cfront.body(fn)):
        if ifs.get('kind') == 'IfStmt' and render(ifs['inner'][0]).replace(' ', '') == '(r.integrator==REB_INTEGRATOR_IAS15)':
            branch = ifs['inner'][1]
    n = 0
    where = 'src/tools.c reb_simulation_rescale_var'
    if branch is None:
        for a_ in sorted(arrays | dp7s):
            n += 1
            ctx.report('R16.7', 'rescale:ias15:' + a_, where, 'IAS15 keeps %s for every coordinate between steps; rescaling the variational particles does not divide it by the same factor, so the next step mixes old-scale and new-scale state' % a_)
        ctx.covered('R16.7', 'rescaling covers the integrator state that is linear in the variation (IAS15 arrays from the allocator)', n, floor=13)
        return
    divided = set()
    tables = {}
    for d in walk(branch):
        if d.get('kind') == 'VarDecl' and '[' in qtype(d) and 'reb_dp7' in qtype(d):
            tables[d['name']] = {render(x).replace('&', '').replace('(', '').replace(')', '').split('.')[-1] for x in walk(d) if x.get('kind') == 'MemberExpr' and 'reb_dp7' in qtype(x)}
    pk = {}
    for e in walk(branch):
        if is_assign(e) and e['opcode'] == '/=' and render(e['inner'][1]) == 'scale':
            lv = strip(e['inner'][0])
            if lv.get('kind') == 'ArraySubscriptExpr':
                base = strip(lv['inner'][0], casts=True)
                txt = render(base)
                if base.get('kind') == 'MemberExpr' and re.match(r'^p[0-6]$', base['name']):
                    owner = render(base['inner'][0])
                    pk.setdefault(owner, set()).add(base['name'])
                else:
                    divided.add(txt.split('.')[-1])
    from . import extents
    NV = extents.named_values(fn)
    for owner, ps in pk.items():
        if ps == {'p%d' % i for i in range(7)}:
            o = owner.replace('(', '').replace(')', '').replace('*', '').replace('&', '')
            if o in NV:          # a local naming one entry of a table of blocks (dp7 = blocks[d])
                o = NV[o].replace('(', '').replace(')', '').replace('*', '').replace('&', '')
            m_ = re.match(r'^(\w+)\[', o)
            if m_ and m_.group(1) in tables:
                divided |= tables[m_.group(1)]
            else:
                divided.add(o.split('.')[-1])
        else:
            ctx.report('R16.7', 'rescale:ias15:dp7:%s' % owner, where, 'only %s of the seven coefficient arrays of %s are rescaled' % (sorted(ps), owner))
    for a_ in sorted(arrays | dp7s):
        n += 1
        if a_ not in divided:
            ctx.report('R16.7', 'rescale:ias15:' + a_, where, 'IAS15 array %s (sized by reb_integrator_ias15_alloc for every coordinate) is not divided by scale when a variational configuration is rescaled' % a_)
    # the loop covers the coordinates of the configuration: 3*index .. 3*(index+N)
    loops = [f for f in walk(branch) if f.get('kind') == 'ForStmt']
    n += 1
    start = ''
    if loops:
        for d in walk(loops[0]['inner'][0]):
            if d.get('kind') == 'VarDecl' and 'init' in d:
                ini = [c_ for c_ in d.get('inner', []) if c_.get('kind') not in ('FullComment',)]
                start = extents.canon(extents.resolve(render(ini[-1]), {k_: v_ for k_, v_ in NV.items() if k_ != 'vc'}))
    if start != '3*vc.index':
        ctx.report('R16.7', 'rescale:ias15:range', where, 'the IAS15 state is not rescaled over the coordinates 3*index .. 3*(index+N) of the configuration')
    ctx.covered('R16.7', 'rescaling covers the integrator state that is linear in the variation: the %d arrays the IAS15 allocator sizes per coordinate are all divided by the same scale' % len(arrays | dp7s),
                n, floor=13, samples=['allocator: %s + %s; rescaler divides %s' % (sorted(arrays), sorted(dp7s), sorted(divided))])


def rule_order_discriminated_members(ctx):
    """R16.8: a variational configuration is a tagged record: index_1st_order_a/b are only assigned by the second-order
    constructor. A read of such a member must be guarded by a test of the `order` of the *same* configuration; otherwise
    it reads whatever realloc left there (first-order configurations), and decisions taken on it are arbitrary."""
    tus = cfront.load_tus()
    ctor_sets = {}
    from .. import normal as _normal
    for c, tu in tus.items():
        ref_ = _normal.reference_names(c)
        for fname, fn in tu.funcs.items():
            if cfront.basename(fn.get('_locfile') or fn.get('_file')) != c:
                continue
            if fn.get('storageClass') == 'static' and ref_ and fname not in ref_:
                continue          # a new file-local helper: seen inlined in its callers
            fn = tu.func(fname)
            assigned = {}
            for e in walk(cfront.body(fn)):
                if is_assign(e) and e['opcode'] == '=':
                    lv = strip(e['inner'][0])
                    if lv.get('kind') == 'MemberExpr' and 'reb_variational_configuration' in qtype(strip(lv['inner'][0])):
                        assigned[lv['name']] = render(e['inner'][1])
            if 'order' in assigned and any(callee_name(x) == 'realloc' for x in walk(cfront.body(fn)) if x.get('kind') == 'CallExpr'):
                ctor_sets[fname] = assigned
    anchor(len(ctor_sets) >= 2, 'constructors of struct reb_variational_configuration (found %s)' % sorted(ctor_sets))
    allm = set().union(*[set(v) for v in ctor_sets.values()])
    def placeholder(v, m_):
        return m_ not in v or re.match(r'^-?\d+(\.\d*)?$', v[m_].strip('()')) is not None
    # meaningful only for some orders: not assigned, or assigned a literal placeholder, by at least one constructor while another stores a real value
    partial = {m_ for m_ in allm if m_ not in ('order', 'lrescale') and any(placeholder(v, m_) for v in ctor_sets.values()) and any(not placeholder(v, m_) for v in ctor_sets.values())}
    orders = {m_: sorted({v['order'] for v in ctor_sets.values() if not placeholder(v, m_)}) for m_ in partial}
    n = 0
    samples = []
    for c, tu in sorted(tus.items()):
        for fname, fn in sorted(tu.funcs.items()):
            if cfront.basename(fn.get('_locfile') or fn.get('_file')) != c or fname in ctor_sets:
                continue
            ref_ = _normal.reference_names(c)
            if fn.get('storageClass') == 'static' and ref_ and fname not in ref_:
                continue
            written = {id(strip(a_['inner'][0])) for a_ in walk(cfront.body(fn)) if is_assign(a_) and a_['opcode'] == '='}
            from . import pathcond
            conds = pathcond.conditions(fn)
            from . import extents as _ext
            flags = _ext.named_values(fn)
            in_flag = {}
            for d_ in walk(cfront.body(fn)):
                if d_.get('kind') == 'VarDecl' and 'init' in d_ and d_.get('name') in flags and 'int' in qtype(d_) and '*' not in qtype(d_):
                    for x_ in walk(d_):
                        in_flag[id(x_)] = d_['name']
            for e in walk(cfront.body(fn)):
                if e.get('kind') != 'MemberExpr' or e['name'] not in partial or 'reb_variational_configuration' not in qtype(strip(e['inner'][0])):
                    continue
                if id(e) in written:
                    continue          # a store, not a read
                n += 1
                base = render(e['inner'][0]).replace(' ', '')
                stack = conds.get(id(e), [])
                guarded = any((base + '.order') in cnd.replace(' ', '') for cnd in stack)
                if not guarded and id(e) in in_flag:
                    # the read only computes a flag (const int uses = (wc->a == i || wc->b == i)): nothing is decided on it
                    # until the flag is tested, so the test of `order` has to guard every use of the flag instead
                    uses = [u for u in walk(cfront.body(fn)) if u.get('kind') == 'DeclRefExpr' and u['referencedDecl'].get('name') == in_flag[id(e)]]
                    guarded = bool(uses) and all(any((base + '.order') in cnd.replace(' ', '') for cnd in conds.get(id(u), [])) for u in uses)
                where = 'src/%s:%s %s' % (c, line_of(e), fname)
                if not guarded:
                    ctx.report('R16.8', '%s:%s.%s' % (fname, base, e['name']), where,
                               '%s.%s is read without a test of %s.order: only the order-%s constructor stores a meaningful value there, for other configurations it is a placeholder or whatever realloc returned'
                               % (base, e['name'], base, '/'.join(orders[e['name']])))
                else:
                    samples.append('%s: %s.%s under a test of %s.order' % (where, base, e['name'], base))
    ctx.covered('R16.8', 'members of a variational configuration that only some constructors assign (%s) are read under a test of the same configuration\'s order' % sorted(partial), n, floor=2, samples=samples[:4])


def c08_conditions(fn):
    """{id(node): [rendered conditions of the enclosing ifs (negated for else branches)]} for every node of fn."""
    out = {}

    def rec(n, stack):
        out[id(n)] = stack
        if n.get('kind') == 'IfStmt':
            c = render(n['inner'][0])
            rec(n['inner'][0], stack)
            rec(n['inner'][1], stack + [c])
            if len(n['inner']) > 2:
                rec(n['inner'][2], stack + ['!(' + c + ')'])
            return
        if n.get('kind') == 'BinaryOperator' and n.get('opcode') == '&&':
            rec(n['inner'][0], stack)
            rec(n['inner'][1], stack + [render(n['inner'][0])])
            return
        for ch in n.get('inner', []) or []:
            if isinstance(ch, dict):
                rec(ch, stack)
    rec(cfront.body(fn), [])
    return out


def rule_variational_kernel(ctx):
    """R16.9: first-order variational force kernels. In reb_calculate_acceleration_var every innermost pair loop that updates
    the accelerations of one variational array V from the real particles P is summarised symbolically (E8); the increment
    to V[a].a{x,y,z} must be the directional derivative of the Newtonian pair acceleration of P[a] due to P[b],
        F = -G m_b (x_a - x_b)/|x_a - x_b|^3,
    in the direction (dx_a, dx_b, dm_b) = (V[a].xyz, V[b].xyz, V[b].m). Blocks that read two variational arrays (second
    order) are left to the not-decided list."""
    import sympy as sp
    from . import symexec, e8
    tu = cfront.load_tu('gravity.c')
    fn = tu.func('reb_calculate_acceleration_var')
    n = 0
    samples = []

    def innermost_loops(node):
        for l in walk(node):
            if l.get('kind') == 'ForStmt' and not any(x is not l and x.get('kind') == 'ForStmt' for x in walk(l['inner'][-1])):
                yield l

    def flatten(items):
        out = []
        for st in items:
            if st.get('kind') == 'IfStmt' and strip(st['inner'][0], casts=True).get('kind') == 'DeclRefExpr' and len(st['inner']) == 2:
                b = st['inner'][1]
                out += flatten(b.get('inner', []) if b.get('kind') == 'CompoundStmt' else [b])
            else:
                out.append(st)
        return out
    for loop in innermost_loops(cfront.body(fn)):
        body = loop['inner'][-1]
        items = flatten(body.get('inner', []) if body.get('kind') == 'CompoundStmt' else [body])
        ups = []
        for st in items:
            e = strip(st)
            if is_assign(e) and e['opcode'] in ('+=', '-=') and strip(e['inner'][0]).get('kind') == 'MemberExpr' and strip(e['inner'][0])['name'] in ('ax', 'ay', 'az'):
                ups.append(e)
        if not ups:
            continue
        arrays = set()
        for st in items:
            for x in walk(st):
                if x.get('kind') == 'ArraySubscriptExpr':
                    arrays.add(render(strip(x['inner'][0], casts=True)))
        targets = {render(strip(strip(strip(e['inner'][0])['inner'][0])['inner'][0], casts=True)) for e in ups}
        if len(targets) != 1:
            continue
        V = targets.pop()
        others = arrays - {V}
        if len(others) != 1:
            continue            # second-order blocks read two variational arrays
        P = others.pop()
        state = symexec.State()
        try:
            symexec.run_block(items, state, ())
        except AnalysisError:
            continue
        where = 'src/gravity.c:%s reb_calculate_acceleration_var' % line_of(loop)
        idxs = sorted({render(strip(strip(e['inner'][0])['inner'][0])['inner'][1]) for e in ups})
        # the two particles of the pair: subscripts with which P is read
        pidx = []
        for st in items:
            for x in walk(st):
                if x.get('kind') == 'ArraySubscriptExpr' and render(strip(x['inner'][0], casts=True)) == P:
                    k_ = render(x['inner'][1])
                    if k_ not in pidx:
                        pidx.append(k_)
        if len(pidx) != 2:
            continue
        G = None
        for cand in ('G', 'r.G'):
            if cand in state.syms or cand in state.vals:
                G = state.get(cand)
        if G is None:
            G = state.sym('G')

        def S(arr, k_, m):
            return state.sym('%s[%s].%s' % (arr, k_, m))
        for a in idxs:
            if a not in pidx:
                continue        # the test-particle kernel addresses V with a fixed slot; not covered here
            b = [k_ for k_ in pidx if k_ != a][0]
            xa = [S(P, a, c) for c in 'xyz']
            xb = [S(P, b, c) for c in 'xyz']
            r2 = sum((u - v) ** 2 for u, v in zip(xa, xb))
            mb = S(P, b, 'm')
            for ci, c in enumerate('xyz'):
                F = -G * mb * (xa[ci] - xb[ci]) / r2 ** sp.Rational(3, 2)
                dF = sum(sp.diff(F, q) * dq for q, dq in list(zip(xa, [S(V, a, c_) for c_ in 'xyz'])) + list(zip(xb, [S(V, b, c_) for c_ in 'xyz'])) + [(mb, S(V, b, 'm'))])
                path = '%s[%s].a%s' % (V, a, c)
                if path not in state.vals:
                    continue
                inc = state.vals[path] - state.sym(path)
                n += 1
                resid = inc - dF
                try:
                    worst = e8.zero_test(resid, n=3, seed=ci)
                except Exception as ex:      # noqa
                    raise AnalysisError('R16.9: residual of %s at %s cannot be evaluated (%s)' % (path, where, ex))
                if worst > 1e-25:
                    # name the symbol that is wrong: which direction component has a non-zero coefficient in the residual
                    culprit = [str(q) for q in sorted(resid.free_symbols, key=str) if str(q).startswith(V.replace('.', '_')) and e8.zero_test(sp.diff(resid, q), n=2, seed=1) > 1e-25]
                    ctx.report('R16.9', 'var-kernel:%s:%s' % (line_of(loop), path), where,
                               'the increment of %s is not the derivative of the pair acceleration of %s[%s] due to %s[%s] in the direction of the variational particles (residual %.1e; terms in %s are off)'
                               % (path, P, a, P, b, float(worst), ', '.join(culprit) or '?'))
        samples.append('%s: pair (%s) on %s -> %s' % (where, ','.join(pidx), P, V))
    ctx.covered('R16.9', 'first-order variational pair kernels: increment == directional derivative of the Newtonian pair acceleration (symbolic summary, 40-digit zero test)', n, floor=9, samples=samples)


DEAD_PARAMS_OK = {
    # (file, class, function, parameter): reason
    ('horizons.py', None, 'query_horizons_for_particle'): 'keyword sink: the element arguments are accepted so that add(**kwargs) can be forwarded unchanged, Horizons supplies the state',
    ('particle.py', 'Particle', '__init__', 'date'): 'consumed through locals() by the Horizons branch',
    ('particles.py', 'Particles', '__delitem__', 'key'): 'MutableMapping stub',
    ('simulation.py', 'Simulation', '__init__', 'filename'): 'consumed by __new__',
    ('simulation.py', 'Simulation', '__init__', 'snapshot'): 'consumed by __new__',
    ('simulation.py', 'Simulation', 'from_simulationarchive', 'simulationarchive'): 'deprecated entry point that only raises',
    ('simulation.py', 'Simulation', 'stop_server', 'port'): 'the C side keeps one server per simulation',
    ('simulationarchive.py', 'Simulationarchive', '__setitem__', 'key'): 'read-only container stub',
    ('simulationarchive.py', 'Simulationarchive', '__setitem__', 'value'): 'read-only container stub',
    ('simulationarchive.py', 'Simulationarchive', '__delitem__', 'key'): 'read-only container stub',
}


def _first_access(stmts, name):
    """possible first accesses of `name` along the paths through a statement list: subset of {'R', 'W', 'N'}
    (read, overwritten without being read, not touched)"""
    import ast

    def expr_reads(e):
        return e is not None and any(isinstance(x, ast.Name) and x.id == name and isinstance(x.ctx, ast.Load) for x in ast.walk(e))

    def one(st):
        if isinstance(st, ast.Assign):
            if expr_reads(st.value):
                return {'R'}
            for t in st.targets:
                if isinstance(t, ast.Name) and t.id == name:
                    return {'W'}
                if expr_reads(t):
                    return {'R'}
            return {'N'}
        if isinstance(st, ast.AugAssign):
            return {'R'} if (expr_reads(st.value) or (isinstance(st.target, ast.Name) and st.target.id == name) or expr_reads(st.target)) else {'N'}
        if isinstance(st, ast.If):
            if expr_reads(st.test):
                return {'R'}
            return seq(st.body) | seq(st.orelse)
        if isinstance(st, (ast.For, ast.While)):
            if expr_reads(getattr(st, 'iter', None)) or expr_reads(getattr(st, 'test', None)):
                return {'R'}
            inner = seq(st.body)
            return inner | {'N'} if 'W' not in inner or True else inner
        if isinstance(st, ast.Try):
            b = seq(st.body)
            # an exception may leave the body at any point: handlers see the parameter possibly untouched
            h = set()
            for hd in st.handlers:
                h |= seq(hd.body)
            out = set(b)
            if h - {'N'}:
                out |= {x for x in h if x != 'N'}
            return out | seq(st.finalbody) - {'N'} if st.finalbody else out
        if isinstance(st, ast.With):
            if any(expr_reads(i.context_expr) for i in st.items):
                return {'R'}
            return seq(st.body)
        if isinstance(st, (ast.FunctionDef, ast.ClassDef, ast.Lambda)):
            return {'R'} if any(isinstance(x, ast.Name) and x.id == name for x in ast.walk(st)) else {'N'}
        return {'R'} if any(isinstance(x, ast.Name) and x.id == name for x in ast.walk(st)) else {'N'}

    def seq(items):
        out = set()
        pending = True
        for st in items:
            r = one(st)
            out |= r - {'N'}
            if 'N' not in r:
                pending = False
                break
            if isinstance(st, (ast.Return, ast.Raise)):
                pending = False
                out.add('N')
                break
        if pending:
            out.add('N')
        return out
    res = seq(stmts)
    return res


def rule_python_parameters(ctx, rule='R16.10', only=None):
    """R16.10 / R18.8: no parameter of a function in the Python layer is silently ignored: every named parameter is read in
    the body (frozen exceptions above, one reason each). Variation.vary(..., primary=) initialises a variational particle
    as the derivative with respect to an orbital element relative to that primary; dropping the argument on the way to the
    Particle constructor silently differentiates relative to particle 0."""
    import ast
    db = pyfront.pydb()
    n = 0
    for path in sorted(db.files):
        base = path.split('/')[-1]
        if '/tests/' in path or (only and base not in only):
            continue
        tree = db.files[path]
        scopes = [(None, tree)] + [(c.name, c) for c in ast.walk(tree) if isinstance(c, ast.ClassDef)]
        for cname, scope in scopes:
            for fn in scope.body:
                if not isinstance(fn, ast.FunctionDef):
                    continue
                names = {x.id for x in ast.walk(fn) if isinstance(x, ast.Name)}
                for a in fn.args.args + fn.args.kwonlyargs:
                    if a.arg in ('self', 'cls'):
                        continue
                    n += 1
                    if a.arg in names:
                        # read somewhere - but is the incoming value overwritten on every path before the first read?
                        if _first_access(fn.body, a.arg) == {'W'}:
                            ctx.report(rule, '%s.%s:%s:overwritten' % (cname or base, fn.name, a.arg), 'rebound/%s:%d %s%s' % (base, fn.lineno, (cname + '.') if cname else '', fn.name),
                                       'parameter %s is overwritten on every path before it is read (with a value that does not depend on it): what the caller passed is silently replaced' % a.arg)
                        continue
                    if (base, cname, fn.name, a.arg) in DEAD_PARAMS_OK or (base, cname, fn.name) in DEAD_PARAMS_OK:
                        continue
                    ctx.report(rule, '%s.%s:%s' % (cname or base, fn.name, a.arg), 'rebound/%s:%d %s%s' % (base, fn.lineno, (cname + '.') if cname else '', fn.name),
                               'parameter %s is accepted but never read: the caller\'s choice is silently ignored' % a.arg)
    ctx.covered(rule, 'parameters of the Python layer that are read in the body of their function (%d frozen exceptions)' % len(DEAD_PARAMS_OK), n, floor=4 if only else 300)


def rule_variational_transport(ctx, rule='R16.11'):
    """R16.11: the first-order variation of a Kepler step is linear in the variation: besides the terms through the varied
    orbit (dr0, dbeta, deta0) it always contains the transport f*dx + g*dv of the variation itself. Whatever the values
    computed inside the loop over the variational configurations, every pass must store the transformed variational
    particle: the stores into p_j[i+index] in reb_whfast_kepler_solver are reached unconditionally within the loop (no
    `continue` for "nothing to vary" before them)."""
    from . import pathcond
    tu = cfront.load_tu('integrator_whfast.c')
    fn = tu.func('reb_whfast_kepler_solver')
    pc = pathcond.conditions(fn)
    loops = [f for f in walk(cfront.body(fn)) if f.get('kind') == 'ForStmt' and f['inner'][2] and 'N_var_config' in render(f['inner'][2])]
    anchor(len(loops) == 1, 'loop over the variational configurations in reb_whfast_kepler_solver')
    loop = loops[0]
    outer = set(pc.get(id(loop), []))
    n = 0
    for e in walk(loop['inner'][-1]):
        if is_assign(e) and re.match(r'^p_j\[\(?i\+\w+\)?\]\.(x|y|z|vx|vy|vz)$', render(e['inner'][0]).replace(' ', '')):
            n += 1
            extra = [c for c in pc.get(id(e), []) if c not in outer and 'N_var_config' not in c]
            if extra:
                ctx.report(rule, 'kepler:var:conditional', 'src/integrator_whfast.c:%s reb_whfast_kepler_solver' % line_of(e),
                           'the store of the transformed variational particle (%s) is only reached if %s: in the other case the variation keeps its old value although the linear transport f*dx + g*dv applies to every variation (an out-of-plane variation of a coplanar system has dr0 = dbeta = deta0 = 0 and is still carried along the orbit)'
                           % (render(e['inner'][0]), extra))
    anchor(n >= 6, 'stores into the variational particle in the Kepler solver (found %d)' % n)
    ctx.covered(rule, 'Kepler step: the variational particle is stored on every pass of the loop over the configurations', n, floor=6)


def run(ctx):
    from . import c09 as _c09b, serial as _serial
    _c09b.rule_keep_unsynchronized(ctx)     # R09.3: the cached coordinates of the variational particles are rolled back with those of the real ones
    _serial.rule_R05_2(ctx)                 # R05.2: the MEGNO accumulators are persisted under their own names
    from . import edges
    edges.rule_threshold_siblings(ctx, 'R01.13')     # one quantity, one literal, one line: variation of test particle 0
    edges.rule_time_direction(ctx, 'R08.12')         # time may be negative and may run backwards: MEGNO for backward integrations
    edges.rule_variational_call_args(ctx, 'R16.12')
    rule_variational_transport(ctx)
    from . import c12 as _c12
    _c12.rule_slices(ctx)                 # R12.1: the acc variant of a transformation (used for the variational kick) is the pos variant's map
    from . import c20
    c20.rule_com_variations(ctx)          # R20.7: moving to the centre of mass shifts every variational configuration by the matching derivative
    rule_python_parameters(ctx, 'R16.10', only=('variation.py',))
    rule_variational_kernel(ctx)
    from . import c15
    c15.rule_boundary_extent(ctx)          # R15.8: boundary conditions never touch variational particles
    rule_rescale_integrator_state(ctx)
    rule_order_discriminated_members(ctx)
    rule_variational_mirror(ctx)
    rule_names(ctx)
    rule_rescale(ctx)
    rule_ias15_domains(ctx)
    rule_constructors(ctx)
    ctx.assumptions.append('R16.1: domain 4 - ix^2 - iy^2 > 0 (fabs is the identity there); the Pal auxiliary (p,q) are the implicit functions defined by the two equations reb_tools_solve_kepler_pal iterates on; '
                           'element values the constructors read back from the particle enter as free symbols')
    ctx.not_decided.append('evolution of variational particles against finite differences; MEGNO / Lyapunov limits; the WHFast tangent map (contains the universal-variable solve); second-order and test-particle-slot variational force kernels')
