"""R05.4 / R06.1 header<->payload byte accounting (writer side), R05.5 consumption accounting (reader side).

Structured walk over the statement tree (no path explosion: the serialiser code is if/while structured).
For every write of a `struct reb_binary_field` header through reb_output_stream_write / fwrite, the reaching
definition of its .size must equal the sum of payload byte counts written before the next header, loop
back-edge, branch join or return; a header whose size is the constant 0 must have no payload.
"""
import re
from ..core import AnalysisError, anchor
from .. import cfront
from ..cfront import strip, walk, callee_name, call_args, qtype, render, line_of

HDR = 'struct reb_binary_field'
WRITERS = {'reb_output_stream_write': (3, 4), 'fwrite': (0, 1)}   # (data arg, length arg); fwrite length*count handled below


def _hdr_var(arg):
    a = strip(arg, casts=True)
    if a.get('kind') == 'UnaryOperator' and a.get('opcode') == '&':
        t = strip(a['inner'][0])
        if t.get('kind') == 'DeclRefExpr' and qtype(t).replace('const ', '') == HDR:
            return t['referencedDecl']['name']
    return None


class _St:
    def __init__(self):
        self.size = {}
        self.pending = None

    def copy(self):
        c = _St()
        c.size = dict(self.size)
        c.pending = None if self.pending is None else (self.pending[0], self.pending[1], self.pending[2], list(self.pending[3]))
        return c


class Walker:
    def __init__(self, cfile, fname):
        self.cfile, self.fname = cfile, fname
        self.sites = []
        self.reports = []

    def close(self, st, why, line):
        if st.pending is None:
            return
        var, l, sz, paid = st.pending
        lets = getattr(self, 'lets', {})
        paid = [lets.get(p_, p_) for p_ in paid]     # const size_t size_p = field.size/7;  ... write(.., size_p)
        ok = False
        if sz == 'ZERO':
            # no payload, or a payload whose length is the header's own (zero) size
            ok = all(p_ in (var + '.size', '0') for p_ in paid)
        elif paid:
            if len(paid) == 1 and paid[0] in (var + '.size', sz.replace('EXPR:', '')):
                ok = True
            elif len(paid) == 7 and all(p == '(%s.size/7)' % var for p in paid):
                ok = True
            elif len(paid) == 7 and len(set(paid)) == 1 and paid[0] == '(%s/7)' % sz.replace('EXPR:', ''):
                ok = True        # seven equal sevenths of whatever expression the header's size was set from
        self.sites.append((l, var, sz, tuple(paid), ok))
        if not ok:
            self.reports.append((l, var, sz, paid, why, line))
        st.pending = None

    def stmt(self, n, st):
        k = n.get('kind')
        if k == 'CompoundStmt':
            for c in n.get('inner', []):
                self.stmt(c, st)
        elif k == 'DeclStmt':
            for d in n.get('inner', []):
                if d.get('kind') == 'VarDecl' and 'init' in d and qtype(d).replace('const ', '').strip() in ('size_t', 'int', 'unsigned int', 'uint64_t', 'long', 'unsigned long'):
                    init_ = [c for c in d.get('inner', []) if c.get('kind') not in ('FullComment',)]
                    if init_ and '.size' in render(init_[-1]):
                        if not hasattr(self, 'lets'):
                            self.lets = {}
                        self.lets[d['name']] = render(strip(init_[-1], casts=True))
                if d.get('kind') == 'VarDecl' and qtype(d) == HDR:
                    init = [c for c in d.get('inner', []) if c.get('kind') not in ('FullComment',)]
                    if not init:
                        st.size[d['name']] = 'UNINIT'
                    elif strip(init[0]).get('kind') == 'InitListExpr':
                        st.size[d['name']] = 'ZERO'
                    else:
                        st.size[d['name']] = 'INPUT'
                for c in d.get('inner', []) or []:
                    self.expr(c, st)
        elif k == 'IfStmt':
            ch = n['inner']
            self.expr(ch[0], st)
            a = st.copy()
            self.stmt(ch[1], a)
            b = st.copy()
            if len(ch) > 2:
                self.stmt(ch[2], b)
            if (a.pending is None) != (b.pending is None) or (a.pending and b.pending and a.pending[:3] != b.pending[:3]):
                for x in (a, b):
                    self.close(x, 'branch join', line_of(n))
            st.pending = a.pending if a.pending else b.pending
            for v in set(a.size) | set(b.size):
                st.size[v] = a.size.get(v) if a.size.get(v) == b.size.get(v) else 'MIXED'
        elif k in ('WhileStmt', 'ForStmt', 'DoStmt'):
            self.close(st, 'loop entry', line_of(n))
            for c in n.get('inner', []):
                if not c:
                    continue
                if c.get('kind') == 'CompoundStmt':
                    self.stmt(c, st)
                    self.close(st, 'loop back-edge', line_of(n))
                elif c.get('kind'):
                    self.expr(c, st)
        elif k == 'SwitchStmt':
            for c in n.get('inner', []):
                if c.get('kind') == 'CompoundStmt':
                    self.stmt(c, st)
                elif c.get('kind'):
                    self.expr(c, st)
        elif k in ('CaseStmt', 'DefaultStmt', 'LabelStmt'):
            for c in n.get('inner', []):
                if c.get('kind') in ('CompoundStmt', 'IfStmt', 'WhileStmt', 'ForStmt', 'DoStmt', 'SwitchStmt', 'CaseStmt', 'DefaultStmt',
                                     'BreakStmt', 'ReturnStmt', 'ContinueStmt', 'DeclStmt', 'LabelStmt', 'GotoStmt'):
                    self.stmt(c, st)
                elif c.get('kind'):
                    self.expr(c, st)
        elif k in ('ContinueStmt', 'ReturnStmt', 'GotoStmt'):
            for c in n.get('inner', []) or []:
                self.expr(c, st)
            self.close(st, k, line_of(n))
        elif k == 'BreakStmt':
            pass   # leaves a switch or loop; the enclosing construct closes
        elif k:
            self.expr(n, st)

    def expr(self, n, st):
        for e in walk(n):
            k = e.get('kind')
            if k == 'BinaryOperator' and e.get('opcode') == '=':
                l = strip(e['inner'][0])
                if l.get('kind') == 'MemberExpr' and l.get('name') == 'size':
                    b = strip(l['inner'][0])
                    if b.get('kind') == 'DeclRefExpr' and qtype(b) == HDR:
                        rv = strip(e['inner'][1])
                        val = 'ZERO' if (rv.get('kind') == 'IntegerLiteral' and rv.get('value') == '0') else 'EXPR:' + render(e['inner'][1])
                        st.size[b['referencedDecl']['name']] = val
                elif l.get('kind') == 'DeclRefExpr' and qtype(l) == HDR:
                    st.size[l['referencedDecl']['name']] = 'INPUT'
            if k == 'CallExpr':
                nm = callee_name(e)
                args = call_args(e)
                if nm == 'memset' and args:
                    v = _hdr_var(args[0])
                    if v:
                        st.size[v] = 'ZERO'
                if nm in ('memcpy',) and args:
                    v = _hdr_var(args[0])
                    if v:
                        st.size[v] = 'INPUT'
                if nm in WRITERS:
                    di, li = WRITERS[nm]
                    dataarg, lenarg = args[di], args[li]
                    v = _hdr_var(dataarg)
                    if v:
                        self.close(st, 'next header', line_of(e))
                        st.pending = (v, line_of(e), st.size.get(v, 'UNKNOWN'), [])
                    elif st.pending is not None:
                        ty = qtype(strip(dataarg, casts=True))
                        if 'reb_simulationarchive_blob' in ty:
                            self.close(st, 'trailer write', line_of(e))
                        else:
                            ln = render(lenarg)
                            if nm == 'fwrite':
                                cnt = render(args[2])
                                if cnt != '1':
                                    ln = '(%s*%s)' % (ln, cnt)
                            st.pending[3].append(ln)


def analyse_writer(cfile, fname):
    tu = cfront.load_tu(cfile)
    fn = tu.func(fname)
    w = Walker(cfile, fname)
    st = _St()
    w.stmt(cfront.body(fn), st)
    w.close(st, 'function end', fn.get('_endline'))
    return w


def rule_writer(ctx, rule, funcs, floor):
    n = 0
    samples = []
    for cfile, fname in funcs:
        w = analyse_writer(cfile, fname)
        n += len(w.sites)
        for (l, var, sz, paid, ok) in w.sites[:3]:
            samples.append('src/%s:%s %s header %s size=%s payload=%s' % (cfile, l, fname, var, sz, list(paid)))
        for (l, var, sz, paid, why, line) in w.reports:
            key = '%s:%s:%s' % (fname, var, 'nopayload' if not paid else 'mismatch')
            ctx.report(rule, key, 'src/%s:%s %s' % (cfile, l, fname),
                       "header '%s' is written with size=%s but the payload written before the %s (line %s) is %s"
                       % (var, sz.replace('EXPR:', ''), why, line, paid or 'nothing' if sz != 'ZERO' else paid))
    ctx.covered(rule, 'writes of a struct reb_binary_field header: reaching .size == bytes of payload written before the next header/back-edge/return',
                n, floor=floor, samples=samples)


# ---------------------------------------------------------------- reader side
def rule_reader(ctx, rule):
    """In reb_input_fields, after the header read every branch that ends in `goto next_field` must have consumed
    exactly field.size bytes (one fread of field.size, 7 freads of field.size/7), the file header being the one
    frozen exception; the unknown-field fallback must fseek by field.size."""
    tu = cfront.load_tu('input.c')
    fn = tu.func('reb_input_fields')
    n = 0
    samples = []
    found_seek = False

    # helpers of this file that read `size` bytes of their stream argument (a split-off "realloc + fread"): a call consumes
    # the size it is given (a zero size consumes nothing either way)
    readers = {}
    for hname, h in tu.funcs.items():
        hb = cfront.body(h)
        if hb is None or hname == fn['name']:
            continue
        ps = [p_.get('name') for p_ in cfront.params(h)]
        for e in walk(hb):
            if e.get('kind') == 'CallExpr' and callee_name(e) == 'fread':
                a = call_args(e)
                if render(a[1]) in ps and render(a[2]) == '1' and render(a[3]) in ps:
                    readers[hname] = ps.index(render(a[1]))

    def consumed_paths(block):
        """list of alternatives, each the list of sizes consumed along one path through the if/else structure of the block"""
        def seq(nodes):
            alts = [[]]
            for nd in nodes:
                nxt = []
                for a in alts:
                    for b in visit(nd):
                        nxt.append(a + b)
                alts = nxt[:64]
            return alts

        def visit(node):
            k = node.get('kind')
            if k == 'IfStmt':
                pre = visit(node['inner'][0])
                th = visit(node['inner'][1])
                el = visit(node['inner'][2]) if len(node['inner']) > 2 and node['inner'][2].get('kind') else [[]]
                return [p_ + b for p_ in pre for b in th + el]
            if k == 'SwitchStmt':
                body_ = node['inner'][-1]
                items_ = body_.get('inner', []) if body_.get('kind') == 'CompoundStmt' else [body_]
                flat = []       # (is_label_start, statement)
                for it in items_:
                    x = it
                    first = False
                    while x.get('kind') in ('CaseStmt', 'DefaultStmt'):
                        first = True
                        x = x['inner'][-1]
                    flat.append((first, x))
                alts_ = []
                has_default = any(it.get('kind') == 'DefaultStmt' or (it.get('kind') == 'CaseStmt' and any(y.get('kind') == 'DefaultStmt' for y in cfront.walk(it))) for it in items_)
                for i_, (first, x) in enumerate(flat):
                    if not first:
                        continue
                    run = []
                    for first2, y in flat[i_:]:
                        if y.get('kind') == 'BreakStmt':
                            break
                        run.append(y)
                        if y.get('kind') == 'CompoundStmt' and y.get('inner') and y['inner'][-1].get('kind') in ('BreakStmt', 'ReturnStmt', 'GotoStmt', 'ContinueStmt'):
                            break
                        if y.get('kind') in ('ReturnStmt', 'GotoStmt', 'ContinueStmt'):
                            break
                    alts_ += seq(run)
                if not has_default:
                    alts_.append([])
                return alts_ or [[]]
            if k == 'BreakStmt':
                return [[]]
            if k == 'ForStmt':
                m_ = 1
                c_ = node['inner'][2]
                if c_ and c_.get('kind'):
                    mm = re.match(r'^\(?\w+<(\d+)\)?$', render(c_).replace(' ', ''))
                    if mm:
                        m_ = int(mm.group(1))
                body_alts = visit(node['inner'][-1])
                return [b * m_ for b in body_alts]
            if k == 'CallExpr':
                cal = callee_name(node)
                inner = seq([c for c in node.get('inner', []) if isinstance(c, dict)])
                if cal == 'fread':
                    a = call_args(node)
                    sz, cnt = render(a[1]), render(a[2])
                    return [x + [sz if cnt == '1' else '(%s*%s)' % (sz, cnt)] for x in inner]
                if cal in readers:
                    return [x + [render(call_args(node)[readers[cal]])] for x in inner]
                return inner
            return seq([c for c in node.get('inner', []) or [] if isinstance(c, dict)])
        return visit(block)

    def consumed(block):
        alts = consumed_paths(block)
        return alts[0] if alts else []

    def switch_runs(body_):
        """statement runs of a switch body, one per group of labels, each up to its break / goto / return (fall-through kept)"""
        items_ = body_.get('inner', []) if body_.get('kind') == 'CompoundStmt' else [body_]
        flat = []
        for it in items_:
            x = it
            first = False
            while x.get('kind') in ('CaseStmt', 'DefaultStmt'):
                first = True
                x = x['inner'][-1]
            flat.append((first, x))
        runs = []
        for i_, (first, x) in enumerate(flat):
            if not first:
                continue
            run = []
            for first2, y in flat[i_:]:
                run.append(y)
                if y.get('kind') in ('BreakStmt', 'ReturnStmt', 'GotoStmt', 'ContinueStmt'):
                    break
                if y.get('kind') == 'CompoundStmt' and y.get('inner') and y['inner'][-1].get('kind') in ('BreakStmt', 'ReturnStmt', 'GotoStmt', 'ContinueStmt'):
                    break
            runs.append(run)
        return runs
    switch_bodies = {id(x['inner'][-1]) for x in walk(cfront.body(fn)) if x.get('kind') == 'SwitchStmt'}

    def has_goto_next(block):
        for e in walk(block):
            if e.get('kind') == 'GotoStmt':
                return True
        return False

    def innermost_blocks(node):
        """CompoundStmts that contain a goto next_field directly (not via a nested compound with its own goto)."""
        res = []
        for c in walk(node):
            if c.get('kind') == 'CompoundStmt':
                direct_goto = any(s.get('kind') == 'GotoStmt' for s in c.get('inner', []))
                if direct_goto:
                    res.append(c)
        return res

    body = cfront.body(fn)
    # locals that name a size (const size_t size_p = field.size/7)
    sizes = {}
    for d in walk(body):
        if d.get('kind') == 'VarDecl' and 'init' in d and ('size_t' in cfront.qtype(d) or 'int' in cfront.qtype(d)):
            init = [c for c in d.get('inner', []) if c.get('kind') not in ('FullComment',)]
            if init and 'field.size' in render(init[-1]):
                sizes[d['name']] = render(strip(init[-1], casts=True))
    work = []
    for blk in innermost_blocks(body):
        if id(blk) in switch_bodies:
            # the statements of a switch body belong to different cases: one pseudo-block per case run that ends in a goto
            for run in switch_runs(blk):
                if run and (run[-1].get('kind') == 'GotoStmt' or (run[-1].get('kind') == 'CompoundStmt' and run[-1].get('inner') and run[-1]['inner'][-1].get('kind') == 'GotoStmt')):
                    flat_run = []
                    for y in run:
                        flat_run += (y.get('inner', []) if y.get('kind') == 'CompoundStmt' else [y])
                    work.append({'kind': 'CompoundStmt', 'inner': flat_run, '_line': run[0].get('_line') or blk.get('_line')})
        else:
            work.append(blk)
    for blk in work:
        # skip the EOF / end-of-snapshot gotos (goto finish_fields): they consume nothing by design
        gotos = [s for s in blk.get('inner', []) if s.get('kind') == 'GotoStmt']
        # label name is not in the JSON GotoStmt directly; use the source text
        src = cfront.source_line('input.c', gotos[0].get('_line'))
        if 'finish_fields' in src:
            continue
        alts = [[]]
        for s in blk.get('inner', []):
            if s.get('kind') in ('CompoundStmt',):
                continue
            alts = [a + b for a in alts for b in consumed_paths(s)][:64]
        n += 1
        line = blk.get('_line')

        def exact(reads):
            reads = [sizes.get(r_, r_) for r_ in reads]
            return reads == ['field.size'] or (len(reads) == 7 and all(r_.replace(' ', '') in ('(field.size/7)', 'field.size/7') for r_ in reads))
        bad_alts = [a for a in alts if not exact(a)]
        ok = not bad_alts
        reads = bad_alts[0] if bad_alts else alts[0]
        # frozen exception: the 64-byte file header (its first 16 bytes were consumed as the struct reb_binary_field)
        if not ok and reads == ['(sizeof(char)*bufsize)']:
            ok = True
            ctx.note('%s: file-header branch (src/input.c:%s) consumes 64-sizeof(struct reb_binary_field) bytes: frozen exception' % (rule, line))
        if len(samples) < 4:
            samples.append('src/input.c:%s branch consumes %s' % (line, reads))
        if not ok:
            ctx.report(rule, 'reb_input_fields:branch:%s' % ('+'.join(reads) or 'nothing'), 'src/input.c:%s reb_input_fields' % line,
                       'branch ends in goto next_field after consuming %s bytes instead of exactly field.size: the next header is read from the wrong offset'
                       % (reads or 'no'))
    for e in walk(body):
        if e.get('kind') == 'CallExpr' and callee_name(e) == 'fseek':
            a = call_args(e)
            if render(a[1]) == 'field.size' and render(a[2]) in ('1', 'SEEK_CUR'):
                found_seek = True
    n += 1
    if not found_seek:
        ctx.report(rule, 'reb_input_fields:unknown-field-skip', 'src/input.c reb_input_fields',
                   'unknown fields are not skipped by fseek(inf, field.size, SEEK_CUR)')
    ctx.covered(rule, 'branches of reb_input_fields after the header read: bytes consumed == field.size', n, floor=7, samples=samples)
