"""C12 - coordinate transformations: variants agree, components agree, hybrid twins agree."""
from ..core import AnalysisError, anchor
from .. import cfront, normal
from ..cfront import walk, render, toks, strip, callee_name, strip, line_of
from . import x1, slices, sibling

# families of transformations.c: (substring of the function name) -> kinds expected to be the *same* linear map
UNIFORM_FAMILIES = {
    'inertial_to_jacobi': 'Jacobi coordinates act identically on positions, velocities and accelerations',
    'jacobi_to_inertial': 'inverse Jacobi map, idem',
    'barycentric_to_inertial': 'barycentric shift is the same for every kind',
    'inertial_to_barycentric': 'idem',
}
# families where positions (heliocentric) and velocities (barycentric) transform differently by definition;
# here only slices of the same kind are compared across the variants
MIXED_FAMILIES = ['inertial_to_whds', 'whds_to_inertial', 'inertial_to_democraticheliocentric', 'democraticheliocentric_to_inertial']

TWINS = [  # (mercurius function, trace function)
    ('reb_integrator_mercurius_inertial_to_dh', 'reb_integrator_trace_inertial_to_dh'),
    ('reb_integrator_mercurius_dh_to_inertial', 'reb_integrator_trace_dh_to_inertial'),
    ('reb_integrator_mercurius_interaction_step', 'reb_integrator_trace_interaction_step'),
    ('reb_integrator_mercurius_jump_step', 'reb_integrator_trace_jump_step'),
    ('reb_integrator_mercurius_com_step', 'reb_integrator_trace_com_step'),
]
TWIN_RENAME = [(r'\bri_mercurius\b', 'ri_trace'), (r'\brim\b', 'ri_trace'), (r'\(int\)r\.N\b', 'r.N'), (r'\(\(int\)r\.N\)', 'r.N')]
# admitted differences between the twins (normalised statement text on either side -> reason)
TWIN_ADMITTED = {
    'ri_trace.mode=': 'TRACE records the mode it is in',
    'current_C': 'TRACE skips the jump step while integrating the pericentre with BS',
}


def rule_slices(ctx):
    tu = cfront.load_tu('transformations.c')
    n = 0
    samples = []
    fams = list(UNIFORM_FAMILIES) + MIXED_FAMILIES
    seen_funcs = set()
    for fam in fams:
        members = {name: tu.func(name) for name, fn in tu.funcs.items() if ('_' + fam + '_') in name and fn.get('storageClass') != 'static'}
        anchor(members, 'transformations.c family *_%s_*' % fam)
        seen_funcs |= set(members)
        canon = {}   # (func, kind) -> tree
        for name, fn in members.items():
            for k in sorted(slices.kinds_handled(fn)):
                canon[(name, k)] = slices.project(cfront.body(normal.normalised_function(fn)), k)
        if fam in UNIFORM_FAMILIES:
            items = sorted(canon.items())
            # the reference is the majority tree, so the report names the odd one out
            counts = {}
            for key, tree in items:
                counts.setdefault(tree, []).append(key)
            ref = max(counts, key=lambda t: len(counts[t]))
            ref_key = counts[ref][0]
            for key, tree in items:
                n += 1
                if tree != ref:
                    ctx.report('R12.1', '%s:%s' % key, 'src/transformations.c %s' % key[0],
                               'the %s-slice of %s is not the same map as the %s-slice of %s (%s): the variants of one transformation disagree'
                               % (key[1], key[0], ref_key[1], ref_key[0], _first_diff(ref, tree)))
            if len(samples) < 4:
                samples.append('%s: %d slices equal' % (fam, len(items)))
        else:
            bykind = {}
            for (name, k), tree in canon.items():
                bykind.setdefault(k, []).append((name, tree))
            for k, lst in bykind.items():
                lst.sort()
                ref_name, ref = lst[0]
                for name, tree in lst:
                    n += 1
                    if tree != ref and not _delegates(tree) and not _delegates(ref):
                        ctx.report('R12.1', '%s:%s' % (name, k), 'src/transformations.c %s' % name,
                                   'the %s-slice of %s differs from the %s-slice of %s (%s)' % (k, name, k, ref_name, _first_diff(ref, tree)))
    # every transform function belongs to a family (scope fact)
    for name in tu.funcs:
        if tu.funcs[name].get('storageClass') == 'static':
            continue            # a file-local helper is part of the public transformation that calls it (it is inlined there)
        if name.startswith('reb_particles_transform_') and name not in seen_funcs:
            raise AnalysisError('R12.1: new transformation %s is in no known family - tell the rule which variants it belongs to' % name)
    ctx.covered('R12.1', 'kind slices (pos/vel/acc projections, kind names neutralised) of the variants of each coordinate map are equal trees',
                n, floor=23, samples=samples)


def _delegates(tree):
    """A slice consisting only of a call (posvel variant delegating positions to the _pos variant)."""
    if tree is None:
        return True
    flat = []

    def rec(t):
        if isinstance(t, tuple):
            if t[0] in ('asg',):
                flat.append(t)
            for c in t[1:]:
                rec(c)
    rec(tree)
    return not flat


def _first_diff(a, b):
    sa, sb = slices.show(a).split('\n'), slices.show(b).split('\n')
    for x, y in zip(sa, sb):
        if x != y:
            return 'first difference: "%s" vs "%s"' % (x.strip()[:120], y.strip()[:120])
    if len(sa) != len(sb):
        return 'one has %d statements, the other %d' % (len(sa), len(sb))
    return 'structure differs'


def rule_x1(ctx):
    files = ['transformations.c', 'integrator_mercurius.c', 'integrator_trace.c', 'tools.c']
    only_tools = {'reb_simulation_move_to_hel', 'reb_simulation_move_to_com', 'reb_simulation_com', 'reb_particle_com_of_pair',
                  'reb_simulation_com_range', 'reb_simulation_jacobi_com'}
    tus = cfront.load_tus(files)
    stats = {'groups': 0, 'samples': []}
    for c in files:
        tu = tus[c]
        for name, fn in sorted(tu.funcs.items()):
            if cfront.basename(fn.get('_locfile') or fn.get('_file')) != c:
                continue
            if c == 'tools.c' and name not in only_tools:
                continue
            if c in ('integrator_mercurius.c', 'integrator_trace.c') and not any(s in name for s in ('_to_dh', 'dh_to_', 'jump_step', 'com_step', 'interaction_step')):
                continue
            if name in x1.ANISOTROPIC:
                continue
            x1.check_function(tu, fn, ctx.report, stats, 'R12.2')
    ctx.covered('R12.2', 'x/y/z component triples in transformations.c, the hybrid heliocentric shifts and the public frame changes are one formula under an axis permutation',
                stats['groups'], floor=150, samples=stats['samples'])


def rule_twins(ctx):
    tus = cfront.load_tus(['integrator_mercurius.c', 'integrator_trace.c'])
    n = 0
    samples = []
    for a, b in TWINS:
        fa = tus['integrator_mercurius.c'].func(a)
        fb = tus['integrator_trace.c'].func(b)
        la = sibling.flat(cfront.body(fa), TWIN_RENAME)
        lb = sibling.flat(cfront.body(fb), TWIN_RENAME)
        if a.endswith('jump_step'):
            # the place where dt/m0 is multiplied in differs; decide the net factor algebraically instead
            fa_ = jump_factor(fa)
            fb_ = jump_factor(fb)
            n += 6
            for which, f in ((a, fa_), (b, fb_)):
                for comp, val in sorted(f.items()):
                    if val != 'dt/m0':
                        ctx.report('R12.5', which + ':jump:' + comp, 'src %s' % which,
                                   'jump step moves %s by (%s) x sum(m v) instead of (dt/m0) x sum(m v)' % (comp, val))
            la = [l for l in la if not _is_scale_or_update(l)]
            lb = [l for l in lb if not _is_scale_or_update(l)]
        n += max(len(la), len(lb))
        for tag, xa, xb in sibling.diff(la, lb):
            txt = ' | '.join(xa + xb).replace(' ', '')
            if any(k in txt for k in TWIN_ADMITTED):
                continue
            # A textual divergence of the twins is a hint, not a verdict: a clean-up of one copy (hoisted locals, re-ordered
            # independent statements) diverges just as a defect does. It is recorded as a note; the component rule (R12.2), the
            # frame typestate (R09.6) and the algebraic jump factor above decide the copies individually.
            ctx.note('R12.5 twins %s / %s differ: mercurius has %s, trace has %s' % (a, b, (xa or ['nothing'])[0][:80], (xb or ['nothing'])[0][:80]))
        samples.append('%s ~ %s: %d statements' % (a, b, len(la)))
    ctx.covered('R12.5', 'MERCURIUS/TRACE twin operators: algebraic net factor dt/m0 of both jump steps (reported); statement-level divergence of the copies (noted only)', n, floor=100, samples=samples)


def _is_scale_or_update(l):
    import re
    l = l.replace(' ', '')
    return bool(re.match(r'^\(p[xyz][*/]=', l) or re.match(r'^\(particles\[i\]\.[xyz]\+=', l))


def jump_factor(fn):
    """{component: 'dt/m0' or a rendered factor}: product of the scalings applied to p{c} and its coefficient in the update."""
    import sympy as sp
    from .x1 import to_sympy
    out = {}
    syms = {}
    scale = {}
    for n in walk(cfront.body(fn)):
        if cfront.is_assign(n):
            lv = toks(n['inner'][0])
            op = n['opcode']
            if lv[0] == 'id' and lv[1] in ('px', 'py', 'pz') and op in ('*=', '/='):
                e = to_sympy(toks(n['inner'][1]), syms)
                scale[lv[1]] = scale.get(lv[1], sp.Integer(1)) * (e if op == '*=' else 1 / e)
            if lv[0] == 'mem' and lv[2][1] in ('x', 'y', 'z') and op == '+=' and render(lv).startswith('particles[i]'):
                c = lv[2][1]
                e = to_sympy(toks(n['inner'][1]), syms)
                pc = syms.get('p' + c)
                if pc is None:
                    out[c] = 'does not use p%s' % c
                    continue
                coef = sp.simplify(e / pc)
                tot = sp.simplify(coef * scale.get('p' + c, sp.Integer(1)))
                dt = syms.get('dt')
                m0 = syms.get('r.particles[0].m')
                if dt is not None and m0 is not None and sp.simplify(tot - dt / m0) == 0:
                    out[c] = 'dt/m0'
                else:
                    inv = {v: k for k, v in syms.items()}
                    out[c] = str(tot.subs({k: sp.Symbol(v) for k, v in inv.items()}))
    anchor(len(out) == 3, 'jump step of %s updates x,y,z of particles[i]' % fn['name'])
    return out


def rule_dispatch_pairing(ctx):
    """R12.6: wherever a coordinate system is selected by an enum constant (switch case or == test), the transformation
    called under that constant is the one of the same system at every site: the forward map chosen in from_inertial and the
    inverse maps chosen in to_inertial / synchronize / the kernels belong together. The system is read off the API name
    reb_particles_transform_<A>_to_<B>_<kind>, one of A, B being `inertial`."""
    import glob, os, re
    from .. import core
    from . import pathcond
    pat = re.compile(r'^reb_particles_transform_(\w+?)_to_(\w+?)(?:_(posvel|pos|vel|acc))?$')
    by_const = {}
    n = 0
    for path in sorted(glob.glob(os.path.join(core.REPO, 'src', '*.c'))):
        cfile = os.path.basename(path)
        if cfile == 'transformations.c':
            continue
        try:
            tu = cfront.load_tu(cfile)
        except Exception:
            continue
        for fname in sorted(tu.funcs):
            fn = tu.func(fname)
            body = cfront.body(fn)
            if body is None:
                continue
            calls = [e for e in walk(body) if e.get('kind') == 'CallExpr' and pat.match(callee_name(e) or '')]
            if not calls:
                continue
            pc = pathcond.conditions(fn, nodes=True)
            label = {}

            def mark(node, cur):
                k = node.get('kind')
                if k == 'CaseStmt':
                    lab = [x for x in walk(node['inner'][0]) if x.get('kind') == 'DeclRefExpr' and x.get('referencedDecl', {}).get('kind') == 'EnumConstantDecl']
                    cur = lab[0]['referencedDecl']['name'] if lab else cur
                elif k == 'DefaultStmt':
                    cur = None
                if k == 'CallExpr':
                    label[id(node)] = cur
                for c_ in node.get('inner', []) or []:
                    if isinstance(c_, dict):
                        mark(c_, cur)
            mark(body, None)
            for e in calls:
                m = pat.match(callee_name(e))
                a, b = m.group(1), m.group(2)
                system = b if a == 'inertial' else a
                consts = set()
                if label.get(id(e)):
                    consts.add(label[id(e)])
                for c_ in pc.get(id(e), []):
                    c_ = strip(c_)
                    if c_.get('kind') == 'BinaryOperator' and c_.get('opcode') == '==':
                        for side in c_['inner']:
                            side = strip(side, casts=True)
                            if side.get('kind') == 'DeclRefExpr' and side.get('referencedDecl', {}).get('kind') == 'EnumConstantDecl' and 'COORDINATES' in side['referencedDecl']['name']:
                                consts.add(side['referencedDecl']['name'])
                for k_ in consts:
                    if 'COORDINATES' not in k_:
                        continue
                    n += 1
                    by_const.setdefault(k_, []).append((system, 'src/%s:%s %s' % (cfile, line_of(e), fname), callee_name(e)))
        # the same selection written as a table of function pointers indexed by the constant: [REB_..._COORDINATES_X] = fn.
        # The designators are not part of the semantic initialiser list clang exports, so they are read from the
        # declaration's source lines.
        for gname, g in sorted(tu.globals.items()):
            if 'init' not in g or '[' not in cfront.qtype(g) or cfront.basename(g.get('_locfile') or g.get('_file') or '') != cfile:
                continue
            l0, l1 = g.get('_line'), g.get('_endline') or g.get('_line')
            if not l0:
                continue
            text = ' '.join(cfront.source_line(cfile, ln_) or '' for ln_ in range(l0, l1 + 1))
            for m_ in re.finditer(r'\[\s*(REB_\w*COORDINATES\w*)\s*\]\s*=\s*&?\s*(\w+)', text):
                mm = pat.match(m_.group(2))
                if mm:
                    a, b = mm.group(1), mm.group(2)
                    n += 1
                    by_const.setdefault(m_.group(1), []).append((b if a == 'inertial' else a, 'src/%s:%s %s' % (cfile, l0, gname), m_.group(2)))
    anchor(len(by_const) >= 4 and n >= 6, 'transformation calls selected by a coordinate-system constant')
    for k_, uses in sorted(by_const.items()):
        systems = {}
        for sysname, where, callee in uses:
            systems.setdefault(sysname, []).append((where, callee))
        if len(systems) > 1:
            major = max(systems, key=lambda q: len(systems[q]))
            for sysname, ws in sorted(systems.items()):
                if sysname == major:
                    continue
                for where, callee in ws:
                    ctx.report('R12.6', '%s:%s' % (where.split(' ')[-1], k_), where,
                               'under %s this site calls %s (system "%s"), while %d other sites use the "%s" maps under the same constant: the forward map and this inverse do not belong together'
                               % (k_, callee, sysname, len(systems[major]), major))
    ctx.covered('R12.6', 'transformation calls under coordinate-system constants: one system per constant at every site', n, floor=6,
                samples=['%s -> %s (%d sites)' % (k_, sorted({u[0] for u in v}), len(v)) for k_, v in sorted(by_const.items())])


def run(ctx):
    from . import protocol
    protocol.rule_inverse_reads_source(ctx, 'R12.8')     # inverse maps do not read an output mass before storing it
    protocol.rule_active_bound(ctx, 'R02.12')
    from . import edges
    edges.rule_variational_call_args(ctx, 'R16.12')  # variational sets: same map as the real particles
    edges.rule_dh_pair_extents(ctx, 'R12.7')         # forward and inverse democratic heliocentric maps sum over the same bodies
    edges.rule_prototype_names(ctx, 'R11.13')
    rule_dispatch_pairing(ctx)
    rule_slices(ctx)
    rule_x1(ctx)
    rule_twins(ctx)
    ctx.not_decided.append('forward o inverse = identity for all N (needs loop induction over particle number); rounding-level error of the round trip')
