"""Order-domain evaluation: code that touches its values only through comparisons and copies (running maxima, top-2
tracking, clamps) behaves the same for every input with the same ordering. Such a fragment is decided by evaluating it on
one representative per ordering; the evaluator below handles if/else, comparisons, && || !, and plain copies, and refuses
(Unsupported) anything else - arithmetic would break the argument."""
import itertools

from .. import cfront
from ..cfront import strip, render, is_assign


class Unsupported(Exception):
    pass


def _path(e):
    e = strip(e, casts=True)
    k = e.get('kind')
    if k == 'DeclRefExpr':
        return e['referencedDecl']['name']
    if k == 'MemberExpr':
        return _path(e['inner'][0]) + '.' + e['name']
    raise Unsupported(render(e))


def value(e, env):
    e = strip(e, casts=True)
    k = e.get('kind')
    if k in ('FloatingLiteral', 'IntegerLiteral'):
        return float(e['value'])
    if k in ('DeclRefExpr', 'MemberExpr'):
        p = _path(e)
        if p not in env:
            raise Unsupported('reads ' + p)
        return env[p]
    if k == 'ConditionalOperator':
        return value(e['inner'][1], env) if cond(e['inner'][0], env) else value(e['inner'][2], env)
    if k == 'CallExpr' and cfront.callee_name(e) in ('fmax', 'fmin') and len(cfront.call_args(e)) == 2:
        a, b = (value(x, env) for x in cfront.call_args(e))
        return max(a, b) if cfront.callee_name(e) == 'fmax' else min(a, b)
    raise Unsupported(render(e))


def cond(e, env):
    e = strip(e, casts=True)
    k = e.get('kind')
    if k == 'UnaryOperator' and e.get('opcode') == '!':
        return not cond(e['inner'][0], env)
    if k == 'BinaryOperator':
        op = e['opcode']
        if op == '&&':
            return cond(e['inner'][0], env) and cond(e['inner'][1], env)
        if op == '||':
            return cond(e['inner'][0], env) or cond(e['inner'][1], env)
        if op in ('<', '<=', '>', '>=', '==', '!='):
            a, b = value(e['inner'][0], env), value(e['inner'][1], env)
            return {'<': a < b, '<=': a <= b, '>': a > b, '>=': a >= b, '==': a == b, '!=': a != b}[op]
    raise Unsupported(render(e))


class _Return(Exception):
    pass


def run(st, env):
    """evaluate a fragment; a `return;` inside it ends the evaluation (the fragment is a whole helper body then)"""
    try:
        _run(st, env)
    except _Return:
        pass


def _run(st, env):
    k = st.get('kind')
    if k == 'ReturnStmt' and not [c for c in st.get('inner', []) if isinstance(c, dict) and c.get('kind')]:
        raise _Return()
    if k == 'CompoundStmt':
        for c in st.get('inner', []):
            _run(c, env)
        return
    if k == 'IfStmt':
        if cond(st['inner'][0], env):
            _run(st['inner'][1], env)
        elif len(st['inner']) > 2 and st['inner'][2].get('kind'):
            _run(st['inner'][2], env)
        return
    if k == 'NullStmt':
        return
    if k == 'DeclStmt':
        for d in st.get('inner', []):
            if d.get('kind') == 'VarDecl' and 'init' in d:
                init = [c for c in d.get('inner', []) if c.get('kind') not in ('FullComment',)]
                env[d['name']] = value(init[-1], env)
        return
    e = strip(st)
    if is_assign(e) and e['opcode'] == '=':
        env[_path(e['inner'][0])] = value(e['inner'][1], env)
        return
    raise Unsupported(render(st)[:60])


def weak_orderings(names):
    """one assignment of small integers per weak ordering (ties included) of the names"""
    n = len(names)
    seen = set()
    for ranks in itertools.product(range(n), repeat=n):
        # canonical: ranks use 0..k-1 without gaps
        used = sorted(set(ranks))
        canon = tuple(used.index(r_) for r_ in ranks)
        if canon in seen:
            continue
        seen.add(canon)
        yield dict(zip(names, (float(c + 1) for c in canon)))
