"""C17 - copies are independent and equal; compare reports exactly the real differences."""
import re

from ..core import AnalysisError, anchor
from .. import cfront, layout
from ..cfront import walk, strip, callee_name, call_args, render, line_of, is_assign, qtype
from . import serial

WALLCLOCK_ROWS = {'walltime', 'walltime_last_steps'}


def rewritten_pointer_members():
    """{row name: {member, ...}} pointer members that reb_input_fields rewrites after loading (finish_fields tail)."""
    tu = cfront.load_tu('input.c')
    fn = tu.family('reb_input_fields')
    out = {}
    for e in walk(cfront.body(fn)):
        if is_assign(e) and e['opcode'] == '=':
            lv = render(e['inner'][0])
            m = re.match(r'^r\.(\w+)\[\w+\]\.(\w+)$', lv)
            if m and '*' in qtype(strip(e['inner'][0])):
                out.setdefault(m.group(1), set()).add(m.group(2))
    anchor('particles' in out and 'var_config' in out, 'reb_input_fields rewrites pointer members of particles and var_config after load')
    return out


def rule_pointer_blind(ctx):
    rewritten = rewritten_pointer_members()
    recs, rows, dt, inv, sim = serial.rows_and_leaves()
    tu = cfront.load_tu('binarydiff.c')
    fn = tu.func('reb_binary_diff')
    # branches selected by strcmp(<descriptor name>, "X")==0 - in reb_binary_diff itself or in a helper of the same file
    # that it reaches (a per-field comparison moved into its own function)
    reach = ['reb_binary_diff']
    seen_f = set()
    bodies = []
    while reach:
        f_ = reach.pop()
        if f_ in seen_f or f_ not in tu.funcs:
            continue
        seen_f.add(f_)
        if cfront.basename(tu.funcs[f_].get('_locfile') or tu.funcs[f_].get('_file')) != 'binarydiff.c':
            continue
        bodies.append(cfront.body(tu.funcs[f_]))
        for x in walk(cfront.body(tu.funcs[f_])):
            if x.get('kind') == 'CallExpr' and callee_name(x) in tu.funcs:
                reach.append(callee_name(x))
    branches = {}
    # the test may be named first: const int is_particles = (strcmp(name, "particles")==0); ... if (is_particles) {...}
    flag_lit = {}
    for d in (y for b_ in bodies for y in walk(b_)):
        if d.get('kind') == 'VarDecl' and 'init' in d:
            init = [c_ for c_ in d.get('inner', []) if c_.get('kind') not in ('FullComment',)]
            if init and any(x.get('kind') == 'CallExpr' and callee_name(x) == 'strcmp' for x in walk(init[-1])) and render(init[-1]).replace(' ', '').rstrip(')').endswith('==0'):
                lits = [y.get('value', '').strip('"') for y in walk(init[-1]) if y.get('kind') == 'StringLiteral']
                if lits:
                    flag_lit[d['name']] = lits[0]
    for n in (y for b_ in bodies for y in walk(b_)):
        if n.get('kind') == 'IfStmt':
            c0 = strip(n['inner'][0], casts=True)
            if c0.get('kind') == 'DeclRefExpr' and c0['referencedDecl'].get('name') in flag_lit:
                branches[flag_lit[c0['referencedDecl']['name']]] = n['inner'][1]
    for n in (y for b_ in bodies for y in walk(b_)):
        if n.get('kind') == 'IfStmt':
            c = n['inner'][0]
            for x in walk(c):
                if x.get('kind') == 'CallExpr' and callee_name(x) == 'strcmp':
                    lits = [y.get('value', '').strip('"') for y in walk(x) if y.get('kind') == 'StringLiteral']
                    if lits and render(c).endswith('==0)'):
                        branches[lits[0]] = n['inner'][1]
    n_ = 0
    samples = []
    for r in rows:
        if inv.get(r.dtype) not in ('REB_POINTER', 'REB_POINTER_ALIGNED'):
            continue
        pm = serial.row_member(sim, inv, r)
        if not pm:
            continue
        path, m = pm
        if path not in rewritten:
            continue
        n_ += 1
        ptrs = rewritten[path]
        where = 'src/binarydiff.c reb_binary_diff (field "%s")' % r.name
        key = 'diff:' + r.name
        if r.name not in branches:
            ctx.report('R17.1', key, where, 'field "%s" holds %s whose members %s are memory addresses rewritten at load time, but it is compared with memcmp: a simulation never equals its own copy'
                       % (r.name, m.ctype, sorted(ptrs)))
            continue
        br = branches[r.name]
        # (a) member-wise function that reads none of the pointer members, or (b) memcmp after the members were cleared
        calls = [x for x in walk(br) if x.get('kind') == 'CallExpr']
        ok = False
        for c in calls:
            nm = callee_name(c)
            if nm in tu.funcs and nm not in ('reb_binary_field_descriptor_for_type',):
                reads = {y['name'] for y in walk(cfront.body(tu.funcs[nm])) if y.get('kind') == 'MemberExpr'}
                if not (reads & ptrs):
                    ok = True
                else:
                    ctx.report('R17.1', key + ':reads', where, 'the member-wise compare %s reads %s, a memory address' % (nm, sorted(reads & ptrs)))
                    ok = True
        if not ok:
            cleared = {}
            for e in walk(br):
                if is_assign(e) and e['opcode'] == '=':
                    lv = strip(e['inner'][0])
                    if lv.get('kind') == 'MemberExpr' and lv['name'] in ptrs:
                        rv = render(e['inner'][1])
                        if rv in ('0', '((void*)0)', 'NULL', '(void*)0') or 'void' in rv:
                            cleared.setdefault(render(lv['inner'][0]), set()).add(lv['name'])
            if len(cleared) >= 2 and all(v == ptrs for v in cleared.values()) and any(callee_name(c) == 'memcmp' for c in calls):
                ok = True
        if not ok:
            ctx.report('R17.1', key + ':raw', where, 'the special branch for "%s" still compares the members %s (memory addresses)' % (r.name, sorted(ptrs)))
        samples.append('%s: compared without %s' % (r.name, sorted(ptrs)))
    ctx.covered('R17.1', 'persisted arrays whose element pointer members are rewritten at load time are compared without those members', n_, floor=2, samples=samples)


def rule_ignore_set(ctx):
    recs, rows, dt, inv, sim = serial.rows_and_leaves()
    tu = cfront.load_tu('binarydiff.c')
    fn = tu.func('reb_binary_diff')
    prefixes = []
    for x in walk(cfront.body(fn)):
        if x.get('kind') == 'CallExpr' and callee_name(x) == 'strncmp':
            lits = [y.get('value', '').strip('"') for y in walk(x) if y.get('kind') == 'StringLiteral']
            nlit = [y.get('value') for y in walk(call_args(x)[2]) if y.get('kind') == 'IntegerLiteral']
            if lits and nlit:
                prefixes.append(lits[0][:int(nlit[0])])
    anchor(prefixes, 'reb_binary_diff ignores fields by a name prefix (strncmp)')
    ignored = {r.name for r in rows if any(r.name.startswith(p) for p in prefixes)}
    n = len(rows)
    for name in sorted(ignored - WALLCLOCK_ROWS):
        ctx.report('R17.2', 'ignored:' + name, 'src/binarydiff.c reb_binary_diff', 'field "%s" matches the ignore prefix %s but is not a wall-clock field: differences in it are silently not reported' % (name, prefixes))
    for name in sorted(WALLCLOCK_ROWS - ignored):
        if any(r.name == name for r in rows):
            ctx.report('R17.2', 'notignored:' + name, 'src/binarydiff.c reb_binary_diff', 'wall-clock field "%s" is not ignored: a simulation differs from its own copy by timing' % name)
    ctx.covered('R17.2', 'descriptor names vs the ignore prefix of reb_binary_diff: exactly the wall-clock rows are ignored', n, floor=100,
                samples=['prefixes %s ignore %s' % (prefixes, sorted(ignored))])


def rule_accumulation(ctx, rule='R17.5'):
    """R17.5: inside loops of reb_binary_diff the difference flags only accumulate (|= or constant true)."""
    tu = cfront.load_tu('binarydiff.c')
    n = 0
    samples = []
    for fname in ('reb_binary_diff', 'reb_particle_diff'):
        fn = tu.func(fname)

        decl_depth = {}

        def scan(node, depth):
            nonlocal n
            k = node.get('kind')
            if k in ('VarDecl', 'ParmVarDecl') and node.get('name'):
                decl_depth[node['name']] = depth
            if k in ('ForStmt', 'WhileStmt', 'DoStmt'):
                for c in node.get('inner', []) or []:
                    if isinstance(c, dict):
                        scan(c, depth + 1)
                return
            if is_assign(node):
                lv = render(node['inner'][0])
                if lv in ('fields_differ', 'are_different', 'differ') or ('differ' in lv and strip(node['inner'][0]).get('kind') == 'DeclRefExpr'):
                    n += 1
                    rhs = render(node['inner'][1])
                    ok = node['opcode'] == '|=' or rhs in ('1', '1.0', '1.') or (lv in rhs)
                    if fname == 'reb_particle_diff':
                        ok = node['opcode'] == '|=' or (lv in rhs) or rhs in ('0',)
                    # a plain assignment is an overwrite only inside a loop that is nested deeper than the flag's own declaration:
                    # a flag declared (or first set) once per iteration of the loop it lives in starts afresh on purpose
                    deeper = depth > decl_depth.get(lv, 0)
                    if not ok and (deeper or fname == 'reb_particle_diff'):
                        ctx.report(rule, '%s:%s' % (fname, lv), 'src/binarydiff.c:%s %s' % (line_of(node), fname),
                                   '%s %s %s overwrites the difference flag instead of accumulating it: only the last element compared decides' % (lv, node['opcode'], rhs))
                    samples.append('src/binarydiff.c:%s %s %s %s' % (line_of(node), lv, node['opcode'], rhs[:40]))
            for c in node.get('inner', []) or []:
                if isinstance(c, dict):
                    scan(c, depth)
        scan(cfront.body(fn), 0)
    # both passes exist: fields of buf1 in buf2 and fields of buf2 missing in buf1
    fn = tu.func('reb_binary_diff')
    loops = [x for x in cfront.body(fn).get('inner', []) if x.get('kind') == 'WhileStmt']
    n += 1
    if len(loops) < 2:
        ctx.report(rule, 'diff:passes', 'src/binarydiff.c reb_binary_diff', 'the diff does not make both passes (fields of A in B, fields of B not in A)')
    # every member of struct reb_particle that is not a rewritten pointer is compared by reb_particle_diff
    recs = layout.record_layouts()
    # "compared" = an (in)equality whose operands read the same member of the two different parameters
    pfn = tu.func('reb_particle_diff')
    params = [x.get('id') for x in pfn.get('inner', []) if x.get('kind') == 'ParmVarDecl']

    def _side(e):
        e = strip(e)
        if e.get('kind') != 'MemberExpr':
            return None
        b = strip(e['inner'][0])
        if b.get('kind') == 'DeclRefExpr':
            return (b.get('referencedDecl', {}).get('id'), e['name'])
        return None
    reads = set()
    nan_tested = set()       # (parameter, member) tested for NaN: x != x, or isnan(x)
    cross = {}
    for y in walk(cfront.body(pfn)):
        if y.get('kind') == 'CallExpr' and callee_name(y) in ('isnan', '__builtin_isnan') and call_args(y):
            a = _side(call_args(y)[0])
            if a:
                nan_tested.add(a)
        if y.get('kind') == 'BinaryOperator' and y.get('opcode') in ('!=', '=='):
            a, b = _side(y['inner'][0]), _side(y['inner'][1])
            if a and b:
                n += 1
                if a == b and a[0] in params:
                    nan_tested.add(a)          # x != x: the NaN test
                elif a[1] == b[1] and a[0] != b[0] and {a[0], b[0]} <= set(params):
                    reads.add(a[1])
                    cross[a[1]] = (a, b, y)
                else:
                    ctx.report(rule, 'particle_diff:operands:' + a[1], 'src/binarydiff.c:%s reb_particle_diff' % line_of(y),
                               'the comparison %s does not compare one member of the first particle with the same member of the second' % render(y))
    # R17.9 reflexivity: a simulation equals its own copy in every state, a particle flagged for removal from the tree
    # (y = NaN) included. `a != b` is true for two NaNs, so the comparison of a floating-point member has to let the
    # both-NaN case through (a NaN test of both operands in the function)
    nrefl = 0
    for mem, (a, b, y) in sorted(cross.items()):
        mt = [m_.ctype for m_ in recs['reb_particle'].members if m_.name == mem]
        if not mt or mt[0] not in ('double', 'float'):
            continue
        nrefl += 1
        if not (a in nan_tested and b in nan_tested):
            ctx.report('R17.9', 'particle_diff:reflexive:' + mem, 'src/binarydiff.c:%s reb_particle_diff' % line_of(y),
                       'member %s is compared with %s only: two NaNs count as a difference, so a simulation holding a NaN there (a particle flagged for removal from the tree has y = NaN) compares unequal to its own copy and to its own restored snapshot' % (mem, render(y)))
    ctx.covered('R17.9', 'floating-point members compared by reb_particle_diff: both-NaN is not a difference (the comparison is reflexive)', nrefl, floor=10)
    for m in recs['reb_particle'].members:
        n += 1
        if '*' in m.ctype:
            continue
        if m.name not in reads:
            ctx.report(rule, 'particle_diff:' + m.name, 'src/binarydiff.c reb_particle_diff', 'member %s of struct reb_particle is not compared: two simulations differing only in it compare equal' % m.name)
    ctx.covered(rule, 'difference flags accumulate; both diff passes exist; reb_particle_diff compares every non-pointer member', n, floor=20, samples=samples[:4])


def rule_deep_copy(ctx):
    """R17.3: every pointer the reader fills is assigned from an allocation in the same function, never from the stream."""
    tu = cfront.load_tu('input.c')
    fn = tu.family('reb_input_fields')
    n = 0
    samples = []
    ALLOC = {'malloc', 'realloc', 'calloc', 'aligned_alloc'}
    for e in walk(cfront.body(fn)):
        if is_assign(e) and e['opcode'] == '=':
            lv = strip(e['inner'][0])
            lt = qtype(lv)
            txt = render(lv)
            if ('*' in lt) and (txt.startswith('(*') or txt.startswith('dp7.')):
                n += 1
                rhs = strip(e['inner'][1], casts=True)
                if not (rhs.get('kind') == 'CallExpr' and callee_name(rhs) in ALLOC):
                    ctx.report('R17.3', 'input:ptr:' + txt[:30], 'src/input.c:%s reb_input_fields' % line_of(e),
                               'pointer %s is filled with %s, not with freshly allocated memory: the copy would share storage with (or point into) something else' % (txt, render(rhs)[:60]))
                samples.append('src/input.c:%s %s = %s(...)' % (line_of(e), txt, callee_name(rhs) if rhs.get('kind') == 'CallExpr' else '?'))
    # fread targets for pointer rows are the freshly allocated buffers
    tu2 = cfront.load_tu('rebound.c')
    f2 = tu2.func('reb_simulation_copy_with_messages') if 'reb_simulation_copy_with_messages' in tu2.funcs else None
    if f2 is not None:
        n += 1
        calls = [callee_name(x) for x in walk(cfront.body(f2)) if x.get('kind') == 'CallExpr']
        need = ['reb_simulation_save_to_stream', 'reb_simulation_init', 'reb_input_fields']
        idx = [calls.index(c) if c in calls else -1 for c in need]
        if -1 in idx or not (idx[1] < idx[2]):
            ctx.report('R17.3', 'copy:order', 'src/rebound.c reb_simulation_copy_with_messages',
                       'copy is not "serialise source; initialise target; read into target" (calls: %s)' % [c for c in calls if c and c.startswith('reb_')])
    ctx.covered('R17.3', 'pointers filled by the reader come from malloc/realloc; copy = serialise + init + deserialise', n, floor=9, samples=samples[:4])


def rule_no_struct_copies_into_caches(ctx, rule='R17.7'):
    """R17.7: the coordinate caches of the integrators (ri_whfast.p_jh, ...) are persisted and compared byte for byte.
    struct reb_particle carries memory addresses (sim, c). The coordinate transformations fill the caches member by
    member; an assignment of a whole particle into an element of an array parameter copies the addresses along, and a
    simulation then differs from its own copy in nothing but pointer values. Counted as a positive control: whole-struct
    reads `const struct reb_particle pi = particles[i]` into locals are fine and must be seen."""
    tu = cfront.load_tu('transformations.c')
    n = 0
    locals_seen = 0
    for fname in sorted(tu.funcs):
        fn = tu.func(fname)
        b = cfront.body(fn)
        if b is None:
            continue
        params = {p_.get('name') for p_ in cfront.params(fn) if '*' in qtype(p_) and 'reb_particle' in qtype(p_)}
        for e in walk(b):
            if e.get('kind') == 'VarDecl' and 'init' in e and qtype(e).replace('const', '').strip() == 'struct reb_particle':
                locals_seen += 1
            if is_assign(e) and e['opcode'] == '=' and qtype(strip(e['inner'][0])).replace('const', '').strip() == 'struct reb_particle':
                l0 = strip(e['inner'][0], casts=True)
                n += 1
                if l0.get('kind') == 'ArraySubscriptExpr' and render(strip(l0['inner'][0], casts=True)) in params:
                    ctx.report(rule, '%s:structcopy:%s' % (fname, render(l0)[:30]), 'src/transformations.c:%s %s' % (line_of(e), fname),
                               '%s = %s copies a whole particle, including its sim / tree-cell pointers, into a coordinate array: the persisted cache then holds memory addresses and a simulation compares unequal to its own copy' % (render(l0), render(e['inner'][1])[:40]))
    anchor(locals_seen >= 4, 'whole-particle reads into locals in transformations.c (positive control)')
    ctx.covered(rule, 'coordinate transformations fill particle arrays member by member (no whole-struct stores into array parameters)', n + locals_seen, floor=4)


def run(ctx):
    serial.rule_scratch_conditions(ctx, 'R05.11')     # scratch buffers carry nothing from one force evaluation to the next
    serial.rule_scratch_reset(ctx, 'R05.10')
    from . import protocol
    protocol.rule_diff_truth_table(ctx, 'R17.10')        # NaN on one side only is a difference
    from . import pyrules
    pyrules.rule_selector_truthiness(ctx, 'R06.11', ('Simulation', 'Simulationarchive'))   # a simulation equals its own restored snapshot, snapshot 0 included
    serial.rule_zeroed_particle_arrays(ctx)     # R05.12: persisted particle arrays contain no bytes nobody computed
    from . import c06 as _c06
    _c06.rule_empty_delta(ctx)     # R06.10: a simulation equals its own restored snapshot also when that state equals the first snapshot
    serial.rule_R05_1(ctx)         # R05.1: every member that a copy needs is persisted (a copy is serialise + deserialise)
    from . import c19
    c19.rule_serving_is_readonly(ctx)     # R19.4: copying does not change the source
    rule_no_struct_copies_into_caches(ctx)
    serial.rule_inert_members(ctx, 'R17.8')       # a latch that is not persisted must not steer the copy differently from its source
    from . import c06
    c06.rule_index_growth(ctx)
    c06.rule_counter_update(ctx)         # R06.9: the restored snapshot drops arrays that vanished after the first one           # the restored snapshot is the requested one only if the index holds all of them
    rule_pointer_blind(ctx)
    rule_ignore_set(ctx)
    rule_accumulation(ctx)
    rule_deep_copy(ctx)
    serial.rule_tree_predicate(ctx, 'R17.6')
    serial.rule_R05_2(ctx)                 # copies and == go through the descriptor table: a row designating another member makes a field invisible to both
    from . import c06
    c06.rule_cadence(ctx)                  # R06.5: the state a snapshot stores equals the live state (deadline advanced before the write)
    ctx.not_decided.append('interleavings of edits on a copy and its source; fields that differ only in padding bytes')
