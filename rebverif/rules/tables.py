"""R01.3 / R03.1 - coefficient tables against their mathematical definitions (constant folding of source data)."""
from fractions import Fraction
import math

from ..core import AnalysisError, anchor
from .. import cfront
from . import compose as C, x4


def ulps(a, b):
    """Distance in units of the last place between two doubles."""
    if a == b:
        return 0
    import struct
    ia = struct.unpack('<q', struct.pack('<d', a))[0]
    ib = struct.unpack('<q', struct.pack('<d', b))[0]
    if ia < 0:
        ia = -(ia & 0x7fffffffffffffff)
    if ib < 0:
        ib = -(ib & 0x7fffffffffffffff)
    return abs(ia - ib)


def rule_tables(ctx, rule):
    n = 0
    samples = []
    tu = cfront.load_tu('integrator_whfast.c')
    tabs = x4.literal_tables(tu)
    # invfactorial[n] * n! == 1 (as the double the compiler materialises; 1 ulp allowed where 1/n! is a midpoint case)
    anchor('invfactorial' in tabs, 'integrator_whfast.c invfactorial table')
    inv = tabs['invfactorial']
    anchor(len(inv) >= 30, 'invfactorial has >= 30 entries')
    for i, v in enumerate(inv):
        n += 1
        want = float(Fraction(1, math.factorial(i)))
        u = ulps(float(v), want)
        if u > 1:
            ctx.report(rule, 'invfactorial[%d]' % i, 'src/integrator_whfast.c invfactorial[%d]' % i,
                       'entry is %.17g but 1/%d! = %.17g (%d ulp apart): the Stumpff series is summed with a wrong coefficient' % (float(v), i, want, u))
    samples.append('invfactorial: %d entries vs 1/n!' % len(inv))
    ctx.covered(rule, 'coefficient table entries vs exactly computed definitions (rounded to double, <=1 ulp)', n, floor=30, samples=samples)
