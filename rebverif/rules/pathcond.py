"""Path conditions of a structured function body: for every node, the conditions that hold when control reaches it -
conditions of the enclosing ifs (negated in else branches, left operand of && for its right operand) and the negated
conditions of the preceding `if (c) return/continue/break;` guards of the enclosing statement lists. Conditions are put in
the normal form of normal.py (x != 0 -> x, !(a < b) -> a >= b for integers), rendered without blanks."""
from .. import cfront, normal
from ..cfront import render


def _txt(c):
    return render(normal.norm_cond(c)).replace(' ', '')


def conditions(fn, nodes=False):
    """nodes=True: the stacks hold the normalised condition ASTs instead of their text."""
    out = {}
    _txt0 = (lambda c: normal.norm_cond(c)) if nodes else globals()['_txt']
    # flag locals (`const int restore = (r->exact_finish_time==1);`, never assigned again) stand for their initialiser
    import copy as _copy
    flags = {}
    assigned = set()
    for x in cfront.walk(cfront.body(fn)):
        if cfront.is_assign(x) or (x.get('kind') == 'UnaryOperator' and x.get('opcode') in ('++', '--')):
            l0 = cfront.strip(x['inner'][0])
            if l0.get('kind') == 'DeclRefExpr':
                assigned.add(l0['referencedDecl'].get('id'))
    for d in cfront.walk(cfront.body(fn)):
        if d.get('kind') == 'VarDecl' and 'init' in d and d.get('id') not in assigned and ('int' in cfront.qtype(d) or 'Bool' in cfront.qtype(d)) and '*' not in cfront.qtype(d):
            init = [c for c in d.get('inner', []) if c.get('kind') not in ('FullComment',)]
            if init:
                i0 = cfront.strip(init[-1], casts=True)
                if (i0.get('kind') == 'BinaryOperator' and i0.get('opcode') in ('==', '!=', '<', '>', '<=', '>=', '&&', '||')) or (i0.get('kind') == 'UnaryOperator' and i0.get('opcode') == '!'):
                    flags[d.get('id')] = init[-1]

    def expand(c, depth=0):
        if not flags or depth > 4 or not isinstance(c, dict):
            return c
        if not any(x.get('kind') == 'DeclRefExpr' and x.get('referencedDecl', {}).get('id') in flags for x in cfront.walk(c)):
            return c
        c = _copy.deepcopy(c)
        wrapper = {'kind': 'ParenExpr', 'inner': [c]}

        def sub(n):
            for idx, ch in enumerate(n.get('inner', []) or []):
                if isinstance(ch, dict):
                    if ch.get('kind') == 'DeclRefExpr' and ch.get('referencedDecl', {}).get('id') in flags:
                        n['inner'][idx] = {'kind': 'ParenExpr', 'type': ch.get('type', {}), 'inner': [expand(flags[ch['referencedDecl']['id']], depth + 1)]}
                    else:
                        sub(ch)
        sub(wrapper)
        return wrapper['inner'][0]

    def _txt(c):
        return _txt0(expand(c))

    def exits(st):
        """does this statement (a then-branch) always leave the enclosing list?"""
        items = st.get('inner', []) if st.get('kind') == 'CompoundStmt' else [st]
        return bool(items) and items[-1].get('kind') in ('ReturnStmt', 'ContinueStmt', 'BreakStmt', 'GotoStmt')

    def rec(n, stack):
        out[id(n)] = stack
        k = n.get('kind')
        if k == 'CompoundStmt':
            cur = list(stack)
            for c in n.get('inner', []):
                rec(c, list(cur))
                if c.get('kind') == 'IfStmt' and len(c['inner']) == 2 and exits(c['inner'][1]):
                    cur = cur + [_txt(normal.negate(c['inner'][0]))]
            return
        if k == 'SwitchStmt':
            sel = n['inner'][0]
            rec(sel, stack)
            body = n['inner'][-1]
            items = body.get('inner', []) if body.get('kind') == 'CompoundStmt' else [body]
            out[id(body)] = stack
            label_nodes = []
            for it in items:
                x = it
                while x.get('kind') in ('CaseStmt', 'DefaultStmt'):
                    if x.get('kind') == 'CaseStmt':
                        label_nodes.append(x['inner'][0])
                    x = x['inner'][-1]
            cur = None          # None: not reachable by a label yet / after a break
            for it in items:
                x = it
                fresh = None
                while x.get('kind') in ('CaseStmt', 'DefaultStmt'):
                    out[id(x)] = stack
                    if x.get('kind') == 'CaseStmt':
                        eq = {'kind': 'BinaryOperator', 'opcode': '==', 'type': {'qualType': 'int'}, 'inner': [sel, x['inner'][0]]}
                        fresh = [_txt(eq)] if fresh is None else []      # several labels on one statement: a disjunction, not recorded
                    else:
                        fresh = [_txt(normal.negate({'kind': 'BinaryOperator', 'opcode': '==', 'type': {'qualType': 'int'}, 'inner': [sel, l_]})) for l_ in label_nodes] if fresh is None else []
                    x = x['inner'][-1]
                if fresh is not None:
                    cur = fresh if cur is None else []          # fall-through from the previous case: nothing is known
                rec(x, stack + (cur or []))
                if x.get('kind') == 'BreakStmt' or (x.get('kind') == 'CompoundStmt' and x.get('inner') and x['inner'][-1].get('kind') in ('BreakStmt', 'ReturnStmt')) or x.get('kind') == 'ReturnStmt':
                    cur = None
            return
        if k == 'IfStmt':
            c = n['inner'][0]
            rec(c, stack)
            rec(n['inner'][1], stack + [_txt(c)])
            if len(n['inner']) > 2 and n['inner'][2].get('kind'):
                rec(n['inner'][2], stack + [_txt(normal.negate(c))])
            return
        if k == 'BinaryOperator' and n.get('opcode') == '&&':
            rec(n['inner'][0], stack)
            rec(n['inner'][1], stack + [_txt(n['inner'][0])])
            return
        if k == 'BinaryOperator' and n.get('opcode') == '||':
            rec(n['inner'][0], stack)
            rec(n['inner'][1], stack + [_txt(normal.negate(n['inner'][0]))])
            return
        for ch in n.get('inner', []) or []:
            if isinstance(ch, dict):
                rec(ch, stack)
    rec(cfront.body(fn), [])
    return out


def paths(fn, limit=4096):
    """All paths through a loop-free function body made of if/else, returns, calls and assignments: each path is a list of
    events ('cond', text) for a branch taken, ('call', callee, node) and ('return', node). Loops make the function
    unsuitable (ValueError)."""
    from ..cfront import callee_name, walk

    def calls_of(node):
        return [('call', callee_name(e), e) for e in walk(node) if e.get('kind') == 'CallExpr']

    def ways(c, truth):
        """the ways a condition can come out `truth`, each a list of atom texts (short-circuit order): a||b is true through a,
        or through !a and b; it is false only through !a and !b"""
        c0 = cfront.strip(c)
        if c0.get('kind') == 'UnaryOperator' and c0.get('opcode') == '!':
            return ways(c0['inner'][0], not truth)
        if c0.get('kind') == 'BinaryOperator' and c0.get('opcode') in ('&&', '||'):
            a, b = c0['inner']
            conj = (c0['opcode'] == '&&') == truth
            if conj:        # both operands must come out `truth`
                return [x + y for x in ways(a, truth) for y in ways(b, truth)]
            return ways(a, truth) + [x + y for x in ways(a, not truth) for y in ways(b, truth)]
        return [[_txt(c0) if truth else _txt(normal.negate(c0))]]

    def seq(items, k):
        """continuation-passing enumeration; k(events) -> iterable of complete paths"""
        if not items:
            yield from k([])
            return
        st, rest = items[0], items[1:]
        kind = st.get('kind')
        if kind in ('ForStmt', 'WhileStmt', 'DoStmt', 'SwitchStmt', 'GotoStmt'):
            raise ValueError('%s in %s' % (kind, fn.get('name')))
        if kind == 'CompoundStmt':
            yield from seq(list(st.get('inner', [])) + rest, k)
            return
        if kind == 'ReturnStmt':
            yield from ([*calls_of(st), ('return', st)],)
            return
        if kind == 'IfStmt':
            c = st['inner'][0]
            pre = calls_of(c)
            then_blk = [st['inner'][1]]
            else_blk = [st['inner'][2]] if len(st['inner']) > 2 and st['inner'][2].get('kind') else []
            for atoms in ways(c, True):
                for p in seq(then_blk + rest, k):
                    yield pre + [('cond', a) for a in atoms] + p
            for atoms in ways(c, False):
                for p in seq(else_blk + rest, k):
                    yield pre + [('cond', a) for a in atoms] + p
            return
        ev = calls_of(st)
        for p in seq(rest, k):
            yield ev + p
    out = []
    for p in seq(list(cfront.body(fn).get('inner', [])), lambda ev: ([('return', None)],)):
        out.append(p)
        if len(out) > limit:
            raise ValueError('too many paths in %s' % fn.get('name'))
    return out
