"""Operator sequences of every composition scheme, extracted by X4 for every option combination.

A *scenario* is a list of actions ('step' = part1, force, part2; 'sync' = synchronize) run on one interpreter whose
option members persist between actions, exactly as they do in the simulation object."""
from fractions import Fraction

from ..core import AnalysisError, anchor
from .. import cfront
from . import x4
from .x4 import Poly

FILES = ['integrator_whfast.c', 'integrator_saba.c', 'integrator_eos.c', 'integrator_leapfrog.c', 'integrator_janus.c',
         'integrator_mercurius.c', 'integrator_trace.c', 'integrator_sei.c', 'integrator.c']

_state = {}


def db():
    if 'funcs' not in _state:
        tus = cfront.load_tus(FILES)
        _state['tus'] = tus
        _state['funcs'] = x4.all_funcs(tus)
        enums = {}
        tabs = {}
        for t in tus.values():
            enums.update(t.enums)
            tabs.update(x4.literal_tables(t))
        _state['enums'] = enums
        _state['tabs'] = tabs
    return _state


class Scheme:
    """Configuration of the extractor for one integrator."""

    def __init__(self, name, part1, part2, sync, ops, descend, base_flags, groups, ignore=()):
        self.name, self.part1, self.part2, self.sync = name, part1, part2, sync
        self.ops, self.descend, self.base_flags, self.groups, self.ignore = ops, descend, base_flags, groups, ignore


WH_OPS = {'reb_whfast_kepler_step', 'reb_whfast_com_step', 'reb_whfast_jump_step', 'reb_whfast_interaction_step'}
WH_GROUPS = {'drift': {'reb_whfast_kepler_step'}, 'com': {'reb_whfast_com_step'}, 'jump': {'reb_whfast_jump_step'},
             'kick': {'reb_whfast_interaction_step'}, 'time': {'TIME'}}

SCHEMES = {
    'whfast': Scheme('whfast', 'reb_integrator_whfast_part1', 'reb_integrator_whfast_part2', 'reb_integrator_whfast_synchronize',
                     WH_OPS,
                     {'reb_integrator_whfast_synchronize', 'reb_whfast_apply_corrector', 'reb_whfast_apply_corrector2', 'reb_whfast_corrector_Z',
                      'reb_whfast_operator_U', 'reb_whfast_operator_Y', 'reb_whfast_operator_C'},
                     {'r.ri_whfast.keep_unsynchronized': 0, 'r.ri_whfast.recalculate_coordinates_this_timestep': 0,
                      'r.ri_whfast.coordinates': 0, 'r.N_var_config': 0, 'r.calculate_megno': 0, 'r.N_var': 0,
                      'r.ri_whfast.corrector': 0, 'r.ri_whfast.corrector2': 0, 'r.ri_whfast.kernel': 0,
                      'r.ri_whfast.recalculate_coordinates_but_not_synchronized_warning': 0},
                     WH_GROUPS),
    'saba': Scheme('saba', 'reb_integrator_saba_part1', 'reb_integrator_saba_part2', 'reb_integrator_saba_synchronize',
                   WH_OPS | {'reb_saba_corrector_step'},
                   {'reb_integrator_saba_synchronize', 'reb_saba_stages'},
                   {'r.ri_saba.keep_unsynchronized': 0, 'r.ri_whfast.recalculate_coordinates_this_timestep': 0,
                    'r.ri_whfast.coordinates': 0, 'r.N_var_config': 0, 'r.calculate_megno': 0,
                    # WHFast's own flag is never written while SABA runs; it keeps its initial value (reb_simulation_init / whfast reset)
                    'r.ri_whfast.is_synchronized': 1},
                   dict(WH_GROUPS, corrector={'reb_saba_corrector_step'})),
    'eos': Scheme('eos', 'reb_integrator_eos_part1', 'reb_integrator_eos_part2', 'reb_integrator_eos_synchronize',
                  {'reb_integrator_eos_drift_shell0', 'reb_integrator_eos_interaction_shell0'},
                  {'reb_integrator_eos_synchronize', 'reb_integrator_eos_preprocessor', 'reb_integrator_eos_postprocessor'},
                  {'r.calculate_megno': 0, 'r.ri_eos.n': 2, 'r.ri_eos.phi1': 0},
                  {'drift': {'reb_integrator_eos_drift_shell0'}, 'kick': {'reb_integrator_eos_interaction_shell0'}, 'time': {'TIME'}}),
    'leapfrog': Scheme('leapfrog', 'reb_integrator_leapfrog_part1', 'reb_integrator_leapfrog_part2', 'reb_integrator_leapfrog_synchronize',
                       set(), set(), {}, {'drift': {'DRIFT'}, 'kick': {'KICK'}, 'time': {'TIME'}}),
    'janus': Scheme('janus', 'reb_integrator_janus_part1', 'reb_integrator_janus_part2', 'reb_integrator_janus_synchronize',
                    {'drift', 'kick', 'to_double', 'to_int'}, {'gg', 'reb_integrator_janus_synchronize'},
                    {'r.ri_janus.recalculate_integer_coordinates_this_timestep': 0, 'r.ri_janus.N_allocated': 7, 'r.N': 7},
                    {'drift': {'drift'}, 'kick': {'kick'}, 'time': {'TIME'}}),
    'mercurius': Scheme('mercurius', 'reb_integrator_mercurius_part1', 'reb_integrator_mercurius_part2', 'reb_integrator_mercurius_synchronize',
                        {'reb_integrator_mercurius_interaction_step', 'reb_integrator_mercurius_jump_step', 'reb_integrator_mercurius_com_step',
                         'reb_integrator_mercurius_kepler_step', 'reb_mercurius_encounter_step'},
                        {'reb_integrator_mercurius_synchronize'},
                        {'r.N_var_config': 0, 'r.ri_mercurius.recalculate_coordinates_this_timestep': 0, 'r.ri_mercurius.recalculate_r_crit_this_timestep': 0},
                        {'kick': {'reb_integrator_mercurius_interaction_step'}, 'jump': {'reb_integrator_mercurius_jump_step'},
                         'com': {'reb_integrator_mercurius_com_step'}, 'drift': {'reb_integrator_mercurius_kepler_step'},
                         'encounter': {'reb_mercurius_encounter_step'}, 'time': {'TIME'}}),
}


def interp(scheme, flags):
    d = db()
    s = SCHEMES[scheme]
    for f in (s.part1, s.part2, s.sync):
        anchor(f in d['funcs'], 'driver function ' + f)
    for f in s.ops:
        if not f.isupper():
            anchor(f in d['funcs'], 'operator function %s of %s' % (f, scheme))
    fl = dict(s.base_flags)
    fl.update(flags)
    return x4.Interp(d['funcs'], d['enums'], d['tabs'], s.ops, set(s.descend) | _reaches_ops(s), fl, ignore=s.ignore)


_reach_cache = {}


def _reaches_ops(s):
    """helper functions (not operators themselves) from which an operator of the scheme is reachable: a block moved into a
    new static helper is interpreted like the block it replaced"""
    if s.name in _reach_cache:
        return _reach_cache[s.name]
    d = db()
    calls = {}
    for name, fn in d['funcs'].items():
        cs = set()
        for e in cfront.walk(cfront.body(fn)):
            if e.get('kind') == 'CallExpr':
                nm = cfront.callee_name(e)
                if nm:
                    cs.add(nm)
        calls[name] = cs
    ops = {o for o in s.ops if not o.isupper()}
    reach = set()
    changed = True
    while changed:
        changed = False
        for name, cs in calls.items():
            if name in reach or name in ops:
                continue
            if cs & (ops | reach):
                reach.add(name)
                changed = True
    # only helpers of the scheme's own files, and never the drivers of other schemes
    own = {name for name, fn in d['funcs'].items() if s.name in (cfront.basename(fn.get('_locfile') or fn.get('_file')) or '')}
    drivers = {x for sc in SCHEMES.values() for x in (sc.part1, sc.part2, sc.sync)}
    out = (reach & own) - drivers - {'reb_simulation_update_acceleration'}
    _reach_cache[s.name] = out
    return out


JANUS_SCALES = ('r.ri_janus.scale_pos', 'r.ri_janus.scale_vel')


def run(scheme, flags, actions=('step',)):
    """Execute actions; returns (interp, list of per-action trace slices).

    JANUS converts between physical and integer units with two scale members. They are normally handed to the operators as
    separate arguments (read as access paths, R10.3 compares them across call sites). If the conversion is folded into the
    step-size argument instead, the coefficients no longer fold with the scales unknown; the step is then executed with
    both scales = 1 (every unit conversion is a monomial in the scales, so this gives the scale-free coefficients all
    rules are written for) and twice more with distinct scales: the factor by which an operator's coefficient changes has
    to be the same at all of its call sites. The result of that probe is attached to the interpreter (it.scale_probe)."""
    try:
        return _run(scheme, flags, actions)
    except AnalysisError as ex:
        if scheme != 'janus' or 'does not fold' not in str(ex) or any(k in flags for k in JANUS_SCALES):
            raise
    base = dict(flags)
    base.update({JANUS_SCALES[0]: 1, JANUS_SCALES[1]: 1})
    it, slices = _run(scheme, base, actions)
    probe = []
    for sp_, sv_ in ((3, 7), (5, 11)):
        f2 = dict(flags)
        f2.update({JANUS_SCALES[0]: sp_, JANUS_SCALES[1]: sv_})
        it2, _ = _run(scheme, f2, actions)
        ratios = {}
        for (nm, args, line), (nm2, args2, line2) in zip(it.raw, it2.raw):
            if nm != nm2 or nm not in ('drift', 'kick'):
                continue
            a1 = [a for a in args if isinstance(a, x4.Poly)]
            a2 = [a for a in args2 if isinstance(a, x4.Poly)]
            if not a1 or not a2 or a1[0].coef(1) == 0:
                continue
            ratios.setdefault(nm, []).append((a2[0].coef(1) / a1[0].coef(1), line))
        probe.append(((sp_, sv_), ratios))
    it.scale_probe = probe
    return it, slices


def _run(scheme, flags, actions=('step',)):
    s = SCHEMES[scheme]
    it = interp(scheme, flags)
    slices = []
    for a in actions:
        start = len(it.trace)
        if a == 'step':
            it.call(s.part1, ['@r'])
            it.trace.append(('FORCE', []))
            it.call(s.part2, ['@r'])
        elif a == 'sync':
            it.call(s.sync, ['@r'])
        elif a.startswith('set:'):
            # the user (or a collision / particle insertion) raises an option member between two calls: 'set:<member path>=<int>'
            k, v = a[4:].split('=')
            it.flags[k] = int(v)
        else:
            raise ValueError(a)
        slices.append(it.trace[start:])
    return it, slices


def totals(scheme, trace):
    return x4.sums(trace, SCHEMES[scheme].groups)


def one_dt(p, tol=Fraction(1, 10**14)):
    """Is the polynomial equal to 1*dt up to the double-rounding tolerance (and nothing else)?"""
    if any(k != 1 and abs(v) > tol for k, v in p.c.items()):
        return False
    return abs(p.coef(1) - 1) <= tol


def is_zero(p, tol=Fraction(1, 10**14)):
    return all(abs(v) <= tol for v in p.c.values())


def approx_eq(a, b, tol=Fraction(1, 10**14)):
    return is_zero(a - b, tol)


def ops_only(scheme, trace, groups=('drift', 'kick', 'jump', 'com')):
    """[(group, Poly)] of the operator applications in order (no TIME/FORCE/CALL entries)."""
    g = SCHEMES[scheme].groups
    out = []
    for nm, args in trace:
        for gn in groups:
            if gn in g and nm in g[gn] and args:
                out.append((gn, args[0] if scheme != 'janus' else args[0]))
    return out


def saba_types():
    d = db()
    vals = [(k, v) for k, v in d['enums'].items() if k.startswith('REB_SABA_')]
    anchor(len(vals) >= 18, 'REB_SABA_* enumerators')
    return sorted(vals, key=lambda kv: kv[1])


def eos_types():
    d = db()
    vals = [(k, v) for k, v in d['enums'].items() if k.startswith('REB_EOS_')]
    anchor(len(vals) >= 9, 'REB_EOS_* enumerators')
    return sorted(vals, key=lambda kv: kv[1])


def whfast_kernels():
    d = db()
    vals = [(k, v) for k, v in d['enums'].items() if k.startswith('REB_WHFAST_KERNEL_')]
    anchor(len(vals) >= 4, 'REB_WHFAST_KERNEL_* enumerators')
    return sorted(vals, key=lambda kv: kv[1])


def eos_shell1(phi1, n):
    """Operator sequence of one outer drift of length dt, split into n inner steps with splitting phi1."""
    d = db()
    ops = {'reb_integrator_eos_drift_shell1', 'reb_integrator_eos_interaction_shell1'}
    for f in list(ops) + ['reb_integrator_eos_drift_shell0']:
        anchor(f in d['funcs'], 'EOS function ' + f)
    it = x4.Interp(d['funcs'], d['enums'], d['tabs'], ops,
                   {'reb_integrator_eos_preprocessor', 'reb_integrator_eos_postprocessor'},
                   {'r.ri_eos.phi1': phi1, 'r.ri_eos.n': n})
    it.call('reb_integrator_eos_drift_shell0', ['@r', Poly.dt()])
    return it


# ---------------------------------------------------------------- canonical operator words
def main_track(scheme, trace, groups=('drift', 'kick', 'jump', 'encounter', 'corrector')):
    """[(group, (Poly args...))] of the non-commuting operators in execution order."""
    g = SCHEMES[scheme].groups
    out = []
    for nm, args in trace:
        for gn in groups:
            if gn in g and nm in g[gn] and args:
                out.append((gn, tuple(args)))
    return out


def reduce_word(word, tol=Fraction(1, 10**14)):
    """Free reduction: adjacent applications of the same one-parameter operator add; zero applications vanish
    (exp(aX)exp(bX) = exp((a+b)X) is the only relation used). Cancellations may expose new adjacent pairs."""
    out = []
    for g, args in word:
        cur = (g, tuple(args))
        while True:
            if all(is_zero(a_, tol) for a_ in cur[1]):
                cur = None
                break
            if out and out[-1][0] == cur[0] and len(out[-1][1]) == len(cur[1]):
                prev = out.pop()
                cur = (cur[0], tuple(x + y for x, y in zip(prev[1], cur[1])))
                continue
            break
        if cur is not None:
            out.append(cur)
    return out


def words_equal(a, b, tol=Fraction(1, 10**14)):
    if len(a) != len(b):
        return False
    for (g1, a1), (g2, a2) in zip(a, b):
        if g1 != g2 or len(a1) != len(a2):
            return False
        if not all(is_zero(x - y, tol) for x, y in zip(a1, a2)):
            return False
    return True


def word_str(w, limit=12):
    s = ['%s(%s)' % (g, ', '.join(str(a) for a in args)) for g, args in w[:limit]]
    return ' '.join(s) + (' ... [%d operators]' % len(w) if len(w) > limit else '')
