"""C20 - changes of units and of reference frame are exact symmetries: static necessary conditions."""
import ast
import math
import re
from fractions import Fraction

from ..core import AnalysisError, anchor
from .. import cfront, pyfront
from ..cfront import walk, strip, render, line_of, is_assign, callee_name, call_args, qtype
from . import e8, x1

LEVEL = 'other'


# ---------------------------------------------------------------- units: dimension typing of the converters
class Mono:
    """coefficient * product of unit symbols (old_L, new_T, ...) to integer powers, times the converted value."""
    def __init__(self, coef=1.0, pw=None):
        self.coef = coef
        self.pw = {k: v for k, v in (pw or {}).items() if v != 0}

    def __mul__(self, o):
        d = dict(self.pw)
        for k, v in o.pw.items():
            d[k] = d.get(k, 0) + v
        return Mono(self.coef * o.coef, d)

    def __truediv__(self, o):
        d = dict(self.pw)
        for k, v in o.pw.items():
            d[k] = d.get(k, 0) - v
        return Mono(self.coef / o.coef, d)

    def __pow__(self, n):
        return Mono(self.coef ** n, {k: v * n for k, v in self.pw.items()})

    def __repr__(self):
        s = ' '.join('%s^%d' % (k, v) for k, v in sorted(self.pw.items()))
        return ('%g ' % self.coef if self.coef != 1 else '') + (s or '1')


TABLE_DIM = {'lengths_SI': 'L', 'times_SI': 'T', 'masses_SI': 'M'}


def mono_eval(node, env):
    if isinstance(node, ast.Constant) and isinstance(node.value, (int, float)):
        return Mono(float(node.value))
    if isinstance(node, ast.Name):
        if node.id in env:
            return env[node.id]
        raise ValueError('unbound ' + node.id)
    if isinstance(node, ast.Subscript) and isinstance(node.value, ast.Name) and node.value.id in TABLE_DIM and isinstance(node.slice, ast.Name):
        p = node.slice.id
        side = 'old' if p.startswith('old') else ('new' if p.startswith('new') else p)
        # the parameter must itself be the unit name of the table's dimension
        return Mono(1.0, {'%s_%s[%s]' % (side, TABLE_DIM[node.value.id], p): 1})
    if isinstance(node, ast.BinOp):
        if isinstance(node.op, ast.Pow):
            if isinstance(node.right, ast.Constant) and isinstance(node.right.value, int):
                return mono_eval(node.left, env) ** node.right.value
            raise ValueError('non-integer power')
        a, b = mono_eval(node.left, env), mono_eval(node.right, env)
        if isinstance(node.op, ast.Mult):
            return a * b
        if isinstance(node.op, ast.Div):
            return a / b
        raise ValueError('operator ' + type(node.op).__name__)
    raise ValueError('expression ' + ast.dump(node)[:60])


DIMS = {'convert_mass': {'M': 1}, 'convert_length': {'L': 1}, 'convert_vel': {'L': 1, 'T': -1}, 'convert_acc': {'L': 1, 'T': -2}}
PARAM_DIM = {'old_l': 'L', 'new_l': 'L', 'old_t': 'T', 'new_t': 'T', 'old_m': 'M', 'new_m': 'M'}
FIELD_CONV = {'m': 'convert_mass', 'x': 'convert_length', 'y': 'convert_length', 'z': 'convert_length', 'r': 'convert_length',
              'vx': 'convert_vel', 'vy': 'convert_vel', 'vz': 'convert_vel', 'ax': 'convert_acc', 'ay': 'convert_acc', 'az': 'convert_acc'}


def rule_unit_dimensions(ctx):
    db = pyfront.pydb()
    tree = db.files['rebound/units.py']
    funcs = {n.name: n for n in tree.body if isinstance(n, ast.FunctionDef)}
    n = 0
    samples = []
    for fname, dim in DIMS.items():
        anchor(fname in funcs, 'units.py ' + fname)
        fn = funcs[fname]
        args = [a.arg for a in fn.args.args]
        env = {args[0]: Mono(1.0, {'value': 1})}
        result = None
        try:
            for st in fn.body:
                if isinstance(st, ast.Assign) and isinstance(st.targets[0], ast.Name):
                    env[st.targets[0].id] = mono_eval(st.value, env)
                elif isinstance(st, ast.Return):
                    result = mono_eval(st.value, env)
        except ValueError as e:
            raise AnalysisError('R20.1: cannot type %s: %s' % (fname, e))
        anchor(result is not None, '%s returns a value' % fname)
        want = {'value': 1}
        for d, p in dim.items():
            want['old_%s[old_%s]' % (d, d.lower())] = p
            want['new_%s[new_%s]' % (d, d.lower())] = -p
        n += 1
        where = 'rebound/units.py:%d %s' % (fn.lineno, fname)
        if result.pw != want or abs(result.coef - 1.0) > 0:
            ctx.report('R20.1', 'units:' + fname, where,
                       '%s returns value * [%s] but a quantity of dimension %s converts as value * [%s]: the conversion is not reversible/transitive and disagrees with G'
                       % (fname, result, ' '.join('%s^%d' % kv for kv in dim.items()), Mono(1.0, {k: v for k, v in want.items() if k != 'value'})))
        samples.append('%s: %s' % (fname, result))
    # convert_G
    fn = funcs.get('convert_G')
    anchor(fn is not None, 'units.py convert_G')
    ret = [s for s in fn.body if isinstance(s, ast.Return)][0]
    env = {'G_SI': Mono(1.0, {'G_SI': 1})}
    try:
        for st_ in fn.body:
            if isinstance(st_, ast.Assign) and len(st_.targets) == 1 and isinstance(st_.targets[0], ast.Name):
                try:
                    env[st_.targets[0].id] = mono_eval(st_.value, env)
                except ValueError:
                    pass        # not a monomial in the unit tables (e.g. the unpacking of the unit triple)
        g = mono_eval(ret.value, env)
    except ValueError as e:
        raise AnalysisError('R20.1: cannot type convert_G: %s' % e)
    n += 1
    if g.pw != {'G_SI': 1, 'new_M[new_m]': 1, 'new_T[new_t]': 2, 'new_L[new_l]': -3} or g.coef != 1.0:
        ctx.report('R20.1', 'units:convert_G', 'rebound/units.py:%d convert_G' % fn.lineno, 'convert_G returns [%s], not G_SI * M * T^2 / L^3' % g)
    # the order in which newunits is unpacked matches check_units' return order
    unpack = [s for s in fn.body if isinstance(s, ast.Assign) and isinstance(s.targets[0], ast.Tuple)]
    n += 1
    if not unpack or [e.id for e in unpack[0].targets[0].elts] != ['new_l', 'new_t', 'new_m']:
        ctx.report('R20.1', 'units:convert_G:order', 'rebound/units.py convert_G', 'the unit triple is not unpacked as (length, time, mass)')
    cu = funcs.get('check_units')
    rets = [s for s in ast.walk(cu) if isinstance(s, ast.Return)]
    def unit_kind_order(fn_):
        """['L','T','M'] order of the tuple check_units returns, resolved through the tables each element is looked up in;
        None when the shape is not understood"""
        rets_ = [s_ for s_ in ast.walk(fn_) if isinstance(s_, ast.Return) and isinstance(s_.value, ast.Tuple)]
        if not rets_:
            return None
        tab = {'lengths_SI': 'L', 'times_SI': 'T', 'masses_SI': 'M'}
        # (a) names assigned under `if unit in <table>`
        by_name = {}
        for x in ast.walk(fn_):
            if isinstance(x, ast.If) and isinstance(x.test, ast.Compare) and isinstance(x.test.ops[0], ast.In) and isinstance(x.test.comparators[0], ast.Name) \
                    and x.test.comparators[0].id in tab:
                for a_ in x.body:
                    if isinstance(a_, ast.Assign) and isinstance(a_.targets[0], ast.Name):
                        by_name[a_.targets[0].id] = tab[x.test.comparators[0].id]
        # (b) a tuple of (key, table) pairs and a dictionary filled under `if unit in table`
        by_key = {}
        for x in ast.walk(fn_):
            if isinstance(x, ast.Tuple) and x.elts and all(isinstance(e_, ast.Tuple) and len(e_.elts) == 2 and isinstance(e_.elts[0], ast.Constant)
                                                          and isinstance(e_.elts[1], ast.Name) and e_.elts[1].id in tab for e_ in x.elts):
                for e_ in x.elts:
                    by_key[e_.elts[0].value] = tab[e_.elts[1].id]
        order = []
        for e_ in rets_[-1].value.elts:
            if isinstance(e_, ast.Name) and e_.id in by_name:
                order.append(by_name[e_.id])
            elif isinstance(e_, ast.Subscript) and isinstance(e_.slice, ast.Constant) and e_.slice.value in by_key:
                order.append(by_key[e_.slice.value])
            else:
                return None
        return order
    order_ = unit_kind_order(cu)
    if order_ is None:
        ctx.note('R20.1: the tuple returned by check_units is built in a way the rule does not resolve; its (length, time, mass) order is not decided')
    elif order_ != ['L', 'T', 'M']:
        ctx.report('R20.1', 'units:check_units:order', 'rebound/units.py check_units', 'check_units returns its units in the order %s, not (length, time, mass)' % order_)
    # units_convert_particle applies the converter of the field's dimension with the arguments in the right slots
    fn = funcs['units_convert_particle']

    def sconst(node, env):
        """value of a string-valued constant expression (loop variable bound in env), else None"""
        if isinstance(node, ast.Constant) and isinstance(node.value, str):
            return node.value
        if isinstance(node, ast.Name) and node.id in env:
            return env[node.id]
        if isinstance(node, ast.BinOp) and isinstance(node.op, ast.Add):
            l, r_ = sconst(node.left, env), sconst(node.right, env)
            return l + r_ if l is not None and r_ is not None else None
        if isinstance(node, ast.JoinedStr):
            out = ''
            for v in node.values:
                if isinstance(v, ast.Constant):
                    out += str(v.value)
                elif isinstance(v, ast.FormattedValue):
                    x = sconst(v.value, env)
                    if x is None:
                        return None
                    out += x
            return out
        return None

    def field_of(node, env):
        """(object text, field) designated by p.f or getattr(p, <const>)"""
        if isinstance(node, ast.Attribute):
            return ast.unparse(node.value), node.attr
        if isinstance(node, ast.Call) and isinstance(node.func, ast.Name) and node.func.id == 'getattr' and len(node.args) >= 2:
            f_ = sconst(node.args[1], env)
            return (ast.unparse(node.args[0]), f_) if f_ is not None else None
        return None

    assigns = []      # (field, call node, env, lineno)

    def collect(stmts, env):
        for st in stmts:
            if isinstance(st, ast.Assign) and isinstance(st.targets[0], ast.Attribute) and isinstance(st.value, ast.Call):
                assigns.append((st.targets[0].attr, st.value, env, st.lineno))
            elif isinstance(st, ast.Expr) and isinstance(st.value, ast.Call) and isinstance(st.value.func, ast.Name) and st.value.func.id == 'setattr' and len(st.value.args) == 3:
                f_ = sconst(st.value.args[1], env)
                if f_ is None:
                    raise AnalysisError('R20.1: setattr with a field name the rule cannot evaluate at rebound/units.py:%d' % st.lineno)
                if isinstance(st.value.args[2], ast.Call):
                    assigns.append((f_, st.value.args[2], env, st.lineno))
            elif isinstance(st, ast.For) and isinstance(st.target, ast.Name):
                it = st.iter
                vals = None
                if isinstance(it, ast.Constant) and isinstance(it.value, str):
                    vals = list(it.value)
                elif isinstance(it, (ast.Tuple, ast.List)) and all(isinstance(e_, ast.Constant) and isinstance(e_.value, str) for e_ in it.elts):
                    vals = [e_.value for e_ in it.elts]
                if vals is None:
                    raise AnalysisError('R20.1: loop over a non-constant sequence in units_convert_particle (rebound/units.py:%d)' % st.lineno)
                for v_ in vals:
                    collect(st.body, dict(env, **{st.target.id: v_}))
    collect(fn.body, {})
    for fld, call, env, lineno in assigns:
        conv = call.func.id if isinstance(call.func, ast.Name) else ast.unparse(call.func)
        n += 1
        where = 'rebound/units.py:%d units_convert_particle' % lineno
        if FIELD_CONV.get(fld) != conv:
            ctx.report('R20.1', 'units:field:' + fld, where, 'p.%s is converted with %s, its dimension needs %s' % (fld, conv, FIELD_CONV.get(fld)))
        src = field_of(call.args[0], env) if call.args else None
        if not (src and src[1] == fld):
            ctx.report('R20.1', 'units:field:%s:src' % fld, where, 'p.%s is computed from %s' % (fld, ast.unparse(call.args[0]) if call.args else '?'))
        if conv in funcs:
            formal = [a.arg for a in funcs[conv].args.args][1:]
            actual = [ast.unparse(a) for a in call.args[1:]]
            if formal != actual:
                ctx.report('R20.1', 'units:field:%s:args' % fld, where, '%s(%s) is called with %s' % (conv, ', '.join(formal), ', '.join(actual)))
    done = {fld for fld, call, env, lineno in assigns}
    for fld in FIELD_CONV:
        if fld not in done:
            ctx.report('R20.1', 'units:field:%s:missing' % fld, 'rebound/units.py units_convert_particle',
                       'p.%s (dimension handled by %s) is not converted: after a change of units the particle carries this field in the old unit' % (fld, FIELD_CONV[fld]))
    ctx.covered('R20.1', 'unit converters typed as monomials in the unit tables: value * old^d / new^d with d the dimension of the field; convert_G = G_SI M T^2 / L^3; field/converter/argument agreement',
                n, floor=17, samples=samples)


def rule_unit_tables(ctx):
    db = pyfront.pydb()
    tree = db.files['rebound/units.py']
    env = {}
    tabs = {}
    for st in tree.body:
        if isinstance(st, ast.Assign) and isinstance(st.targets[0], ast.Name):
            nm = st.targets[0].id
            try:
                v = _const(st.value, env)
            except ValueError:
                continue
            env[nm] = v
            if isinstance(v, dict):
                tabs[nm] = v
    anchor(all(t in tabs for t in TABLE_DIM), 'units.py tables times_SI, lengths_SI, masses_SI')
    n = 0
    T, L, M = tabs['times_SI'], tabs['lengths_SI'], tabs['masses_SI']

    def same(tab, names, what):
        nonlocal n
        vals = {k: tab.get(k) for k in names}
        n += len(names)
        if any(v is None for v in vals.values()):
            ctx.report('R20.2', 'tables:%s:missing' % what, 'rebound/units.py', 'unit aliases %s are not all defined' % [k for k, v in vals.items() if v is None])
        elif len(set(vals.values())) != 1:
            ctx.report('R20.2', 'tables:%s' % what, 'rebound/units.py', 'aliases of one unit have different values: %s' % vals)
    same(T, ['day', 'days', 'd'], 'day')
    same(T, ['yr', 'year', 'years', 'yrs', 'jyr'], 'year')
    same(L, ['au', 'aus'], 'au')
    same(L, ['pc', 'parsec'], 'pc')
    same(M, ['msun', 'solarmass', 'sunmass', 'msolar'], 'msun')
    same(M, ['g', 'gram'], 'gram')
    exact = [(T, 's', 1.0), (T, 'hr', 3600.0), (T, 'day', 86400.0), (T, 'yr', 365.25 * 86400.0), (T, 'kyr', 365.25 * 86400.0 * 1e3), (T, 'myr', 365.25 * 86400.0 * 1e6),
             (T, 'gyr', 365.25 * 86400.0 * 1e9), (L, 'm', 1.0), (L, 'cm', 0.01), (L, 'km', 1000.0), (L, 'au', 149597870700.0), (M, 'kg', 1.0), (M, 'g', 1e-3)]
    for tab, k, v in exact:
        n += 1
        if tab.get(k) is None or abs(tab[k] - v) > 2e-16 * abs(v):
            ctx.report('R20.2', 'tables:exact:' + k, 'rebound/units.py', 'unit %r is %r, its definition is %r' % (k, tab.get(k), v))
    # yr2pi makes G=1 with au and msun: yr2pi^2 * G M_sun = au^3
    n += 1
    G_SI = env.get('G_SI')
    if 'yr2pi' in T and G_SI:
        lhs = T['yr2pi'] ** 2 * G_SI * M['msun']
        rhs = L['au'] ** 3
        if abs(lhs / rhs - 1) > 1e-14:
            ctx.report('R20.2', 'tables:yr2pi', 'rebound/units.py', 'yr2pi^2 * G * M_sun / au^3 = %.17g, not 1: G is not 1 in (au, yr2pi, msun)' % (lhs / rhs))
    else:
        ctx.report('R20.2', 'tables:yr2pi:missing', 'rebound/units.py', 'yr2pi is not defined')
    # positivity / sanity of the planetary masses (no independent oracle offline)
    for k, v in M.items():
        n += 1
        if not (isinstance(v, float) and v > 0 and math.isfinite(v)):
            ctx.report('R20.2', 'tables:mass:' + k, 'rebound/units.py', 'mass unit %r is %r' % (k, v))
    ctx.covered('R20.2', 'unit tables (constant folding): aliases equal, exact SI definitions, yr2pi^2 G M_sun = au^3, finite positive masses', n, floor=40,
                samples=['%d time, %d length, %d mass units' % (len(T), len(L), len(M))])


def _const(node, env):
    if isinstance(node, ast.Call) and isinstance(node.func, ast.Attribute) and pyfront._name(node.func.value) == 'math':
        f = getattr(math, node.func.attr)
        return f(*[_const(a, env) for a in node.args])
    if isinstance(node, ast.Dict):
        return {_const(k, env): _const(v, env) for k, v in zip(node.keys, node.values)}
    if isinstance(node, ast.BinOp):
        a, b = _const(node.left, env), _const(node.right, env)
        return {ast.Add: lambda: a + b, ast.Sub: lambda: a - b, ast.Mult: lambda: a * b, ast.Div: lambda: a / b, ast.Pow: lambda: a ** b}[type(node.op)]()
    if isinstance(node, ast.Name):
        if node.id in env:
            return env[node.id]
        raise ValueError(node.id)
    return pyfront.const_value(node, env)


def rule_units_setter(ctx):
    db = pyfront.pydb()
    sim = db.classes['Simulation']
    n = 0
    for meth, need in (('update_units', ['convert_G']), ('convert_particle_units', ['units_convert_particle', 'update_units', 'check_units'])):
        fn = sim.defs.get(meth)
        anchor(fn is not None, 'Simulation.' + meth)
        names = {pyfront._name(x.func) for x in ast.walk(fn) if isinstance(x, ast.Call)}
        n += 1
        for nd in need:
            if nd not in names:
                ctx.report('R20.3', 'setter:%s:%s' % (meth, nd), 'rebound/simulation.py:%d Simulation.%s' % (fn.lineno, meth), '%s does not call %s' % (meth, nd))
    fn = sim.defs['update_units']
    hashes = {}
    for st in fn.body:
        if isinstance(st, ast.Assign) and isinstance(st.targets[0], ast.Attribute) and st.targets[0].attr.startswith('python_unit_'):
            m = re.search(r'newunits\[(\d)\]', ast.unparse(st.value))
            hashes[st.targets[0].attr] = int(m.group(1)) if m else None
    n += 1
    if hashes != {'python_unit_l': 0, 'python_unit_t': 1, 'python_unit_m': 2}:
        ctx.report('R20.3', 'setter:hash-slots', 'rebound/simulation.py Simulation.update_units', 'the unit hashes are stored as %s, not (l,t,m) = newunits[0,1,2]' % hashes)
    fn = sim.defs['convert_particle_units']
    calls = [x for x in ast.walk(fn) if isinstance(x, ast.Call) and pyfront._name(x.func) == 'units_convert_particle']
    n += 1
    if calls:
        lets_ = {}
        for st_ in ast.walk(fn):
            if isinstance(st_, ast.Assign) and len(st_.targets) == 1 and isinstance(st_.targets[0], ast.Name) and isinstance(st_.value, ast.Call):
                lets_.setdefault(st_.targets[0].id, ast.unparse(st_.value).replace(' ', ''))
        args = [ast.unparse(a).replace(' ', '') for a in calls[0].args]
        args = [lets_.get(a_, a_) if a_ in lets_ and lets_[a_].startswith('hash_to_unit(') else a_ for a_ in args]
        want = ['p', 'hash_to_unit(self.python_unit_l)', 'hash_to_unit(self.python_unit_t)', 'hash_to_unit(self.python_unit_m)', 'new_l', 'new_t', 'new_m']
        if args != want:
            ctx.report('R20.3', 'setter:convert-args', 'rebound/simulation.py Simulation.convert_particle_units', 'units_convert_particle is called with %s' % args)
    ctx.covered('R20.3', 'units setter: G recomputed by convert_G, particles converted by units_convert_particle with (old l,t,m; new l,t,m), hashes stored in the l,t,m members', n, floor=4)


# ---------------------------------------------------------------- quaternion algebra
def rule_quaternions(ctx):
    import sympy as sp
    tus = cfront.load_tus(['rotations.c'])
    E = e8.E8(tus)
    R, V = 'struct reb_rotation', 'struct reb_vec3d'
    p, q = E.sym_struct('p', R), E.sym_struct('q', R)
    v, a, b = E.sym_struct('v', V), E.sym_struct('a', V), E.sym_struct('b', V)
    n2 = lambda s: sum(x ** 2 for x in s.values())
    n = 0
    samples = []

    def oblig(key, residuals, msg):
        nonlocal n
        for name, res in residuals:
            n += 1
            ok = sp.expand(res) == 0
            if not ok:
                try:
                    ok = sp.simplify(res) == 0
                except Exception:
                    ok = False
            ctx.obligation(ok)
            if not ok:
                ctx.report('R20.4', 'quat:%s:%s' % (key, name), 'src/rotations.c', '%s: residual in %s is %s' % (msg, name, str(sp.factor(res))[:140]))
    try:
        pq = E.call('reb_rotation_mul', [p, q])
        oblig('norm', [('|pq|^2', n2(pq) - n2(p) * n2(q))], 'the quaternion product is not norm-multiplicative (|p q|^2 = |p|^2 |q|^2): rotations do not compose')
        # Hamilton product against its definition
        P = sp.Quaternion(p['r'], p['ix'], p['iy'], p['iz'])
        Q = sp.Quaternion(q['r'], q['ix'], q['iy'], q['iz'])
        PQ = P * Q
        oblig('hamilton', [('r', pq['r'] - PQ.a), ('ix', pq['ix'] - PQ.b), ('iy', pq['iy'] - PQ.c), ('iz', pq['iz'] - PQ.d)], 'reb_rotation_mul is not the Hamilton product')
        qi = E.call('reb_rotation_inverse', [q])
        one = E.call('reb_rotation_mul', [q, qi])
        oblig('inverse', [('r', one['r'] - 1), ('ix', one['ix']), ('iy', one['iy']), ('iz', one['iz'])], 'q * inverse(q) is not the identity')
        cj = E.call('reb_rotation_conjugate', [q])
        oblig('conjugate', [('r', cj['r'] - q['r']), ('ix', cj['ix'] + q['ix']), ('iy', cj['iy'] + q['iy']), ('iz', cj['iz'] + q['iz'])], 'conjugate is not (r, -i)')
        nm = E.call('reb_rotation_normalize', [q])
        oblig('normalize', [('|n|^2', sp.simplify(n2(nm) - 1))], 'normalize(q) does not have unit norm')
        idq = E.call('reb_rotation_identity', [])
        oblig('identity', [('r', idq['r'] - 1), ('ix', idq['ix']), ('iy', idq['iy']), ('iz', idq['iz'])], 'the identity rotation is not (0,0,0,1)')
        cr = E.call('reb_vec3d_cross', [a, b])
        cr2 = E.call('reb_vec3d_cross', [b, a])
        dotv = lambda s, t: sum(s[c] * t[c] for c in 'xyz')
        oblig('cross', [('a.(axb)', dotv(a, cr)), ('b.(axb)', dotv(b, cr)), ('x', cr['x'] + cr2['x']), ('y', cr['y'] + cr2['y']), ('z', cr['z'] + cr2['z'])],
              'the cross product is not orthogonal to its factors / not antisymmetric')
        d = E.call('reb_vec3d_dot', [a, b])
        oblig('dot', [('a.b', d - dotv(a, b))], 'the dot product is wrong')
        vr = E.call('reb_vec3d_rotate', [dict(v), q])
        # isometry modulo |q|^2 = 1
        G1 = sp.groebner([n2(q) - 1], *list(q.values()), *list(v.values()), order='grevlex')
        res = G1.reduce(sp.expand(n2(vr) - n2(v)))[1]
        oblig('isometry', [('|Rv|^2-|v|^2', res)], 'rotating a vector with a unit quaternion changes its length')
        # rotation by the identity
        vi = E.call('reb_vec3d_rotate', [dict(v), idq])
        oblig('rot-identity', [(c, vi[c] - v[c]) for c in 'xyz'], 'rotating by the identity changes the vector')
        # sandwich product q v q^-1
        Vq = sp.Quaternion(0, v['x'], v['y'], v['z'])
        S = Q * Vq * sp.Quaternion(q['r'], -q['ix'], -q['iy'], -q['iz'])
        oblig('sandwich', [(c, G1.reduce(sp.expand(vr[c] - comp))[1]) for c, comp in (('x', S.b), ('y', S.c), ('z', S.d))], 'reb_vec3d_rotate is not v -> q v q* for unit q')
        # composition: rotate(v, p*q) == rotate(rotate(v, q), p)
        v1 = E.call('reb_vec3d_rotate', [E.call('reb_vec3d_rotate', [dict(v), q]), p])
        v2 = E.call('reb_vec3d_rotate', [dict(v), pq])
        G2 = sp.groebner([n2(p) - 1, n2(q) - 1], *list(p.values()), *list(q.values()), *list(v.values()), order='grevlex')
        oblig('composition', [(c, G2.reduce(sp.expand(v1[c] - v2[c]))[1]) for c in 'xyz'], 'rotating by p*q is not rotating by q and then by p (the documented order)')
        # axis-angle gives a unit quaternion
        ang = sp.Symbol('angle', real=True)
        ax = E.sym_struct('ax', V)
        qa = E.call('reb_rotation_init_angle_axis', [ang, ax])
        oblig('angle-axis', [('|q|^2', sp.simplify(sp.trigsimp(n2(qa) - 1)))], 'init_angle_axis does not return a unit quaternion')
        # particle rotation rotates position and velocity with the same quaternion
        samples.append('Hamilton product, inverse, conjugate, normalize, identity, cross, dot, isometry, sandwich, composition, axis-angle')
    except e8.NotSummarisable as ex:
        raise AnalysisError('R20.4: a rotation helper is no longer loop-free straight-line code: %s' % ex)
    ctx.covered('R20.4', 'quaternion/vector algebra of rotations.c as polynomial identities over symbolic inputs (exact, Groebner reduction modulo unit norms)', n, floor=30, samples=samples)


def rule_rotation_structure(ctx):
    tu = cfront.load_tu('rotations.c')
    n = 0
    # reb_particle_irotate: pos and vel rotated with the same q and written back component-wise
    fn = tu.func('reb_particle_irotate')
    calls = [render(e).replace(' ', '') for e in walk(cfront.body(fn)) if e.get('kind') == 'CallExpr' and callee_name(e) == 'reb_vec3d_irotate']
    n += 1
    if calls != ['reb_vec3d_irotate((&pos),q)', 'reb_vec3d_irotate((&vel),q)']:
        ctx.report('R20.5', 'irotate:particle', 'src/rotations.c reb_particle_irotate', 'position and velocity are not both rotated by q: %s' % calls)
    wb = {render(e['inner'][0]).replace(' ', ''): render(e['inner'][1]).replace(' ', '') for e in walk(cfront.body(fn)) if is_assign(e)}
    want = {'p.x': 'pos.x', 'p.y': 'pos.y', 'p.z': 'pos.z', 'p.vx': 'vel.x', 'p.vy': 'vel.y', 'p.vz': 'vel.z'}
    n += 1
    if wb != want:
        ctx.report('R20.5', 'irotate:writeback', 'src/rotations.c reb_particle_irotate', 'rotated components are written back as %s' % wb)
    # whole-simulation linear maps act on all N particles (variational particles are vectors of the same space)
    for cfile, fname in (('rotations.c', 'reb_simulation_irotate'), ('tools.c', 'reb_simulation_imul'), ('tools.c', 'reb_simulation_iadd'), ('tools.c', 'reb_simulation_isub')):
        f = cfront.load_tu(cfile).func(fname)
        loops = [x for x in walk(cfront.body(f)) if x.get('kind') == 'ForStmt']
        n += 1
        anchor(len(loops) == 1, '%s has one loop over particles' % fname)
        cond = render(loops[0]['inner'][2]).replace(' ', '')
        m = re.match(r'^\(i<(\w+(?:\.\w+)?)\)$', cond)
        bound = m.group(1) if m else None
        defs = {}
        for d in walk(cfront.body(f)):
            if d.get('kind') == 'VarDecl' and 'init' in d:
                init = [c for c in d.get('inner', []) if c.get('kind') not in ('FullComment',)]
                defs[d['name']] = render(init[-1]).replace(' ', '')
        val = defs.get(bound, bound)
        if val not in ('r.N', 'sim.N'):
            ctx.report('R20.5', 'linearmap:%s:bound' % fname, 'src/%s:%s %s' % (cfile, line_of(loops[0]), fname),
                       '%s transforms particles i < %s, not all N particles: variational particles (displacement vectors in the same frame) are left untransformed' % (fname, val))
        if fname in ('reb_simulation_iadd', 'reb_simulation_isub'):
            # the loop over the particles runs only when both simulations hold the same number of particles: an early
            # `if (N != N2) return` before it or an enclosing `if (N == N2)` are the same guard
            from . import pathcond, extents
            pc = pathcond.conditions(f)
            L_ = extents.lets(f)
            guards = {extents.canon(extents.resolve(c_, L_)) for c_ in pc.get(id(loops[0]), [])}
            if not ({'r.N==r2.N', 'r2.N==r.N'} & guards):
                ctx.report('R20.5', 'linearmap:%s:sizes' % fname, 'src/tools.c %s' % fname, 'simulations with different particle numbers are not refused')
    # the degenerate (antiparallel) branch of init_from_to exists and returns a quaternion with r = 0 built from a cross product
    f = tu.func('reb_rotation_init_from_to')
    n += 1
    from . import pathcond as _pc
    pcs = _pc.conditions(f)
    muls = [x for x in walk(cfront.body(f)) if x.get('kind') == 'CallExpr' and callee_name(x) == 'reb_rotation_mul']
    crosses = [x for x in walk(cfront.body(f)) if x.get('kind') == 'CallExpr' and callee_name(x) == 'reb_vec3d_cross']
    anchor(muls, 'reb_rotation_init_from_to composes two half rotations with reb_rotation_mul')

    def normal_path(node):
        cs = pcs.get(id(node), [])
        return any('isnormal' in c and not c.startswith('!') for c in cs)

    def degenerate_path(node):
        cs = pcs.get(id(node), [])
        return any('isnormal' in c and c.startswith('!') for c in cs)
    if not all(normal_path(m_) for m_ in muls):
        ctx.report('R20.5', 'from_to:degenerate', 'src/rotations.c reb_rotation_init_from_to',
                   'the composition of the two half rotations is not restricted to the case where |from+to| is a normal number: for antiparallel vectors it normalises a zero vector')
    elif not any(degenerate_path(c_) for c_ in crosses):
        ctx.report('R20.5', 'from_to:degenerate:axes', 'src/rotations.c reb_rotation_init_from_to',
                   'the antiparallel case does not build its rotation axis from a cross product with a coordinate axis (%d cross products on that path)' % sum(1 for c_ in crosses if degenerate_path(c_)))
    # rotation.py forwards to the C implementation
    db = pyfront.pydb()
    rot = db.classes.get('Rotation')
    anchor(rot is not None, 'rebound/rotation.py Rotation')
    fwd = {'__mul__': ['reb_rotation_mul', 'reb_vec3d_irotate', 'reb_particle_irotate', 'reb_simulation_irotate'], 'inverse': ['reb_rotation_inverse'],
           'normalize': ['reb_rotation_normalize'], 'from_to': ['reb_rotation_init_from_to'], 'orbit': ['reb_rotation_init_orbit'], 'to_new_axes': ['reb_rotation_init_to_new_axes']}
    for meth, need in fwd.items():
        fn = rot.defs.get(meth)
        if fn is None:
            continue
        n += 1
        refs = {x.attr for x in ast.walk(fn) if isinstance(x, ast.Attribute) and pyfront._name(x.value) == 'clibrebound'}
        if not (set(need) & refs):
            ctx.report('R20.5', 'rotation.py:' + meth, 'rebound/rotation.py:%d Rotation.%s' % (fn.lineno, meth), 'Rotation.%s does not forward to %s' % (meth, need))
    ctx.covered('R20.5', 'rotation application structure: particle pos+vel with the same q, whole-simulation linear maps over all N, degenerate from-to branch, Python forwards to C', n, floor=10)


def rule_components(ctx):
    files = ['tools.c', 'rotations.c', 'particle.c']
    stats, nfun = x1.run_files(ctx, 'R20.6', files)
    ctx.covered('R20.6', 'x/y/z statement triples of every function of tools.c, rotations.c and particle.c (imul/iadd/isub, move_to_hel/com, centre-of-mass helpers, '
                'rotations, orbit conversion outside the reference-plane stanzas) are one formula under an axis permutation',
                stats['groups'], floor=85, samples=stats['samples'])


def rule_com_variations(ctx):
    """R20.7: moving to the centre of mass shifts every variational configuration by the matching derivative of the
    centre of mass. With X = sum m x and M = sum m the centre of mass is X/M; its first derivative along a variation
    (dm_i, dx_i) and its mixed second derivative along two first-order variations and their second-order particle are
    obtained by differentiating sum_i (m_i + ...)(x_i + ...)/(M + ...). The loops of reb_simulation_move_to_com must add up
    exactly those summands, with totals (dm, dma, dmb, ddm) that come from completed loops over the right member."""
    import sympy as sp
    from . import reductions as R
    tu = cfront.load_tu('tools.c')
    fn = tu.func('reb_simulation_move_to_com')
    n = 0
    samples = []
    M = sp.Symbol('M', positive=True)
    m, x, v = sp.symbols('m x v', real=True)
    # per-particle symbols of the variational particles: first order (d), first order a/b, second order (ab)
    S = {k: sp.Symbol(k, real=True) for k in ('dm', 'dx', 'dv', 'am', 'ax', 'av', 'bm', 'bx', 'bv', 'abm', 'abx', 'abv', 'DM', 'DMA', 'DMB', 'DDM')}
    ea, eb = sp.symbols('ea eb')

    def spec(order, q, dq, aq, bq, abq):
        if order == 1:
            e = (m + ea * S['dm']) * (q + ea * dq) / (M + ea * S['DM'])
            return sp.diff(e, ea).subs(ea, 0)
        e = (m + ea * S['am'] + eb * S['bm'] + ea * eb * S['abm']) * (q + ea * aq + eb * bq + ea * eb * abq) / (M + ea * S['DMA'] + eb * S['DMB'] + ea * eb * S['DDM'])
        return sp.diff(e, ea, eb).subs({ea: 0, eb: 0})

    all_loops = R.loops(fn)
    # index locals classified by the member of var_config they are read from (names are free)
    idx_class = {}
    for d in walk(cfront.body(fn)):
        if d.get('kind') == 'VarDecl' and 'init' in d:
            ini = [c_ for c_ in d.get('inner', []) if c_.get('kind') not in ('FullComment',)]
            i0 = strip(ini[-1], casts=True) if ini else {}
            if i0.get('kind') == 'MemberExpr' and 'reb_variational_configuration' in qtype(strip(i0['inner'][0])):
                idx_class[d['name']] = {'index': 'own', 'index_1st_order_a': 'a', 'index_1st_order_b': 'b'}.get(i0['name'])
    # ... or base pointers into the particle array: struct reb_particle* var1a = particles + vc->index_1st_order_a; var1a[i]
    base_class = {}
    for d in walk(cfront.body(fn)):
        if d.get('kind') == 'VarDecl' and 'init' in d and '*' in qtype(d) and 'reb_particle' in qtype(d):
            ini = [c_ for c_ in d.get('inner', []) if c_.get('kind') not in ('FullComment',)]
            i0 = strip(ini[-1], casts=True) if ini else {}
            if i0.get('kind') == 'BinaryOperator' and i0.get('opcode') == '+':
                l_, r_ = strip(i0['inner'][0], casts=True), strip(i0['inner'][1], casts=True)
                if render(l_).replace('r.', '') == 'particles':
                    if r_.get('kind') == 'MemberExpr' and 'reb_variational_configuration' in qtype(strip(r_['inner'][0])):
                        base_class[d['name']] = {'index': 'own', 'index_1st_order_a': 'a', 'index_1st_order_b': 'b'}.get(r_['name'])
                    elif r_.get('kind') == 'DeclRefExpr' and r_['referencedDecl']['name'] in idx_class:
                        base_class[d['name']] = idx_class[r_['referencedDecl']['name']]
    anchor({'own', 'a', 'b'} <= set(idx_class.values()) | set(base_class.values()), 'locals read from var_config[v].index / index_1st_order_a / index_1st_order_b in reb_simulation_move_to_com')
    # 1. no partial sums
    for f in all_loops:
        n += 1
        for name, line in R.partial_sum_reads(f):
            ctx.report('R20.7', 'move_to_com:partial:%s' % name, 'src/tools.c:%s reb_simulation_move_to_com' % line,
                       'the total %s is still being accumulated by this loop when it is used: the shift of the variational particles is computed from a partial sum' % name)

    def loop_var(f):
        for d in walk(f['inner'][0] or {}):
            if d.get('kind') == 'VarDecl':
                return d['name']
        return None

    # locals that merely name one particle of the loop (const struct reb_particle* pv = &particles[i+index]; or a copy)
    aliases = {}
    for d in walk(cfront.body(fn)):
        if d.get('kind') == 'VarDecl' and 'init' in d and 'reb_particle' in qtype(d):
            ini = [c_ for c_ in d.get('inner', []) if c_.get('kind') not in ('FullComment',)]
            if ini:
                t_ = render(ini[-1]).replace(' ', '')
                t_ = re.sub(r'^\(?&\(?', '', t_).rstrip(')')
                if re.match(r'^(?:r\.)?particles\[', t_):
                    if t_.count('(') > t_.count(')'):
                        t_ += ')' * (t_.count('(') - t_.count(')'))
                    aliases[d['name']] = t_

    def operand_class(txt, lv):
        """particles[(i+idx)].fld -> (class of idx or 'real', fld)"""
        # a pointer local let-inlined by the summand reader: (&particles[(i+index)]).x
        txt = txt.replace('&', '')
        mp = re.match(r'^\((.*)\)\.(\w+)$', txt)
        if mp and mp.group(1).count('(') == mp.group(1).count(')'):
            txt = mp.group(1) + '.' + mp.group(2)
        ma = re.match(r'^\(?\*?(\w+)\)?\.(\w+)$', txt)
        if ma and ma.group(1) in aliases:
            txt = aliases[ma.group(1)] + '.' + ma.group(2)
        mo = re.match(r'^\(?(?:r\.)?particles\+(\w+)\)?\[\(?(\w+)\)?\]\.(\w+)$', txt)      # (particles+index)[i].m
        if mo and mo.group(2) == lv:
            return (idx_class.get(mo.group(1)), mo.group(3))
        mb = re.match(r'^(\w+)\[\(?(\w+)\)?\]\.(\w+)$', txt)
        if mb and mb.group(1) in base_class and mb.group(2) == lv:
            return (base_class[mb.group(1)], mb.group(3))
        m_ = re.match(r'^(?:r\.)?particles\[\(?(\w+)(?:\+(\w+))?\)?\]\.(\w+)$', txt)
        if not m_ or m_.group(1) != lv:
            return None
        if m_.group(2) is None:
            return ('real', m_.group(3))
        return (idx_class.get(m_.group(2)), m_.group(3))

    # 2. totals: scalar accumulated from the mass member of one configuration
    totals = {}            # scalar name -> class of the configuration it sums ('own', 'a', 'b'), per enclosing order
    for f in all_loops:
        lv = loop_var(f)
        for lvn, op, rhs, ln in R.accumulations(f):
            if not re.match(r'^[A-Za-z_]\w*$', lvn):
                continue
            oc = operand_class(render(rhs).replace(' ', ''), lv)
            if oc is None:
                continue
            n += 1
            if oc[1] != 'm' or op != '+=' or oc[0] is None:
                ctx.report('R20.7', 'move_to_com:total:%s' % lvn, 'src/tools.c:%s reb_simulation_move_to_com' % ln,
                           'the total %s is accumulated with %s %s; a mass total sums the .m member of one variational configuration' % (lvn, op, render(rhs)))
            else:
                totals.setdefault(lvn, set()).add(oc[0])
    # 3. summands
    found = {1: 0, 2: 0}
    for f in all_loops:
        accs = R.accumulations(f)
        lv = loop_var(f)
        shift = None
        for lvn, op, rhs, ln in accs:
            m_ = re.match(r'^(\w+)\.x$', lvn.replace(' ', ''))
            if m_:
                shift = m_.group(1)
        if shift is None:
            continue
        text = ' '.join(render(rhs) for lvn, op, rhs, ln in accs)
        for al_, full_ in aliases.items():
            text = re.sub(r'\b%s\b' % re.escape(al_), full_, text)
        order = 2 if any(re.search(r'\b%s\b' % re.escape(k_), text) for k_, c_ in list(idx_class.items()) + list(base_class.items()) if c_ == 'a') else 1
        found[order] += 1

        def leaf(pth, order=order, lv=lv):
            if pth == 'com.m':
                return M
            oc = operand_class(pth, lv)
            if oc is not None:
                cls, fld = oc
                fl = {'m': 'm', 'x': 'x', 'vx': 'v'}.get(fld)
                if fl is None or cls is None:
                    raise KeyError(pth)
                if cls == 'real':
                    return {'m': m, 'x': x, 'v': v}[fl]
                pre = {'own': 'd' if order == 1 else 'ab', 'a': 'a', 'b': 'b'}[cls]
                return S[pre + fl]
            if pth in totals and len(totals[pth]) == 1:
                cls = next(iter(totals[pth]))
                return S[{'own': 'DM' if order == 1 else 'DDM', 'a': 'DMA', 'b': 'DMB'}[cls]]
            raise KeyError(pth)
        for comp, q, names in (('x', x, ('dx', 'ax', 'bx', 'abx')), ('vx', v, ('dv', 'av', 'bv', 'abv'))):
            n += 1
            try:
                leaf.outer_lets = R.function_lets(fn)
                got, k = R.summand(f, shift + '.' + comp, leaf)
            except KeyError as ex:
                raise AnalysisError('R20.7: unexpected operand in the order-%d loop of move_to_com: %s' % (order, ex))
            want = spec(order, q, S[names[0]], S[names[1]], S[names[2]], S[names[3]])
            res = sp.simplify(sp.expand(got - want))
            where = 'src/tools.c:%s reb_simulation_move_to_com' % line_of(f)
            if res != 0:
                ctx.report('R20.7', 'move_to_com:order%d:%s' % (order, comp), where,
                           'the %d terms added to %s.%s per particle do not add up to the order-%d derivative of m*%s/M: difference %s' % (k, shift, comp, order, comp, str(res)[:200]))
            else:
                samples.append('%s: %d terms of %s.%s sum to the order-%d derivative of the centre of mass' % (where, k, shift, comp, order))
    anchor(found[1] >= 1 and found[2] >= 1, 'first- and second-order shift loops in reb_simulation_move_to_com')
    ctx.covered('R20.7', 'move_to_com: totals come from completed loops over the right member; the summands of the first- and second-order shift equal the derivatives of the centre of mass (x and vx; y, z by R20.6)',
                n, floor=12, samples=samples)


def rule_unit_quaternions(ctx):
    """R20.9: every value returned by the rotation constructors that branch on their input is a unit quaternion. Unit-ness is
    a typestate computed in source order: a vector is UNIT after reb_vec3d_normalize or as a literal basis vector; a
    quaternion is UNIT when it is (A.x, A.y, A.z, 0) for a UNIT vector A, the reduced from-to quaternion of two UNIT
    vectors (identity |a x h|^2 + (a.h)^2 = |a|^2 |h|^2, R20.4), or a product of UNIT quaternions (norm-multiplicativity,
    R20.4). A cross product of a unit vector with a basis vector has length sqrt(1 - a_k^2), not 1."""
    tu = cfront.load_tu('rotations.c')
    n = 0
    samples = []
    for fname in ('reb_rotation_init_from_to',):
        fn = tu.func(fname)
        unit = set()

        def is_unit_vec(e):
            e = strip(e, casts=True)
            if e.get('kind') == 'DeclRefExpr':
                return e['referencedDecl']['name'] in unit
            if e.get('kind') == 'CallExpr' and callee_name(e) == 'reb_vec3d_normalize':
                return True
            return False

        def is_unit_quat(e):
            e = strip(e, casts=True)
            if e.get('kind') == 'DeclRefExpr':
                return e['referencedDecl']['name'] in unit
            if e.get('kind') == 'CallExpr':
                f = callee_name(e)
                args = call_args(e)
                if f == 'reb_rotation_init_from_to_reduced':
                    return all(is_unit_vec(a) for a in args)
                if f == 'reb_rotation_mul':
                    return all(is_unit_quat(a) for a in args)
                if f in ('reb_rotation_normalize', 'reb_rotation_identity'):
                    return True
            return False

        def literal_components(d):
            """{member: rendered initialiser} of `struct T v = {.a = .., ...}` (designated or positional)"""
            out = {}
            for il in walk(d):
                if il.get('kind') == 'InitListExpr':
                    vals = [render(x).replace(' ', '') for x in il.get('inner', [])]
                    out = vals
                    break
            return out
        for node in walk(cfront.body(fn)):
            k = node.get('kind')
            if k == 'VarDecl' and 'init' in node:
                ty = qtype(node)
                vals = literal_components(node)
                init = [c for c in node.get('inner', []) if c.get('kind') not in ('FullComment',)]
                if 'reb_vec3d' in ty:
                    if vals:
                        nums = []
                        try:
                            nums = [float(v.strip('()')) for v in vals]
                        except ValueError:
                            nums = []
                        if len(nums) == 3 and sorted(abs(x) for x in nums) == [0.0, 0.0, 1.0]:
                            unit.add(node['name'])
                        else:
                            unit.discard(node['name'])
                    elif init and is_unit_vec(init[-1]):
                        unit.add(node['name'])
                    else:
                        unit.discard(node['name'])
                elif 'reb_rotation' in ty:
                    ok = False
                    if vals and len(vals) == 4:
                        m = [re.match(r'^\(?(\w+)\.([xyz])\)?$', v) for v in vals[:3]]
                        if all(m) and len({x.group(1) for x in m}) == 1 and [x.group(2) for x in m] == ['x', 'y', 'z'] and m[0].group(1) in unit:
                            try:
                                ok = float(vals[3].strip('()')) == 0.0
                            except ValueError:
                                ok = False
                    elif init and not vals:
                        ok = is_unit_quat(init[-1])
                    (unit.add if ok else unit.discard)(node['name'])
            elif is_assign(node) and node['opcode'] == '=' and strip(node['inner'][0]).get('kind') == 'DeclRefExpr':
                nm = strip(node['inner'][0])['referencedDecl']['name']
                ty = qtype(strip(node['inner'][0]))
                if 'reb_vec3d' in ty:
                    (unit.add if is_unit_vec(node['inner'][1]) else unit.discard)(nm)
                elif 'reb_rotation' in ty:
                    (unit.add if is_unit_quat(node['inner'][1]) else unit.discard)(nm)
            elif k == 'ReturnStmt' and node.get('inner'):
                n += 1
                if not is_unit_quat(node['inner'][0]):
                    ctx.report('R20.9', '%s:return:%s' % (fname, render(node['inner'][0])[:30]), 'src/rotations.c:%s %s' % (line_of(node), fname),
                               'the quaternion returned here (%s) is not known to have unit norm: it is built from a vector that was not normalised (the cross product of a unit vector with a basis vector has length sqrt(1 - a_k^2)); applying it rescales vectors' % render(node['inner'][0])[:60])
                else:
                    samples.append('src/rotations.c:%s returns a unit quaternion' % line_of(node))
    ctx.covered('R20.9', 'returns of the branching rotation constructors are unit quaternions (unit typestate: normalize, basis literals, reduced from-to of unit vectors, products)', n, floor=2, samples=samples[:5])


def rule_orbital_inverse(ctx):
    """R20.10: reb_rotation_to_orbital inverts reb_rotation_init_orbit in each of its three branches. The product
    P3 P2 P1 summarised by E8 is (r, iz, ix, iy) = (c cos s, c sin s, S cos d, S sin d) with c = cos(inc/2), S = sin(inc/2),
    s = (Omega+omega)/2, d = (Omega-omega)/2, so atan2(iz, r) = s wherever c > 0 and atan2(iy, ix) = d wherever S > 0.
    The angles returned in a branch are linear in those two arctangents; they must satisfy Omega + omega = 2 s in the
    branches where c != 0 (general, inc ~ 0) and Omega - omega = 2 d where S != 0 (general, inc ~ pi)."""
    import sympy as sp
    from . import extents, pathcond
    tus = cfront.load_tus(['rotations.c'])
    E = e8.E8(tus)
    Om, inc, om = sp.symbols('Omega inc omega', real=True)
    n = 0
    try:
        q = E.call('reb_rotation_init_orbit', [Om, inc, om])
    except e8.NotSummarisable as ex:
        raise AnalysisError('R20.10: reb_rotation_init_orbit cannot be summarised: %s' % ex)
    want = {'r': sp.cos(inc / 2) * sp.cos((Om + om) / 2), 'iz': sp.cos(inc / 2) * sp.sin((Om + om) / 2),
            'ix': sp.sin(inc / 2) * sp.cos((Om - om) / 2), 'iy': sp.sin(inc / 2) * sp.sin((Om - om) / 2)}
    for k_, w in want.items():
        n += 1
        res = sp.simplify(sp.expand_trig(sp.expand(q[k_] - w)))
        if res != 0 and e8.zero_test(q[k_] - w, n=3) > 1e-25:
            ctx.report('R20.10', 'init_orbit:%s' % k_, 'src/rotations.c reb_rotation_init_orbit', 'component %s of the orbit rotation is not %s (Murray & Dermott 2.121 as a quaternion)' % (k_, w))
    fn = tus['rotations.c'].func('reb_rotation_to_orbital')
    L = extents.lets(fn)
    pc = pathcond.conditions(fn)
    # the two tests that separate the degenerate inclinations: |inc| > eps (away from 0) and |inc - pi| > eps (away from pi);
    # they may be written in place or named by flag locals (path conditions show the expanded comparisons either way)
    import re as _re
    def _cls(atom):
        """'Z' / 'P' for an atom that says inc is away from 0 / from pi, 'z' / 'p' for its negation, '' otherwise"""
        a_ = atom.replace(' ', '')
        neg = False
        core = a_
        while True:
            if core.startswith('!'):
                neg = not neg
                core = core[1:]
            elif core.startswith('(') and core.endswith(')') and core.count('(') == core.count(')'):
                core = core[1:-1]
            else:
                break
        if '&&' in core or '||' in core:
            return ''
        if 'fabs' in core and 'inc' in core and '>' in core:
            k_ = 'P' if ('3.14159' in core or 'M_PI' in core) else 'Z'
            return k_.lower() if neg else k_
        return ''
    pi_flag = zero_flag = True
    HS, HD = sp.symbols('HS HD', real=True)

    def lin(e):
        txt = extents.canon(extents.resolve(render(e), L))
        txt = txt.replace('atan2q.iz,q.r', 'HS').replace('atan2q.iy,q.ix', 'HD')
        if 'atan2' in txt or 'q.' in txt:
            raise AnalysisError('R20.10: %s in reb_rotation_to_orbital is not a combination of atan2(iz, r) and atan2(iy, ix)' % render(e))
        return sp.sympify(txt, locals={'HS': HS, 'HD': HD})
    branches = {}
    for e in walk(cfront.body(fn)):
        if is_assign(e) and e['opcode'] == '=' and render(e['inner'][0]).replace(' ', '').strip('()') in ('*Omega', '*omega'):
            raw = pc.get(id(e), [])
            kinds = [_cls(a_) for a_ in raw]
            both = any(('fabs' in a_ and a_.count('fabs') >= 2 and '&&' in a_ and not a_.replace(' ', '').startswith('!')) for a_ in raw)
            if both or ('Z' in kinds and 'P' in kinds):
                br = 'general'
            elif 'z' in kinds:
                br = 'inc~0'
            elif 'Z' in kinds or 'p' in kinds:
                br = 'inc~pi'
            else:
                # an assignment common to both degenerate branches
                br = 'degenerate'
            branches.setdefault(br, {})[render(e['inner'][0]).replace(' ', '').strip('()*')] = (lin(e['inner'][1]), line_of(e))
    for br in ('inc~0', 'inc~pi'):
        for k_, v_ in branches.get('degenerate', {}).items():
            branches.setdefault(br, {}).setdefault(k_, v_)
    anchor(all(b in branches and set(branches[b]) == {'Omega', 'omega'} for b in ('general', 'inc~0', 'inc~pi')), 'reb_rotation_to_orbital assigns Omega and omega in the general, inc~0 and inc~pi branches')
    for br, need_sum, need_diff in (('general', True, True), ('inc~0', True, False), ('inc~pi', False, True)):
        O_, o_ = branches[br]['Omega'][0], branches[br]['omega'][0]
        where = 'src/rotations.c:%s reb_rotation_to_orbital' % branches[br]['omega'][1]
        if need_sum:
            n += 1
            if sp.simplify(O_ + o_ - 2 * HS) != 0:
                ctx.report('R20.10', 'to_orbital:%s:sum' % br, where, 'in the %s branch Omega + omega = %s, not 2*atan2(iz, r): feeding the returned angles back into init_orbit gives a different rotation' % (br, sp.simplify(O_ + o_)))
        if need_diff:
            n += 1
            if sp.simplify(O_ - o_ - 2 * HD) != 0:
                ctx.report('R20.10', 'to_orbital:%s:diff' % br, where, 'in the %s branch Omega - omega = %s, not 2*atan2(iy, ix): feeding the returned angles back into init_orbit gives a different rotation' % (br, sp.simplify(O_ - o_)))
    ctx.covered('R20.10', 'reb_rotation_to_orbital inverts reb_rotation_init_orbit: half-angle form of the product (E8) and the sum/difference relations in the general, inc~0 and inc~pi branches', n, floor=8)


def rule_linear_map_effects(ctx):
    """R20.11: reb_simulation_imul / iadd / isub are the linear-space operations on simulations (documented as acting on
    positions and velocities). Their effect sets on struct reb_particle - members written directly or through a callee
    that receives a pointer to a particle (one level, any translation unit) - must be the same six members for all
    three; a helper that also touches the mass or the radius makes `a + b` something else than the coordinate-wise sum."""
    tus = cfront.load_tus()
    allf = {}
    for c, tu in tus.items():
        for fname, f_ in tu.funcs.items():
            if cfront.body(f_) is not None:
                allf.setdefault(fname, f_)

    def particle_writes(fn, depth=0):
        out = set()
        for e in walk(cfront.body(fn)):
            lhs = None
            if is_assign(e):
                lhs = e['inner'][0]
            elif e.get('kind') == 'UnaryOperator' and e.get('opcode') in ('++', '--'):
                lhs = e['inner'][0]
            if lhs is not None:
                l0 = strip(lhs, casts=True)
                if l0.get('kind') == 'MemberExpr' and 'reb_particle' in qtype(strip(l0['inner'][0], casts=True)).replace('reb_particle_int', ''):
                    out.add(l0['name'])
            if e.get('kind') == 'CallExpr' and depth < 2:
                cal = callee_name(e)
                if cal in allf and any('struct reb_particle *' in qtype(strip(a, casts=True)) for a in call_args(e)):
                    out |= particle_writes(allf[cal], depth + 1)
        return out
    tu = tus['tools.c']
    eff = {}
    for fname in ('reb_simulation_imul', 'reb_simulation_iadd', 'reb_simulation_isub'):
        anchor(fname in tu.funcs, fname)
        eff[fname] = particle_writes(tu.func(fname))
    n = len(eff)
    want = {'x', 'y', 'z', 'vx', 'vy', 'vz'}
    for fname, e_ in sorted(eff.items()):
        if e_ != want:
            ctx.report('R20.11', '%s:effects' % fname, 'src/tools.c %s' % fname,
                       '%s writes the particle members %s (directly or through a helper), not exactly the positions and velocities: extra %s, missing %s - the result is not the coordinate-wise linear combination of the two simulations'
                       % (fname, sorted(e_), sorted(e_ - want), sorted(want - e_)))
    ctx.covered('R20.11', 'effect sets of reb_simulation_imul/iadd/isub on struct reb_particle (through helpers): exactly x, y, z, vx, vy, vz', n, floor=3,
                samples=['%s -> %s' % (k_, sorted(v_)) for k_, v_ in sorted(eff.items())])


def rule_constructor_copies(ctx):
    """R20.12: Rotation * vector is implemented as `vec = Vec3d(other)` followed by an in-place rotation of vec's storage, so
    the Vec3d constructor is relied upon to copy. Ownership rule: the storage attribute of the vector classes is only ever
    assigned a freshly constructed object (a call), never a name that may alias a constructor argument (the argument
    itself, an element or attribute of it, or a local assigned from one of those without a constructing call)."""
    import ast
    db = pyfront.pydb()
    path = [p_ for p_ in db.files if p_.endswith('vectors.py')]
    anchor(path, 'rebound/vectors.py')
    tree = db.files[path[0]]
    n = 0
    for cls in [c for c in ast.walk(tree) if isinstance(c, ast.ClassDef)]:
        for fn in [f for f in cls.body if isinstance(f, ast.FunctionDef) and f.name == '__init__']:
            params = {a.arg for a in fn.args.args if a.arg != 'self'}
            if fn.args.vararg:
                params.add(fn.args.vararg.arg)

            def may_alias(e, aliases):
                if isinstance(e, ast.Name):
                    return e.id in aliases
                if isinstance(e, (ast.Subscript, ast.Attribute)):
                    return may_alias(e.value, aliases)
                if isinstance(e, ast.IfExp):
                    return may_alias(e.body, aliases) or may_alias(e.orelse, aliases)
                return False            # calls, literals, arithmetic build new objects
            aliases = set(params)
            changed = True
            while changed:
                changed = False
                for a_ in ast.walk(fn):
                    if isinstance(a_, ast.Assign) and len(a_.targets) == 1 and isinstance(a_.targets[0], ast.Name) and a_.targets[0].id not in aliases and may_alias(a_.value, aliases):
                        aliases.add(a_.targets[0].id)
                        changed = True
            for a_ in ast.walk(fn):
                if isinstance(a_, ast.Assign):
                    for t in a_.targets:
                        if isinstance(t, ast.Attribute) and isinstance(t.value, ast.Name) and t.value.id == 'self':
                            n += 1
                            if may_alias(a_.value, aliases):
                                ctx.report('R20.12', '%s.__init__:%s:alias' % (cls.name, t.attr), 'rebound/vectors.py:%d %s.__init__' % (a_.lineno, cls.name),
                                           'self.%s is bound to %s, which may be (part of) a constructor argument: the new vector shares its storage with the caller\'s object, and Rotation.__mul__ rotates that storage in place - `q * v` then changes v' % (t.attr, ast.unparse(a_.value)))
    ctx.covered('R20.12', 'storage attributes assigned in the constructors of the vector classes are fresh objects, not aliases of arguments', n, floor=1)


def rule_new_axes(ctx):
    """R20.13: reb_rotation_init_to_new_axes(newz, newx) must map newz onto the z axis whatever newx is. It is built as
    q2 * q1 with q1 = from_to(newz, z). Two structural conditions, both necessary:
    (a) the projection of newx on newz that is subtracted to orthogonalise newx is taken with the *normalised* newz (a dot
        product with the vector as passed scales the subtracted component by |newz|: for |newz| != 1 the orthogonalised
        newx keeps a component along newz and the second rotation tilts the axis);
    (b) the second factor leaves z fixed: it is a rotation about the literal z axis. A general from-to rotation does not
        qualify - for (nearly) antiparallel arguments its axis is arbitrary and may flip z."""
    tu = cfront.load_tu('rotations.c')
    fn = tu.func('reb_rotation_init_to_new_axes')
    ps = [p_.get('name') for p_ in cfront.params(fn)]
    anchor(len(ps) == 2, 'reb_rotation_init_to_new_axes(newz, newx)')
    zname = ps[0]
    top = cfront.body(fn).get('inner', [])
    n = 0
    where = 'src/rotations.c:%s reb_rotation_init_to_new_axes'
    # (a) source-order typestate of the first parameter: raw until assigned from reb_vec3d_normalize of itself
    unit = False
    dots = 0
    for st in top:
        for e in walk(st):
            if e.get('kind') == 'CallExpr' and callee_name(e) == 'reb_vec3d_dot' and any(render(a_) == zname for a_ in call_args(e)):
                dots += 1
                n += 1
                if not unit:
                    ctx.report('R20.13', 'new_axes:projection', where % line_of(e),
                               'the component of %s along %s is computed with %s as it was passed, before it is normalised: for |%s| != 1 the orthogonalised %s keeps a component along %s and the second rotation moves %s off the z axis'
                               % (ps[1], zname, zname, zname, ps[1], zname, zname))
        for e in walk(st):
            if is_assign(e) and e['opcode'] == '=' and render(e['inner'][0]) == zname:
                r0 = strip(e['inner'][1], casts=True)
                unit = r0.get('kind') == 'CallExpr' and callee_name(r0) == 'reb_vec3d_normalize' and render(call_args(r0)[0]) == zname
    anchor(dots >= 1, 'the projection of the new x axis on the new z axis (reb_vec3d_dot) in reb_rotation_init_to_new_axes')
    # (b) the returned product
    zlits = set()
    inits = {}
    for d in walk(cfront.body(fn)):
        if d.get('kind') == 'VarDecl' and 'init' in d:
            init = [c for c in d.get('inner', []) if c.get('kind') not in ('FullComment',)]
            if not init:
                continue
            inits[d['name']] = strip(init[-1], casts=True)
            if 'reb_vec3d' in qtype(d):
                for il in walk(d):
                    if il.get('kind') == 'InitListExpr':
                        try:
                            vals = [float(render(x).replace(' ', '').strip('()')) for x in il.get('inner', [])]
                        except ValueError:
                            vals = []
                        if vals == [0.0, 0.0, 1.0]:
                            zlits.add(d['name'])
                        break
    rets = [x for x in walk(cfront.body(fn)) if x.get('kind') == 'ReturnStmt' and x.get('inner')]
    anchor(len(rets) >= 1, 'return of reb_rotation_init_to_new_axes')

    def factor(a):
        a = strip(a, casts=True)
        if a.get('kind') == 'DeclRefExpr' and a['referencedDecl']['name'] in inits:
            return inits[a['referencedDecl']['name']]
        return a
    for ret in rets:
        r0 = factor(ret['inner'][0])
        n += 2
        if r0.get('kind') == 'CallExpr' and callee_name(r0) in ('reb_rotation_init_from_to', 'reb_rotation_init_from_to_reduced'):
            # a shortcut that returns a single from-to rotation (e.g. "newz is already along z")
            ctx.report('R20.13', 'new_axes:second', where % line_of(r0),
                       'this return hands back a single from-to rotation (%s): it is not composed with the rotation that takes %s to +z (a %s along -z is left there), and a from-to rotation keeps z fixed only when its axis happens to be z'
                       % (render(r0)[:80], zname, zname))
            continue
        if not (r0.get('kind') == 'CallExpr' and callee_name(r0) == 'reb_rotation_mul'):
            raise AnalysisError('R20.13: reb_rotation_init_to_new_axes returns %s, which is not a product of two rotations' % render(r0)[:80])
        second, first = (factor(a) for a in call_args(r0))
        ok1 = first.get('kind') == 'CallExpr' and callee_name(first) == 'reb_rotation_init_from_to' and render(call_args(first)[0]) == zname and render(call_args(first)[1]) in zlits
        if not ok1:
            ctx.report('R20.13', 'new_axes:first', where % line_of(first), 'the first rotation applied is %s, not the rotation that takes %s to the z axis' % (render(first)[:80], zname))
        ok2 = second.get('kind') == 'CallExpr' and callee_name(second) == 'reb_rotation_init_angle_axis' and render(call_args(second)[1]) in zlits
        if not ok2:
            if second.get('kind') == 'CallExpr' and callee_name(second) in ('reb_rotation_init_from_to', 'reb_rotation_init_from_to_reduced', 'reb_rotation_init_angle_axis'):
                ctx.report('R20.13', 'new_axes:second', where % line_of(second),
                           'the second rotation (%s) is not a rotation about the z axis: a from-to rotation keeps z fixed only when its axis happens to be z, and for a new x axis that ends up antiparallel to x the axis is decided by rounding noise - %s can be mapped to -z'
                           % (render(second)[:80], zname))
            else:
                raise AnalysisError('R20.13: the second factor of the product returned by reb_rotation_init_to_new_axes (%s) is not a rotation constructor the rule knows' % render(second)[:80])
    ctx.covered('R20.13', 'to_new_axes: projection taken with the normalised new z axis; product of from_to(newz, z) and a rotation about z', n, floor=3)


def rule_com_extent(ctx, rule='R20.14'):
    """R20.14: the centre of mass that move_to_com subtracts is that of all real particles. Particles beyond N_active are
    "test particles" for the force calculation only; they may carry mass (testparticle_type = 1, or simply massive bodies
    the user keeps inactive), so a sum over the active particles is the centre of mass of a subset. In reb_simulation_com
    the range handed to reb_simulation_com_range is [0, N - N_var)."""
    from . import extents
    tu = cfront.load_tu('tools.c')
    fn = tu.func('reb_simulation_com')
    NV = extents.named_values(fn)
    n = 0
    for e in walk(cfront.body(fn)):
        if e.get('kind') == 'CallExpr' and callee_name(e) == 'reb_simulation_com_range':
            a = call_args(e)
            lo = extents.canon(extents.resolve(render(a[1]), NV))
            hi = extents.canon(extents.resolve(render(a[2]), NV))
            n += 1
            if lo != '0' or hi != extents.canon(extents.REAL):
                ctx.report(rule, 'com:extent', 'src/tools.c:%s reb_simulation_com' % line_of(e),
                           'the centre of mass is taken over particles [%s, %s) instead of all real particles [0, r.N-r.N_var): massive particles outside the range (beyond N_active) are left out, and move_to_com leaves the true centre of mass moving and off the origin' % (lo, hi))
    anchor(n >= 1, 'reb_simulation_com calls reb_simulation_com_range')
    ctx.covered(rule, 'reb_simulation_com sums over all real particles', n, floor=1)


def run(ctx):
    from . import edges
    edges.rule_single_particle(ctx, 'R20.16')        # a single particle is moved to the origin too
    from . import pyrules
    pyrules.rule_undefined_names(ctx, 'R18.11')     # the vector and rotation methods can be called (no NameError)
    pyrules.rule_c_result_only(ctx, 'R20.15')       # Rotation constructors return the C construction, no Python shortcut for 'trivial' directions
    rule_com_extent(ctx)
    rule_new_axes(ctx)
    rule_constructor_copies(ctx)
    rule_linear_map_effects(ctx)
    rule_orbital_inverse(ctx)
    rule_unit_quaternions(ctx)
    rule_com_variations(ctx)
    rule_unit_dimensions(ctx)
    rule_unit_tables(ctx)
    rule_units_setter(ctx)
    rule_quaternions(ctx)
    rule_rotation_structure(ctx)
    rule_components(ctx)
    from . import c16, c11
    c16.rule_python_parameters(ctx, 'R20.8', only=('simulation.py', 'particle.py', 'rotation.py', 'units.py', 'tools.py'))   # scaling/rotation wrappers hand every factor through
    c11.rule_pericentre_time(ctx)      # R11.8: the mean motion of the T= option carries G (periods do not depend on the unit system)
    c11.rule_shared_formulas(ctx)      # R11.4: the inline conversions of the Python front end (a from P, n, M from T) are the C ones, G included
    ctx.not_decided.append('numerical behaviour near degenerate geometry; planetary GM constants (no independent oracle offline); second-order variational frame-shift algebra')
