"""Direction typing of step sizes and times (R08.8).

Integrations run in either direction of time. Quantities are classified along a pass in source order:
  NONNEG  magnitudes: fabs(..), positive literals, min_dt/max_dt, products/quotients of magnitudes
  SIGN    +1/-1 chosen from the sign of a step: (x >= 0) ? 1 : -1
  DIR     direction-signed spans: dt, dt_last_done, dt_proposed, differences of two times, magnitude*SIGN, copysign
  TIME    absolute times: r->t, locals defined as a time plus a span
  NTIME   TIME*SIGN,   NORM  DIR*SIGN (both ordered the same way for either direction)
An ordering comparison is meaningful for either direction only between magnitudes (NONNEG/NORM), between normalised
times (NTIME), or of a span with the literal 0. A comparison between raw times, raw spans, or a raw span and a magnitude
is direction-blind: it is right for dt > 0 and wrong for dt < 0."""
from ..core import AnalysisError, anchor
from .. import cfront
from ..cfront import walk, strip, render, line_of, is_assign, callee_name, call_args, qtype

NONNEG, SIGN, DIR, TIME, NTIME, NORM, ZERO, UNK = 'NONNEG', 'SIGN', 'DIR', 'TIME', 'NTIME', 'NORM', 'ZERO', None
DIR_MEMBERS = {'dt', 'dt_last_done', 'dt_proposed'}
NONNEG_MEMBERS = {'min_dt', 'max_dt', 'eps_abs', 'eps_rel', 'epsilon'}
TIME_MEMBERS = {'t'}
DIR_PARAMS = {'dt', '_dt'}


class Pass:
    def __init__(self, fn):
        self.fn = fn
        self.env = {}
        for p in cfront.params(fn):
            if p.get('name') in DIR_PARAMS and 'double' in qtype(p):
                self.env[p['name']] = DIR
        self.comparisons = []       # (node, class left, class right)

    def cls(self, n):
        n = strip(n, casts=True)
        k = n.get('kind')
        if k in ('FloatingLiteral', 'IntegerLiteral'):
            try:
                v = float(n['value'])
            except ValueError:
                return UNK
            return ZERO if v == 0 else (NONNEG if v > 0 else UNK)
        if k == 'DeclRefExpr':
            return self.env.get(n['referencedDecl']['name'], UNK)
        if k == 'MemberExpr':
            if n['name'] in DIR_MEMBERS:
                return DIR
            if n['name'] in NONNEG_MEMBERS:
                return NONNEG
            if n['name'] in TIME_MEMBERS and 'reb_simulation' in qtype(strip(n['inner'][0])):
                return TIME
            return UNK
        if k == 'CallExpr':
            f = callee_name(n)
            if f in ('fabs', '__builtin_fabs', 'sqrt'):
                return NONNEG
            if f == 'copysign' and len(call_args(n)) == 2:
                return DIR if self.cls(call_args(n)[1]) == DIR else UNK
            return UNK
        if k == 'ConditionalOperator':
            c = strip(n['inner'][0])
            a, b = strip(n['inner'][1], casts=True), strip(n['inner'][2], casts=True)
            def lit(x):
                if x.get('kind') == 'UnaryOperator' and x.get('opcode') == '-':
                    y = strip(x['inner'][0], casts=True)
                    return -float(y['value']) if y.get('kind') in ('FloatingLiteral', 'IntegerLiteral') else None
                return float(x['value']) if x.get('kind') in ('FloatingLiteral', 'IntegerLiteral') else None
            if c.get('kind') == 'BinaryOperator' and c['opcode'] in ('>', '>=') and lit(a) == 1.0 and lit(b) == -1.0:
                if self.cls(c['inner'][0]) == DIR and self.cls(c['inner'][1]) == ZERO:
                    return SIGN
            return UNK
        if k == 'UnaryOperator' and n['opcode'] == '-':
            c = self.cls(n['inner'][0])
            return c if c in (DIR, SIGN) else UNK
        if k == 'BinaryOperator':
            op = n['opcode']
            a, b = self.cls(n['inner'][0]), self.cls(n['inner'][1])
            if op == '*':
                s = {a, b}
                if s == {NONNEG} or s == {NONNEG, NORM} or s == {NORM}:
                    return NONNEG
                if s == {SIGN}:
                    return NONNEG
                if s == {NONNEG, SIGN}:
                    return DIR
                if s == {DIR, SIGN}:
                    return NORM
                if s == {TIME, SIGN}:
                    return NTIME
                if s == {DIR, NONNEG}:
                    return DIR
                return UNK
            if op == '/':
                if a in (NONNEG, NORM) and b in (NONNEG, NORM):
                    return NONNEG
                if a == DIR and b in (NONNEG, NORM):
                    return DIR
                if a == DIR and b == DIR:
                    return NORM          # the ratio of two spans along the step is ordered the same way in both directions
                return UNK
            if op in ('+', '-'):
                if a == TIME and b == TIME and op == '-':
                    return DIR
                if a == TIME and b in (DIR, ZERO):
                    return TIME
                if a in (NONNEG, ZERO) and b in (NONNEG, ZERO) and op == '+':
                    return NONNEG
                if a == DIR and b == DIR:
                    return DIR
                return UNK
            return UNK
        return UNK

    def run(self):
        self._roles()
        self._walk(cfront.body(self.fn))
        return self

    def _roles(self):
        """role unification: in `A - M*B` with M a direction-signed span (positions extrapolated with velocities over the
        last step), a local X that appears as `A - X*B` with the same A and B is a span along the step as well."""
        self.roles = {}
        pats = {}
        cands = []
        for n in walk(cfront.body(self.fn)):
            if n.get('kind') == 'BinaryOperator' and n.get('opcode') in ('+', '-'):
                a, m = strip(n['inner'][0], casts=True), strip(n['inner'][1], casts=True)
                if m.get('kind') == 'BinaryOperator' and m.get('opcode') == '*':
                    for x, y in ((m['inner'][0], m['inner'][1]), (m['inner'][1], m['inner'][0])):
                        x, y = strip(x, casts=True), strip(y, casts=True)
                        key = (render(a), render(y))
                        if x.get('kind') == 'MemberExpr' and x['name'] in DIR_MEMBERS:
                            pats[key] = True
                        elif x.get('kind') == 'DeclRefExpr' and 'double' in qtype(x):
                            cands.append((key, x['referencedDecl']['name'], x))
        # locals that are plain copies of a span member count as the member itself
        copies = set()
        for d in walk(cfront.body(self.fn)):
            if d.get('kind') == 'VarDecl' and 'init' in d:
                init = [c for c in d.get('inner', []) if c.get('kind') not in ('FullComment',)]
                if init:
                    i_ = strip(init[-1], casts=True)
                    if i_.get('kind') == 'MemberExpr' and i_['name'] in DIR_MEMBERS:
                        copies.add(d['name'])
        for key, nm, x in cands:
            if nm in copies:
                pats[key] = True
        for key, nm, x in cands:
            if key in pats and nm not in copies:
                self.roles[nm] = DIR

    def _walk(self, n):
        k = n.get('kind')
        if k == 'VarDecl' and 'init' in n and 'double' in qtype(n) and '*' not in qtype(n):
            init = [c for c in n.get('inner', []) if c.get('kind') not in ('FullComment',)]
            if init:
                self._walk(init[-1])
                self.env[n['name']] = self.cls(init[-1]) or getattr(self, 'roles', {}).get(n['name'])
            return
        if is_assign(n):
            self._walk(n['inner'][1])
            lv = strip(n['inner'][0])
            if lv.get('kind') == 'DeclRefExpr' and 'double' in qtype(lv):
                nm = lv['referencedDecl']['name']
                r = self.cls(n['inner'][1])
                if n['opcode'] == '=':
                    self.env[nm] = r
                elif n['opcode'] == '*=':
                    cur = self.env.get(nm)
                    s = {cur, r}
                    self.env[nm] = DIR if s == {NONNEG, SIGN} else (NORM if s == {DIR, SIGN} else (NONNEG if s == {NONNEG} else UNK))
                elif n['opcode'] in ('+=', '-='):
                    cur = self.env.get(nm)
                    self.env[nm] = cur if (cur == TIME and r == DIR) or (cur == DIR and r == DIR) else UNK
                else:
                    self.env[nm] = UNK
            return
        if k == 'BinaryOperator' and n['opcode'] in ('<', '>', '<=', '>='):
            self.comparisons.append((n, self.cls(n['inner'][0]), self.cls(n['inner'][1])))
        if k == 'WhileStmt':
            # body assignments may change classes before the condition is evaluated again: analyse the body first
            self._walk(n['inner'][0])
            self._walk(n['inner'][1])
            return
        for c in n.get('inner', []) or []:
            if isinstance(c, dict):
                self._walk(c)


OK_PAIRS = {frozenset((NONNEG,)), frozenset((NONNEG, NORM)), frozenset((NORM,)), frozenset((NTIME,)), frozenset((DIR, ZERO)), frozenset((NONNEG, ZERO)), frozenset((NORM, ZERO))}
BLIND = {frozenset((TIME,)): 'two raw times', frozenset((DIR,)): 'two direction-signed spans', frozenset((DIR, NONNEG)): 'a direction-signed span and a magnitude',
         frozenset((DIR, NORM)): 'a direction-signed span and a normalised one', frozenset((TIME, NTIME)): 'a raw and a normalised time', frozenset((DIR, TIME)): 'a span and a time'}


def check_function(ctx, rule, cfile, fn):
    p = Pass(fn).run()
    n = 0
    ok = []
    for node, a, b in p.comparisons:
        if a is UNK or b is UNK:
            continue
        n += 1
        key = frozenset((a, b))
        where = 'src/%s:%s %s' % (cfile, line_of(node), fn['name'])
        if key in BLIND:
            ctx.report(rule, '%s:%s' % (fn['name'], render(node).replace(' ', '')[:50]), where,
                       'the comparison %s orders %s: it is only right when integrating forward in time (multiply both sides with the sign of the step, or compare magnitudes)'
                       % (render(node), BLIND[key]))
        elif key in OK_PAIRS:
            ok.append('%s: %s [%s vs %s]' % (where, render(node)[:70], a, b))
    return n, ok
