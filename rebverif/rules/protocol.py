"""Rules added after the seventh round of seeded changes (plain slips, first-contact misses).

Each is a shape rule with its instances counted; none runs code."""
import ast
import math
import re

from ..core import AnalysisError, anchor
from .. import cfront, pyfront
from ..cfront import walk, strip, render, line_of, is_assign, callee_name, call_args, qtype


def _own_funcs(files=None):
    for cfile, tu in sorted(cfront.load_tus().items()):
        if files and cfile not in files:
            continue
        for fname, fn in sorted(tu.funcs.items()):
            if cfront.body(fn) is None or cfront.basename(fn.get('_locfile') or fn.get('_file')) != cfile:
                continue
            yield cfile, tu, fname, tu.func(fname)


# ------------------------------------------------------------------ corrector: forces from current positions
def rule_corrector_typestate(ctx, rule):
    """The symplectic correctors of WHFast alternate Kepler steps (which change the internal coordinates) with kicks. A kick
    (reb_whfast_interaction_step) uses the accelerations of the *current* positions: after every Kepler step the inertial
    positions are rebuilt (a ..._to_inertial_pos transformation) and the accelerations recomputed before the next kick.
    Typestate over each statement list of reb_whfast_corrector_Z: positions fresh/stale, accelerations fresh/stale."""
    tu = cfront.load_tu('integrator_whfast.c')
    fn = tu.func('reb_whfast_corrector_Z')
    n = 0
    for comp in walk(cfront.body(fn)):
        if comp.get('kind') != 'CompoundStmt':
            continue
        seq = []
        for st in comp.get('inner', []):
            s0 = st
            while s0.get('kind') in ('CaseStmt', 'DefaultStmt') and s0.get('inner'):
                if seq and any(x[0] == 'I' for x in seq):
                    seq.append(('CASE', line_of(s0)))
                s0 = s0['inner'][-1]
            e = strip(s0)
            if e.get('kind') == 'BreakStmt':
                seq.append(('CASE', line_of(e)))
            if e.get('kind') != 'CallExpr':
                continue
            nm = callee_name(e) or ''
            if nm == 'reb_whfast_kepler_step':
                seq.append(('K', line_of(e)))
            elif re.search(r'_to_inertial_pos(vel)?$', nm) or nm == 'reb_integrator_whfast_to_inertial':
                seq.append(('T', line_of(e)))
            elif nm == 'reb_simulation_update_acceleration':
                seq.append(('A', line_of(e)))
            elif nm == 'reb_whfast_interaction_step':
                seq.append(('I', line_of(e)))
        if not any(x[0] == 'I' for x in seq):
            continue
        pos = acc = 'stale'
        for ev, line in seq:
            if ev == 'CASE':
                pos = acc = 'stale'
            elif ev == 'K':
                pos = acc = 'stale'
            elif ev == 'T':
                pos = 'fresh'
            elif ev == 'A':
                n += 1
                if pos != 'fresh':
                    ctx.report(rule, 'corrector:acc:%s' % line, 'src/integrator_whfast.c:%s reb_whfast_corrector_Z' % line,
                               'the accelerations are computed here although the inertial positions have not been rebuilt since the last Kepler step: the kick that follows uses the forces of the old positions')
                acc = 'fresh' if pos == 'fresh' else 'stale'
            elif ev == 'I':
                n += 1
                if acc != 'fresh':
                    ctx.report(rule, 'corrector:kick:%s' % line, 'src/integrator_whfast.c:%s reb_whfast_corrector_Z' % line,
                               'this kick is applied with accelerations that were not recomputed after the last Kepler step: the corrector and its inverse no longer cancel and the scheme loses its order')
    anchor(n >= 5, 'kicks and force evaluations in reb_whfast_corrector_Z (found %d)' % n)
    ctx.covered(rule, 'WHFast corrector: every kick uses accelerations computed from positions rebuilt after the last Kepler step', n, floor=5)


# ------------------------------------------------------------------ sibling loops of one function start alike
def rule_jerk_loop_starts(ctx, rule):
    """reb_calculate_and_apply_jerk has an active-active part and a test-particle part; both leave out the pairs that the
    Kepler step accounts for through the same start index of the inner loop (`startj`). Inner loops `for (j = S; j < i; ..)`
    of the function agree on S."""
    tu = cfront.load_tu('gravity.c')
    fn = tu.func('reb_calculate_and_apply_jerk')
    starts = []
    for f in walk(cfront.body(fn)):
        if f.get('kind') != 'ForStmt' or not f['inner'][2]:
            continue
        c = render(f['inner'][2]).replace(' ', '')
        m = re.match(r'^\((\w+)<(i|_?N_active)\)$', c)          # j < i (all earlier particles) or j < N_active (the active ones)
        if not m or m.group(1) == 'i':          # the outer loops run over i
            continue
        ini = None
        for d in walk(f['inner'][0] or {}):
            if d.get('kind') == 'VarDecl' and 'init' in d:
                i0 = [x for x in d.get('inner', []) if x.get('kind') not in ('FullComment',)]
                ini = render(i0[-1]).replace(' ', '') if i0 else None
        if ini is not None:
            starts.append((ini, line_of(f)))
    anchor(len(starts) >= 2, 'inner pair loops (j < i, j < N_active) of reb_calculate_and_apply_jerk')
    vals = {}
    for s, l in starts:
        vals.setdefault(s, []).append(l)
    if len(vals) > 1:
        maj = max(vals, key=lambda k: len(vals[k]))
        for s, ls in vals.items():
            if s != maj:
                ctx.report(rule, 'jerk:start:%s' % s, 'src/gravity.c:%s reb_calculate_and_apply_jerk' % ls[0],
                           'this inner loop starts at %s while the other pair loop of the function starts at %s: the set of pairs left out for the Kepler step differs between active and test particles (the jerk of the innermost planet on the test particles is dropped, or counted twice)' % (s, maj))
    ctx.covered(rule, 'the pair loops of the jerk routine start at the same index', len(starts), floor=2)


# ------------------------------------------------------------------ index vs N_active
def rule_active_bound(ctx, rule):
    """A particle is active iff its index is below N_active: `i < N_active` / `i >= N_active` at every site. `<=` or `>`
    makes particle N_active itself - the first test particle - active."""
    n = 0
    std = 0
    off = []
    for cfile, tu, fname, fn in _own_funcs():
        for e in walk(cfront.body(fn)):
            if e.get('kind') != 'BinaryOperator' or e.get('opcode') not in ('<', '<=', '>', '>='):
                continue
            a, b = render(e['inner'][0]).replace(' ', '').strip('()'), render(e['inner'][1]).replace(' ', '').strip('()')
            isNA = lambda x: re.fullmatch(r'(r\.)?_?N_active', x) is not None
            isIdx = lambda x: re.fullmatch(r'[a-z]\w{0,3}|index|\w*\[\w+\]', x) is not None and not x[0].isdigit()
            op = e['opcode']
            if isNA(a) and isIdx(b):
                a, b = b, a
                op = {'<': '>', '>': '<', '<=': '>=', '>=': '<='}[op]
            if not (isNA(b) and isIdx(a)):
                continue
            n += 1
            if op in ('<', '>='):
                std += 1
            else:
                off.append((cfile, fname, line_of(e), render(e)))
    if std >= 10:
        for cfile, fname, line, txt in off:
            ctx.report(rule, '%s:active-bound' % fname, 'src/%s:%s %s' % (cfile, line, fname),
                       'this site tests %s while %d other sites decide "active" with index < N_active: the first test particle (index N_active) is treated as an active body here' % (txt, std))
    ctx.covered(rule, 'comparisons of a particle index with N_active draw the line below N_active', n, floor=30)


# ------------------------------------------------------------------ loops over the root cells
def rule_root_loops(ctx, rule):
    """Every loop that visits the root cells r->tree_root[i] runs over all of them: i < r->N_root."""
    n = 0
    for cfile, tu, fname, fn in _own_funcs():
        for f in walk(cfront.body(fn)):
            if f.get('kind') != 'ForStmt' or not f['inner'][2]:
                continue
            lv = None
            for d in walk(f['inner'][0] or {}):
                if d.get('kind') == 'VarDecl':
                    lv = d['name']
            if lv is None:
                continue
            if not any(x.get('kind') == 'ArraySubscriptExpr' and render(x['inner'][0]).replace(' ', '') == 'r.tree_root' and render(x['inner'][1]).replace(' ', '') == lv for x in walk(f['inner'][-1])):
                continue
            c = strip(f['inner'][2], casts=True)
            n += 1
            from . import extents
            bound = render(c['inner'][1]).replace(' ', '') if c.get('kind') == 'BinaryOperator' else ''
            bound = extents.canon(extents.resolve(bound, extents.named_values(fn)))          # const int N_root = r->N_root;
            if not (c.get('kind') == 'BinaryOperator' and c.get('opcode') == '<' and bound in ('r.N_root', 'r.N_root_x*r.N_root_y*r.N_root_z')):
                ctx.report(rule, '%s:root-loop' % fname, 'src/%s:%s %s' % (cfile, line_of(f), fname),
                           'the loop over the root cells runs while %s instead of over all r->N_root of them: particles in the remaining root boxes are skipped (they exert no force / are not searched)' % render(c))
    ctx.covered(rule, 'loops over r->tree_root visit all N_root root cells', n, floor=4)


# ------------------------------------------------------------------ NaN-aware comparison, evaluated on the five cases
def rule_diff_truth_table(ctx, rule):
    """reb_particle_diff: for every floating-point member the expression that decides "differs" is evaluated on the five
    classes of operand pairs (equal numbers, different numbers, NaN/number, number/NaN, NaN/NaN); it must be true exactly
    for the three middle ones."""
    tu = cfront.load_tu('binarydiff.c')
    fn = tu.func('reb_particle_diff')
    params = [x.get('name') for x in cfront.params(fn)]
    anchor(len(params) == 2, 'reb_particle_diff(p1, p2)')

    def ev(e, env):
        e = strip(e, casts=True)
        k = e.get('kind')
        if k == 'MemberExpr':
            b = strip(e['inner'][0])
            return env[(b['referencedDecl']['name'], e['name'])]
        if k == 'UnaryOperator' and e.get('opcode') == '!':
            return not ev(e['inner'][0], env)
        if k == 'BinaryOperator':
            op = e['opcode']
            if op == '&&':
                return bool(ev(e['inner'][0], env)) and bool(ev(e['inner'][1], env))
            if op == '||':
                return bool(ev(e['inner'][0], env)) or bool(ev(e['inner'][1], env))
            a, b = ev(e['inner'][0], env), ev(e['inner'][1], env)
            return {'!=': a != b, '==': a == b, '<': a < b, '>': a > b, '<=': a <= b, '>=': a >= b}[op]
        if k == 'CallExpr' and callee_name(e) in ('isnan', '__builtin_isnan'):
            return math.isnan(ev(call_args(e)[0], env))
        if k in ('IntegerLiteral', 'FloatingLiteral'):
            return float(e['value'])
        raise AnalysisError('%s: cannot evaluate %s in reb_particle_diff' % (rule, render(e)))
    n = 0
    nan = float('nan')
    cases = [((1.0, 1.0), False), ((1.0, 2.0), True), ((nan, 1.0), True), ((1.0, nan), True), ((nan, nan), False)]
    for e in walk(cfront.body(fn)):
        if not (is_assign(e) and e['opcode'] == '='):
            continue
        rhs = strip(e['inner'][1], casts=True)
        if not (rhs.get('kind') == 'BinaryOperator' and rhs.get('opcode') == '||'):
            continue
        term = rhs['inner'][1]
        mems = {(strip(m['inner'][0])['referencedDecl']['name'], m['name']) for m in walk(term) if m.get('kind') == 'MemberExpr' and strip(m['inner'][0]).get('kind') == 'DeclRefExpr'}
        names = {m[1] for m in mems}
        if len(names) != 1 or not any('double' in qtype(m) for m in walk(term) if m.get('kind') == 'MemberExpr'):
            continue
        mem = next(iter(names))
        n += 1
        for (a, b), want in cases:
            env = {(params[0], mem): a, (params[1], mem): b}
            got = bool(ev(term, env))
            if got != want:
                ctx.report(rule, 'particle_diff:table:' + mem, 'src/binarydiff.c:%s reb_particle_diff' % line_of(e),
                           'for %s = (%s, %s) the comparison says "%s": a difference must be reported exactly when the two values differ and are not both NaN (a particle flagged on one side only is a difference, a NaN on both sides is not)' % (mem, a, b, 'differs' if got else 'equal'))
                break
    ctx.covered(rule, 'reb_particle_diff: the per-member comparison evaluated on the five operand classes (equal, different, NaN/number, number/NaN, NaN/NaN)', n, floor=10)


# ------------------------------------------------------------------ setters replace unconditionally
def rule_filename_replaced(ctx, rule):
    """Pointing the automatic archive at a file stores that file name: in _reb_simulationarchive_automate_set_filename the
    assignment of r->simulationarchive_filename is reached on every path that does not return an error (no "only if none
    is set yet")."""
    from . import pathcond
    tu = cfront.load_tu('simulationarchive.c')
    fn = tu.func('_reb_simulationarchive_automate_set_filename')
    pc = pathcond.conditions(fn)
    n = 0
    for e in walk(cfront.body(fn)):
        if is_assign(e) and e['opcode'] == '=' and render(e['inner'][0]).replace(' ', '') == 'r.simulationarchive_filename':
            rhs = strip(e['inner'][1], casts=True)
            if rhs.get('kind') == 'CallExpr' and callee_name(rhs) in ('malloc', 'strdup', 'realloc'):
                n += 1
                cs = [c for c in pc.get(id(e), []) if 'simulationarchive_filename' in c]
                if cs:
                    ctx.report(rule, 'archive:filename:conditional', 'src/simulationarchive.c:%s %s' % (line_of(e), fn['name']),
                               'the new file name is stored only if %s: a simulation whose archive is pointed at a second file keeps writing to the first one' % cs)
    anchor(n >= 1, 'storage of the archive file name')
    ctx.covered(rule, 'the archive file name is replaced whenever the automation is (re)armed', n, floor=1)


# ------------------------------------------------------------------ collision searches look at the step just taken
def rule_collision_step_size(ctx, rule):
    n = 0
    for cfile, tu, fname, fn in _own_funcs(('collision.c',)):
        for m in walk(cfront.body(fn)):
            if m.get('kind') == 'MemberExpr' and render(m).replace(' ', '') == 'r.dt_last_done':
                n += 1
            if m.get('kind') == 'MemberExpr' and render(m).replace(' ', '') == 'r.dt':
                n += 1
                ctx.report(rule, '%s:dt' % fname, 'src/collision.c:%s %s' % (line_of(m), fname),
                           'the collision code reads r->dt, the size of the *next* step; the segment it has to examine is the step just taken, r->dt_last_done (they differ for every adaptive integrator and after the last, shortened step)')
    anchor(n >= 4, 'reads of r->dt_last_done in collision.c (positive control, found %d)' % n)
    ctx.covered(rule, 'collision.c measures motion with dt_last_done, never with dt', n, floor=4)


# ------------------------------------------------------------------ dt_last_done recorded on every path
def rule_last_done_unconditional(ctx, rule):
    from . import pathcond
    n = 0
    for cfile, tu, fname, fn in _own_funcs():
        if not re.match(r'^reb_integrator_\w+_part2$', fname):
            continue
        pc = pathcond.conditions(fn)
        for e in walk(cfront.body(fn)):
            if is_assign(e) and e['opcode'] == '=' and render(e['inner'][0]).replace(' ', '') == 'r.dt_last_done' and render(e['inner'][1]).replace(' ', '').strip('()') in ('r.dt', 'dt'):
                n += 1
                cs = [c for c in pc.get(id(e), []) if 'safe_mode' in c or 'is_synchronized' in c or 'keep_unsynchronized' in c]
                if cs:
                    ctx.report(rule, '%s:dt_last_done:conditional' % fname, 'src/%s:%s %s' % (cfile, line_of(e), fname),
                               'the step size of the step just taken is recorded only if %s: with the other setting dt_last_done keeps the value of an inner sub-step (or of an earlier step), and integrate() hands that back as the user\'s timestep' % cs)
    ctx.covered(rule, 'part2 functions record dt_last_done independently of the synchronisation options', n, floor=5)


# ------------------------------------------------------------------ leapfrog acts on the live particle
def rule_leapfrog_live(ctx, rule):
    """LEAPFROG is drift(dt/2) kick(dt) drift(dt/2) with the drift after the kick using the kicked velocity. In
    integrator_leapfrog.c every `A.x += c * B.vx` and `A.vx += c * B.ax` has A and B the same particle expression: a
    by-value snapshot of the particle on the right-hand side freezes the velocity of before the kick."""
    tu = cfront.load_tu('integrator_leapfrog.c')
    n = 0
    for fname in sorted(tu.funcs):
        fn = tu.func(fname)
        if cfront.body(fn) is None:
            continue
        for e in walk(cfront.body(fn)):
            if not (is_assign(e) and e['opcode'] == '+='):
                continue
            l = strip(e['inner'][0])
            if l.get('kind') != 'MemberExpr' or l['name'] not in ('x', 'y', 'z', 'vx', 'vy', 'vz'):
                continue
            want = {'x': 'vx', 'y': 'vy', 'z': 'vz', 'vx': 'ax', 'vy': 'ay', 'vz': 'az'}[l['name']]
            base = render(l['inner'][0]).replace(' ', '')
            srcs = [m for m in walk(e['inner'][1]) if m.get('kind') == 'MemberExpr' and m.get('name') == want]
            if not srcs:
                continue
            n += 1
            for m in srcs:
                if render(m['inner'][0]).replace(' ', '') != base:
                    ctx.report(rule, '%s:%s' % (fname, l['name']), 'src/integrator_leapfrog.c:%s %s' % (line_of(e), fname),
                               '%s is advanced with %s, which is not a member of the particle being advanced (%s): a snapshot taken before the kick supplies the old velocity, and the step is no longer the symmetric drift-kick-drift' % (render(l), render(m), base))
    ctx.covered(rule, 'LEAPFROG: drift and kick read the velocity / acceleration of the live particle they advance', n, floor=9)


# ------------------------------------------------------------------ running centre of mass
def rule_running_com(ctx, rule):
    n = 0
    for cfile, tu, fname, fn in _own_funcs():
        for loop in walk(cfront.body(fn)):
            if loop.get('kind') not in ('ForStmt', 'WhileStmt'):
                continue
            for e in walk(loop['inner'][-1]):
                if is_assign(e) and e['opcode'] == '=':
                    rhs = strip(e['inner'][1], casts=True)
                    l = strip(e['inner'][0])
                    if rhs.get('kind') == 'CallExpr' and callee_name(rhs) == 'reb_particle_com_of_pair' and l.get('kind') == 'DeclRefExpr':
                        n += 1
                        v = l['referencedDecl']['name']
                        if not any(render(a).replace(' ', '') == v for a in call_args(rhs)):
                            ctx.report(rule, '%s:%s' % (fname, v), 'src/%s:%s %s' % (cfile, line_of(e), fname),
                                       'the running centre of mass %s is replaced by %s, which does not contain %s itself: the bodies accumulated so far are dropped and every later orbit is computed around the wrong primary' % (v, render(rhs), v))
    ctx.covered(rule, 'running centres of mass accumulate: com = com_of_pair(com, p)', n, floor=2)


# ------------------------------------------------------------------ no read of an output member before it is written
def rule_inverse_reads_source(ctx, rule):
    """A transformation back to inertial coordinates that *sets* a member of its destination particles (the masses, "in case
    of a merger / mass change") owns that member: a read of it before the function (or the sibling it calls first) has
    stored it reads whatever was in the output buffer, and the store that follows becomes a no-op."""
    tu = cfront.load_tu('transformations.c')
    n = 0
    sets = {}
    for fname in sorted(tu.funcs):
        fn = tu.func(fname)
        ps = cfront.params(fn)
        if not ps:
            continue
        dest = ps[0].get('name')
        sets[fname] = {strip(e['inner'][0])['name'] for e in walk(cfront.body(fn)) if is_assign(e) and e['opcode'] == '=' and strip(e['inner'][0]).get('kind') == 'MemberExpr'
                       and re.match(r'^%s\[' % re.escape(dest), render(strip(e['inner'][0])['inner'][0]).replace(' ', ''))}
    for fname in sorted(tu.funcs):
        if not re.search(r'_to_inertial_(pos|posvel|acc)$', fname):
            continue
        fn = tu.func(fname)
        dest = cfront.params(fn)[0].get('name')
        first = {}
        for e in walk(cfront.body(fn)):
            if is_assign(e) and e['opcode'] == '=':
                l = strip(e['inner'][0])
                if l.get('kind') == 'MemberExpr' and re.match(r'^%s\[' % re.escape(dest), render(l['inner'][0]).replace(' ', '')):
                    first[l['name']] = min(first.get(l['name'], 10**9), line_of(e))
            if e.get('kind') == 'CallExpr' and callee_name(e) in sets and call_args(e) and render(call_args(e)[0]).replace(' ', '') == dest:
                for mname in sets[callee_name(e)]:
                    first[mname] = min(first.get(mname, 10**9), line_of(e))
        written = {id(strip(e['inner'][0])) for e in walk(cfront.body(fn)) if is_assign(e)}
        n += 1
        for m in walk(cfront.body(fn)):
            if m.get('kind') == 'MemberExpr' and id(m) not in written and m['name'] == 'm' and re.match(r'^%s\[' % re.escape(dest), render(m['inner'][0]).replace(' ', '')):
                n += 1
                if 'm' in first and line_of(m) < first['m']:
                    ctx.report(rule, '%s:m' % fname, 'src/transformations.c:%s %s' % (line_of(m), fname),
                               '%s is read at line %s, before this function stores the masses of the transformed set into the destination (line %s): the weights come from the output buffer (stale after a merger or when writing into a fresh array) and the store that follows changes nothing' % (render(m), line_of(m), first['m']))
    ctx.covered(rule, 'maps back to inertial coordinates do not read a destination mass before they have stored it', n, floor=8)


# ------------------------------------------------------------------ wrappers forward their parameters
def rule_wrapper_forwards(ctx, rule):
    """A function that does its work by returning the result of the function of the same name without a suffix
    (remove_particle_by_hash -> remove_particle) hands every parameter it shares with that function on: a literal in the
    place of a same-named parameter silently fixes the caller's choice."""
    n = 0
    tus = cfront.load_tus()
    protos = {}
    for tu in tus.values():
        for k, f in tu.funcs.items():
            protos.setdefault(k, f)
    for cfile, tu, fname, fn in _own_funcs():
        m = re.match(r'^(reb_\w+?)_by_hash$', fname)
        if not m or m.group(1) not in protos:
            continue
        base = m.group(1)
        bps = [p.get('name') for p in cfront.params(protos[base])]
        mine = [p.get('name') for p in cfront.params(fn)]
        for e in walk(cfront.body(fn)):
            if e.get('kind') == 'CallExpr' and callee_name(e) == base:
                n += 1
                for pn, a in zip(bps, call_args(e)):
                    if pn in mine and render(a).replace(' ', '').strip('()') != pn:
                        ctx.report(rule, '%s:%s' % (fname, pn), 'src/%s:%s %s' % (cfile, line_of(e), fname),
                                   '%s has a parameter %s of its own but passes %s for the parameter %s of %s: the caller\'s choice is ignored' % (fname, pn, render(a), pn, base))
    ctx.covered(rule, '..._by_hash wrappers forward the parameters they share with the function they wrap', n, floor=1)


# ------------------------------------------------------------------ Python: integrator name and its settings struct
def rule_integrator_conjuncts(ctx, rule):
    """In the Python layer a settings struct `ri_y` that is consulted under a guard naming the integrator "x" is the one of
    that integrator: x = y. Three ways of writing the guard are read: a conjunction
    `sim.integrator == "x" and sim.ri_y.<member> ...`, an `if <integrator> == "x":` (or elif) whose body touches `ri_y`, and
    a dictionary literal from integrator names to the names of their structs {"x": "ri_y"}. `<integrator>` is the attribute
    or a local that holds it (`integrator = sim.integrator`)."""
    db = pyfront.pydb()
    n = 0

    def mismatch(rel, line, key, name, attr, text):
        ctx.report(rule, '%s:%s:%s' % (rel, key, attr), '%s:%d' % (rel, line),
                   'the guard names the integrator "%s" and then uses %s: the settings of another integrator decide (its safe_mode defaults to 1, so an unsynchronised "%s" run is treated as safe)' % (name, text, name))
    for rel, tree in sorted(db.files.items()):
        # locals that hold the integrator name (`integrator = sim.integrator`)
        held = set()
        for node in ast.walk(tree):
            if isinstance(node, ast.Assign) and len(node.targets) == 1 and isinstance(node.targets[0], ast.Name) \
                    and isinstance(node.value, ast.Attribute) and node.value.attr == 'integrator':
                held.add(node.targets[0].id)

        def names_integrator(e):
            return (isinstance(e, ast.Attribute) and e.attr == 'integrator') or (isinstance(e, ast.Name) and e.id in held)

        def named(v):
            if isinstance(v, ast.Compare) and len(v.ops) == 1 and isinstance(v.ops[0], ast.Eq) and names_integrator(v.left) \
                    and isinstance(v.comparators[0], ast.Constant) and isinstance(v.comparators[0].value, str):
                return v.comparators[0].value
            return None
        for node in ast.walk(tree):
            if isinstance(node, ast.BoolOp) and isinstance(node.op, ast.And):
                names = [named(v) for v in node.values if named(v) is not None]
                if len(names) != 1:
                    continue
                for v in node.values:
                    for a in ast.walk(v):
                        if isinstance(a, ast.Attribute) and a.attr.startswith('ri_'):
                            n += 1
                            if a.attr[3:] != names[0]:
                                mismatch(rel, a.lineno, 'and:%d' % node.lineno, names[0], a.attr, ast.unparse(a))
            elif isinstance(node, ast.If) and named(node.test) is not None:
                for st in node.body:
                    for a in ast.walk(st):
                        if isinstance(a, ast.Attribute) and a.attr.startswith('ri_'):
                            n += 1
                            if a.attr[3:] != named(node.test):
                                mismatch(rel, a.lineno, 'if:%s' % named(node.test), named(node.test), a.attr, ast.unparse(a))
            elif isinstance(node, ast.Dict):
                for k, v in zip(node.keys, node.values):
                    if isinstance(k, ast.Constant) and isinstance(k.value, str) and isinstance(v, ast.Constant) and isinstance(v.value, str) and v.value.startswith('ri_'):
                        n += 1
                        if v.value[3:] != k.value:
                            mismatch(rel, v.lineno, 'dict:%s' % k.value, k.value, v.value, repr(v.value))
                    elif isinstance(k, ast.Constant) and isinstance(k.value, str) and isinstance(v, ast.Attribute) and v.attr.startswith('ri_'):
                        n += 1                  # {"whfast": sim.ri_whfast, ...}: the table holds the structs themselves
                        if v.attr[3:] != k.value:
                            mismatch(rel, v.lineno, 'dict:%s' % k.value, k.value, v.attr, ast.unparse(v))
    ctx.covered(rule, 'settings structs consulted under a guard that names an integrator are those of that integrator (conjunctions, if-bodies, name tables)', n, floor=3)
