"""C11 - orbital elements <-> Cartesian; the C and Python front ends agree: static necessary conditions."""
import ast
import re

from ..core import AnalysisError, anchor
from .. import cfront, pyfront
from ..cfront import walk, strip, render, line_of, is_assign, callee_name, call_args, qtype, toks
from . import x1

COUNTER_TO_PY = {'Ncart': 'cart', 'Norb': 'orbi', 'Npal': 'pal', 'Nlong': 'longitudes'}


def c_front_end():
    tu = cfront.load_tu('tools.c')
    fn = tu.func('reb_particle_from_fmt_errV')
    sets = {}
    for n in walk(cfront.body(fn)):
        if n.get('kind') == 'IfStmt':
            cond = strip(n['inner'][0])
            then = strip(n['inner'][1])
            if then.get('kind') == 'UnaryOperator' and then.get('opcode') == '++':
                K = strip(then['inner'][0])['referencedDecl']['name']
                v = None
                if cond.get('kind') == 'UnaryOperator' and cond.get('opcode') == '!':
                    for x in walk(cond):
                        if x.get('kind') == 'DeclRefExpr' and x['referencedDecl'].get('kind') == 'VarDecl':
                            v = x['referencedDecl']['name']
                elif cond.get('kind') == 'DeclRefExpr':
                    v = cond['referencedDecl']['name']
                sets.setdefault(K, []).append(v)
    tokens = {}
    for n in walk(cfront.body(fn)):
        if n.get('kind') == 'IfStmt':
            cond = n['inner'][0]
            lits = [x for x in walk(cond) if x.get('kind') == 'StringLiteral']
            if lits and any(x.get('kind') == 'CallExpr' and callee_name(x) == 'strcmp' for x in walk(cond)):
                tgt = [render(x['inner'][0]) for x in walk(n['inner'][1]) if is_assign(x)]
                tokens[lits[0]['value'].strip('"')] = tgt
    errs = []
    for n in walk(cfront.body(fn)):
        if is_assign(n) and render(n['inner'][0]).replace(' ', '') == '(*err)':
            errs.append(int(render(n['inner'][1])))
    return fn, sets, tokens, errs


def py_front_end():
    db = pyfront.pydb()
    init = db.classes['Particle'].defs.get('__init__')
    anchor(init is not None, 'Particle.__init__')
    lists = {}
    inline = []
    for n in ast.walk(init):
        if isinstance(n, ast.Assign) and isinstance(n.value, ast.List) and isinstance(n.targets[0], ast.Name) and all(isinstance(e, ast.Name) for e in n.value.elts):
            lists[n.targets[0].id] = [e.id for e in n.value.elts]
        if isinstance(n, ast.Call) and getattr(n.func, 'id', None) == 'notNone' and n.args and isinstance(n.args[0], ast.List):
            inline.append([e.id for e in n.args[0].elts])
    # anonymous collections of argument names (a tuple inside a comprehension, an argument of a helper): candidates by content
    params = {a.arg for a in init.args.args}
    k = 0
    for n in ast.walk(init):
        if isinstance(n, (ast.List, ast.Tuple)) and len(n.elts) >= 3 and all(isinstance(e, ast.Name) and e.id in params for e in n.elts):
            names = [e.id for e in n.elts]
            if names not in lists.values():
                lists['@%d' % k] = names
                k += 1
    return init, lists, inline


def _py_class(lists, pyname, cs):
    """the Python collection that plays the role of a C counter: by its name, else the collection sharing most names with the C set"""
    if pyname in lists:
        return lists[pyname]
    best = max(lists.values(), key=lambda v: len(set(v) & cs) / float(len(set(v) | cs)), default=None)
    if best is not None and len(set(best) & cs) * 2 >= len(cs):
        return best
    return None


def rule_argument_classes(ctx):
    fn, csets, tokens, errs = c_front_end()
    init, lists, inline = py_front_end()
    n = 0
    samples = []
    for K, pyname in COUNTER_TO_PY.items():
        anchor(K in csets, 'C counter ' + K)
        cs = {('primary' if v == 'primary_given' else v) for v in csets[K]}
        pl = _py_class(lists, pyname, cs)
        anchor(pl is not None, 'Python collection of argument names for ' + pyname)
        ps = set(pl)
        n += len(cs | ps)
        if cs != ps:
            ctx.report('R11.1', 'class:' + K, 'src/tools.c reb_particle_from_fmt_errV / rebound/particle.py Particle.__init__',
                       'the C parser counts %s as %s but Python lists %s as %s: only C has %s, only Python has %s - the two front ends accept different argument combinations'
                       % (sorted(cs), K, sorted(ps), pyname, sorted(cs - ps), sorted(ps - cs)))
        samples.append('%s == %s (%d names)' % (K, pyname, len(cs)))
    anchor('Nnonpal' in csets and inline, 'C counter Nnonpal and the inline Python list of the Pal-mix test')
    cs = {('primary' if v == 'primary_given' else v) for v in csets['Nnonpal']}
    ps = set(inline[0])
    n += len(cs | ps)
    if cs != ps:
        ctx.report('R11.1', 'class:Nnonpal', 'src/tools.c reb_particle_from_fmt_errV / rebound/particle.py Particle.__init__',
                   'elements that cannot be mixed with Pal elements: C has %s, Python has %s (only C: %s, only Python: %s)' % (sorted(cs), sorted(ps), sorted(cs - ps), sorted(ps - cs)))
    # every token the C parser accepts is an argument of the Python constructor (and vice versa for element names)
    pyargs = {a.arg for a in init.args.args}
    for tok, tgt in sorted(tokens.items()):
        n += 1
        if tok not in pyargs:
            ctx.report('R11.1', 'token:' + tok, 'src/tools.c reb_particle_from_fmt_errV', 'C accepts the token "%s" which Python\'s Particle() does not know' % tok)
        want = tok if tok not in ('r', 'primary') else {'r': 'radius', 'primary': 'primary'}[tok]
        if want not in [t for t in tgt]:
            ctx.report('R11.1', 'token:%s:target' % tok, 'src/tools.c reb_particle_from_fmt_errV', 'the token "%s" is stored in %s' % (tok, tgt))
    ctx.covered('R11.1', 'argument classes (cartesian / orbital / non-Pal / Pal / longitudes) of the C parser vs the Python constructor; token -> variable map', n, floor=60, samples=samples)
    return errs


def rule_error_codes(ctx, errs):
    tu = cfront.load_tu('tools.c')
    n = 0
    # every code the parser / from_orbit_err can set has a message
    f = tu.func('reb_string_for_particle_error')
    handled = set()
    pn = [p_.get('name') for p_ in cfront.params(f)]
    anchor(len(pn) == 1, 'reb_string_for_particle_error takes the error code')
    for x in walk(cfront.body(f)):
        if x.get('kind') == 'IfStmt':
            m = re.match(r'^\(%s==(\d+)\)$' % re.escape(pn[0]), render(x['inner'][0]).replace(' ', ''))
            if m:
                handled.add(int(m.group(1)))
        elif x.get('kind') == 'CaseStmt':
            # switch (err) { case 3: return "..."; }
            lab = strip(x['inner'][0], casts=True)
            while lab.get('kind') == 'ConstantExpr' and lab.get('inner'):
                lab = strip(lab['inner'][0], casts=True)
            if lab.get('kind') == 'IntegerLiteral':
                handled.add(int(lab['value']))
    anchor(handled, 'code -> message mapping (if chain or switch) in reb_string_for_particle_error')
    fo = tu.func('reb_particle_from_orbit_err')
    oerrs = []
    for e in walk(cfront.body(fo)):
        if not (is_assign(e) and render(e['inner'][0]).replace(' ', '') == '(*err)'):
            continue
        v0 = strip(e['inner'][1], casts=True)
        if v0.get('kind') == 'IntegerLiteral':
            oerrs.append(int(v0['value']))
            continue
        # *err = code; with `code` the result of a status function split off from the constructor: the codes are its returns
        src = None
        if v0.get('kind') == 'DeclRefExpr':
            for d_ in walk(cfront.body(fo)):
                if d_.get('kind') == 'VarDecl' and d_.get('id') == v0['referencedDecl'].get('id') and 'init' in d_:
                    ini_ = [c_ for c_ in d_.get('inner', []) if c_.get('kind') not in ('FullComment',)]
                    src = strip(ini_[-1], casts=True) if ini_ else None
        elif v0.get('kind') == 'CallExpr':
            src = v0
        h_ = tu.funcs.get(callee_name(src)) if src is not None and src.get('kind') == 'CallExpr' else None
        rets_ = [strip(x['inner'][0], casts=True) for x in walk(cfront.body(h_)) if x.get('kind') == 'ReturnStmt' and x.get('inner')] if h_ is not None else []
        if not rets_ or not all(r_.get('kind') == 'IntegerLiteral' for r_ in rets_):
            raise AnalysisError('R11.2: the error code stored at src/tools.c:%s (%s) is neither a literal nor the result of a function that returns literals' % (line_of(e), render(e['inner'][1])))
        oerrs += [int(r_['value']) for r_ in rets_ if int(r_['value']) != 0]
    for code in sorted(set(errs) | set(oerrs)):
        n += 1
        if code not in handled:
            ctx.report('R11.2', 'err:%d:message' % code, 'src/tools.c reb_string_for_particle_error', 'error code %d can be set but has no message: the failure is reported as nothing' % code)
    # Python handles every code reb_particle_from_orbit_err can set
    init, lists, inline = py_front_end()
    pyh = set()
    for x in ast.walk(init):
        if isinstance(x, ast.If) and isinstance(x.test, ast.Compare) and ast.unparse(x.test.left) == 'err.value' and isinstance(x.test.comparators[0], ast.Constant):
            if any(isinstance(y, ast.Raise) for y in ast.walk(x)):
                pyh.add(x.test.comparators[0].value)
    # the same mapping kept as a table: D.get(err.value) / D[err.value] with D a module-level dict of int -> message, and a raise
    db_ = pyfront.pydb()
    mod = db_.files[db_.classes['Particle'].path]
    tables = {}
    for st in mod.body:
        if isinstance(st, ast.Assign) and len(st.targets) == 1 and isinstance(st.targets[0], ast.Name) and isinstance(st.value, ast.Dict):
            ks = [k_.value for k_ in st.value.keys if isinstance(k_, ast.Constant) and isinstance(k_.value, int)]
            if ks and len(ks) == len(st.value.keys):
                tables[st.targets[0].id] = set(ks)
    for x in ast.walk(init):
        tname = None
        if isinstance(x, ast.Call) and isinstance(x.func, ast.Attribute) and x.func.attr == 'get' and isinstance(x.func.value, ast.Name) and x.args and ast.unparse(x.args[0]) == 'err.value':
            tname = x.func.value.id
        if isinstance(x, ast.Subscript) and isinstance(x.value, ast.Name) and ast.unparse(x.slice) == 'err.value':
            tname = x.value.id
        if tname in tables and any(isinstance(y, ast.Raise) for y in ast.walk(init)):
            pyh |= tables[tname]
    for code in sorted(set(oerrs)):
        n += 1
        if code not in pyh:
            ctx.report('R11.2', 'err:%d:python' % code, 'rebound/particle.py Particle.__init__', 'reb_particle_from_orbit_err can fail with code %d but Python does not raise for it: a NaN particle is accepted silently' % code)
    # rejection tests of the parser in the documented order
    want = [7, 8, 9, 10, 11, 12, 13, 14]
    got = [e for e in errs if e >= 7]
    n += 1
    if got != want:
        ctx.report('R11.2', 'err:order', 'src/tools.c reb_particle_from_fmt_errV', 'the parser sets codes %s, expected %s' % (got, want))
    # every rejection returns a NaN particle right after setting the code
    fn = tu.func('reb_particle_from_fmt_errV')
    for comp in walk(cfront.body(fn)):
        if comp.get('kind') != 'CompoundStmt':
            continue
        items = comp.get('inner', [])
        for i, st in enumerate(items):
            s = strip(st)
            if is_assign(s) and render(s['inner'][0]).replace(' ', '') == '(*err)':
                n += 1
                nxt = items[i + 1] if i + 1 < len(items) else None
                if not (nxt and nxt.get('kind') == 'ReturnStmt' and 'reb_particle_nan' in render(nxt['inner'][0])):
                    ctx.report('R11.2', 'err:%s:return' % render(s['inner'][1]), 'src/tools.c:%s reb_particle_from_fmt_errV' % line_of(s), 'after setting the error code the parser does not return a NaN particle')
    ctx.covered('R11.2', 'error codes: every code has a message, Python raises for every code of from_orbit_err, parser rejections in order and returning NaN', n, floor=25)


def py_to_sympy(node, syms, names):
    import sympy as sp
    if isinstance(node, ast.Constant):
        return sp.nsimplify(node.value, rational=True)
    if isinstance(node, (ast.Name, ast.Attribute)):
        key = names.get(ast.unparse(node), ast.unparse(node))
        if key == 'pi':
            return sp.pi
        if key not in syms:
            syms[key] = sp.Symbol(key, positive=True)
        return syms[key]
    if isinstance(node, ast.BinOp):
        a, b = py_to_sympy(node.left, syms, names), py_to_sympy(node.right, syms, names)
        return {ast.Add: lambda: a + b, ast.Sub: lambda: a - b, ast.Mult: lambda: a * b, ast.Div: lambda: a / b, ast.Pow: lambda: a ** b}[type(node.op)]()
    if isinstance(node, ast.UnaryOp) and isinstance(node.op, ast.USub):
        return -py_to_sympy(node.operand, syms, names)
    if isinstance(node, ast.Call) and pyfront._name(node.func) == 'abs':
        return sp.Abs(py_to_sympy(node.args[0], syms, names))
    raise ValueError(ast.dump(node)[:60])


def c_to_sympy(t, syms, names):
    import sympy as sp
    k = t[0]
    if k == 'lit':
        try:
            if abs(float(t[1]) - 3.141592653589793) < 1e-15:
                return sp.pi
        except ValueError:
            pass
        return sp.nsimplify(t[1], rational=True)
    if k in ('id', 'mem'):
        key = names.get(render(t), render(t))
        if key == 'pi':
            return sp.pi
        if key not in syms:
            syms[key] = sp.Symbol(key, positive=True)
        return syms[key]
    if k == 'bin':
        a, b = c_to_sympy(t[2], syms, names), c_to_sympy(t[3], syms, names)
        return {'+': lambda: a + b, '-': lambda: a - b, '*': lambda: a * b, '/': lambda: a / b}[t[1]]()
    if k == 'un' and t[1] == '-':
        return -c_to_sympy(t[2], syms, names)
    if k == 'cast':
        return c_to_sympy(t[2], syms, names)
    if k == 'call':
        f = render(t[1])
        args = [c_to_sympy(a, syms, names) for a in t[2:]]
        return {'sqrt': sp.sqrt, 'cbrt': sp.cbrt, 'fabs': sp.Abs}[f](*args)
    raise ValueError(str(t)[:60])


CNAMES = {'r.G': 'G', 'primary.m': 'Mp', 'm': 'm', 'M_PI': 'pi', '3.14159265358979323846': 'pi', 'P': 'P', 'a': 'a', 'r.t': 't', 'T': 'T'}
PNAMES = {'simulation.G': 'G', 'primary.m': 'Mp', 'self.m': 'm', 'math.pi': 'pi', 'P': 'P', 'a': 'a', 'simulation.t': 't', 'T': 'T'}


def rule_shared_formulas(ctx):
    import sympy as sp
    fn, csets, tokens, errs = c_front_end()
    init, lists, inline = py_front_end()
    n = 0
    samples = []
    # Python obtains the conversions from C
    refs = {x.attr for x in ast.walk(init) if isinstance(x, ast.Attribute) and pyfront._name(x.value) == 'clibrebound'}
    called = {pyfront._name(x.func) for x in ast.walk(init) if isinstance(x, ast.Call)}
    for need in ('reb_particle_from_orbit_err', 'reb_particle_from_pal', 'reb_simulation_com'):
        n += 1
        if need not in refs:
            ctx.report('R11.4', 'shared:' + need, 'rebound/particle.py Particle.__init__', 'Python no longer obtains %s from the C library (a second implementation can drift)' % need)
    for need in ('M_to_f', 'E_to_f'):
        n += 1
        if need not in called:
            ctx.report('R11.4', 'shared:' + need, 'rebound/particle.py Particle.__init__', 'Python does not convert anomalies through %s (which forwards to C)' % need)
    # inline formulas: a from P, mean motion n from (G, M, a), M from T
    cexpr = {}
    for e in walk(cfront.body(fn)):
        if is_assign(e) and e['opcode'] == '=' and render(e['inner'][0]) == 'a' and 'cbrt' in render(e['inner'][1]):
            cexpr['a_from_P'] = (toks(e['inner'][1]), line_of(e))
        if is_assign(e) and e['opcode'] == '=' and render(e['inner'][0]) == 'M' and 'T' in render(e['inner'][1]) and 'n' in render(e['inner'][1]):
            cexpr['M_from_T'] = (toks(e['inner'][1]), line_of(e))
    for d in walk(cfront.body(fn)):
        if d.get('kind') == 'VarDecl' and d.get('name') == 'n' and 'init' in d:
            init_ = [c for c in d.get('inner', []) if c.get('kind') not in ('FullComment',)]
            cexpr['n'] = (toks(init_[-1]), line_of(d))
    pexpr = {}
    for x in ast.walk(init):
        if isinstance(x, ast.Assign) and isinstance(x.targets[0], ast.Name):
            t = x.targets[0].id
            src = ast.unparse(x.value)
            if t == 'a' and 'P' in src and 'pi' in src:
                pexpr['a_from_P'] = (x.value, x.lineno)
            if t == 'n' and 'simulation.G' in src:
                pexpr['n'] = (x.value, x.lineno)
            if t == 'M' and 'T' in src and 'n' in src:
                pexpr['M_from_T'] = (x.value, x.lineno)
    # Python locals that merely name a sub-expression (mu = primary.m + self.m) are inlined: assigned exactly once, from an
    # arithmetic expression
    stores = {}
    for x in ast.walk(init):
        if isinstance(x, ast.Assign) and len(x.targets) == 1 and isinstance(x.targets[0], ast.Name):
            stores.setdefault(x.targets[0].id, []).append(x.value)
        elif isinstance(x, (ast.AugAssign, ast.For)) and isinstance(getattr(x, 'target', None), ast.Name):
            stores.setdefault(x.target.id, []).append(None)
    params_ = {a_.arg for a_ in init.args.args + init.args.kwonlyargs}
    lets_ = {k_: v_[0] for k_, v_ in stores.items() if len(v_) == 1 and v_[0] is not None and k_ not in params_ and k_ not in PNAMES
             and all(isinstance(y, (ast.BinOp, ast.Name, ast.Attribute, ast.Constant, ast.operator, ast.expr_context, ast.UnaryOp, ast.unaryop)) for y in ast.walk(v_[0]))}

    class _Inline(ast.NodeTransformer):
        def visit_Name(self, node):
            if isinstance(node.ctx, ast.Load) and node.id in lets_:
                return self.visit(ast.parse(ast.unparse(lets_[node.id]), mode='eval').body)
            return node
    for x in ast.walk(init):
        if isinstance(x, ast.Assign) and isinstance(x.targets[0], ast.Name) and x.targets[0].id == 'n' and 'n' not in pexpr:
            if any(isinstance(y, ast.Name) and y.id == 'a' for y in ast.walk(x.value)):
                pexpr['n'] = (x.value, x.lineno)
    for key in list(pexpr):
        pexpr[key] = (_Inline().visit(ast.parse(ast.unparse(pexpr[key][0]), mode='eval').body), pexpr[key][1])
    for key in ('a_from_P', 'n', 'M_from_T'):
        anchor(key in cexpr and key in pexpr, 'inline conversion %s on both sides' % key)
        n += 1
        syms = {}
        try:
            ce = c_to_sympy(cexpr[key][0], syms, dict(CNAMES, n='n'))
            pe = py_to_sympy(pexpr[key][0], syms, dict(PNAMES, n='n'))
        except (ValueError, KeyError) as ex:
            raise AnalysisError('R11.4: cannot translate the %s formula: %s' % (key, ex))
        ok = sp.simplify(ce - pe) == 0
        if not ok:
            ctx.report('R11.4', 'formula:' + key, 'src/tools.c:%s reb_particle_from_fmt_errV / rebound/particle.py:%s Particle.__init__' % (cexpr[key][1], pexpr[key][1]),
                       'the two front ends compute %s differently: C %s, Python %s - the same arguments give different particles' % (key, sp.simplify(ce), sp.simplify(pe)))
        samples.append('%s: C == Python (%s)' % (key, sp.simplify(pe)))
    # retrograde conventions for pomega / theta / l agree
    def c_branches():
        out = {}
        for ifs in walk(cfront.body(fn)):
            if ifs.get('kind') == 'IfStmt' and render(ifs['inner'][0]).replace(' ', '') == '(cos(inc)>0)' and len(ifs['inner']) > 2:
                a = [(render(e['inner'][0]), render(e['inner'][1]).replace(' ', '').strip('()')) for e in walk(ifs['inner'][1]) if is_assign(e)]
                b = [(render(e['inner'][0]), render(e['inner'][1]).replace(' ', '').strip('()')) for e in walk(ifs['inner'][2]) if is_assign(e)]
                if a and b:
                    out[(a[0][0], a[0][1])] = b[0][1]
        return out
    def p_branches():
        out = {}
        for ifs in ast.walk(init):
            if isinstance(ifs, ast.If) and ast.unparse(ifs.test).replace(' ', '') == 'math.cos(inc)>0' and ifs.orelse:
                a = [s for s in ifs.body if isinstance(s, ast.Assign)]
                b = [s for s in ifs.orelse if isinstance(s, ast.Assign)]
                if a and b:
                    out[(a[0].targets[0].id, ast.unparse(a[0].value).replace(' ', ''))] = ast.unparse(b[0].value).replace(' ', '')
        return out
    cb, pb = c_branches(), p_branches()
    def norm(s):
        return s.replace('(', '').replace(')', '')
    cbn = {(k[0], norm(k[1])): norm(v) for k, v in cb.items()}
    pbn = {(k[0], norm(k[1])): norm(v) for k, v in pb.items()}
    anchor(len(cbn) >= 3 and len(pbn) >= 3, 'prograde/retrograde branches for pomega, theta and l on both sides')
    for k in sorted(set(cbn) | set(pbn)):
        n += 1
        if cbn.get(k) != pbn.get(k):
            ctx.report('R11.4', 'retrograde:%s' % k[0], 'src/tools.c reb_particle_from_fmt_errV / rebound/particle.py Particle.__init__',
                       'prograde %s = %s: the retrograde counterpart is %s in C and %s in Python' % (k[0], k[1], cbn.get(k), pbn.get(k)))
    ctx.covered('R11.4', 'formulas are shared, not duplicated: C library used for the maps; inline conversions (a from P, n, M from T) and retrograde conventions agree as expressions', n, floor=11, samples=samples)


def rule_defaults(ctx):
    fn, csets, tokens, errs = c_front_end()
    init, lists, inline = py_front_end()
    cdef = {}
    for ifs in walk(cfront.body(fn)):
        if ifs.get('kind') == 'IfStmt':
            c = render(ifs['inner'][0]).replace(' ', '')
            m = re.match(r'^\(?__builtin_isnan\((\w+)\)\)?$', c)
            if m:
                for e in walk(ifs['inner'][1]):
                    if is_assign(e) and render(e['inner'][0]) == m.group(1) and render(e['inner'][1]) in ('0', '0.0'):
                        cdef[m.group(1)] = 0
    pdef = {}
    for ifs in ast.walk(init):
        if isinstance(ifs, ast.If) and isinstance(ifs.test, ast.Compare) and isinstance(ifs.test.ops[0], ast.Is) and isinstance(ifs.test.left, ast.Name):
            for s in ifs.body:
                if isinstance(s, ast.Assign) and isinstance(s.targets[0], ast.Name) and s.targets[0].id == ifs.test.left.id and isinstance(s.value, ast.Constant) and s.value.value == 0:
                    pdef[ifs.test.left.id] = 0
    def _is_zero(e):
        return isinstance(e, ast.Constant) and e.value == 0

    def _default_of(e, var):
        """`0 if var is None else var` (either orientation)"""
        if isinstance(e, ast.IfExp) and isinstance(e.test, ast.Compare) and isinstance(e.test.left, ast.Name) and e.test.left.id == var and isinstance(e.test.comparators[0], ast.Constant) and e.test.comparators[0].value is None:
            if isinstance(e.test.ops[0], ast.Is) and _is_zero(e.body) and isinstance(e.orelse, ast.Name) and e.orelse.id == var:
                return True
            if isinstance(e.test.ops[0], ast.IsNot) and _is_zero(e.orelse) and isinstance(e.body, ast.Name) and e.body.id == var:
                return True
        return False
    opaque = set()
    for a_ in ast.walk(init):
        if not isinstance(a_, ast.Assign) or len(a_.targets) != 1:
            continue
        t_, v_ = a_.targets[0], a_.value
        if isinstance(t_, ast.Name) and _default_of(v_, t_.id):
            pdef[t_.id] = 0
        elif isinstance(t_, ast.Tuple) and all(isinstance(x, ast.Name) for x in t_.elts):
            tn = [x.id for x in t_.elts]
            if isinstance(v_, (ast.ListComp, ast.GeneratorExp)) and len(v_.generators) == 1 and isinstance(v_.generators[0].target, ast.Name) \
                    and isinstance(v_.generators[0].iter, (ast.Tuple, ast.List)) and [getattr(x, 'id', None) for x in v_.generators[0].iter.elts] == tn \
                    and _default_of(v_.elt, v_.generators[0].target.id):
                for x in tn:
                    pdef[x] = 0
            else:
                opaque |= set(tn)
        elif isinstance(t_, ast.Name) and any(isinstance(y, (ast.IfExp, ast.ListComp, ast.Call)) for y in ast.walk(v_)) and any(isinstance(y, ast.Name) and y.id == t_.id for y in ast.walk(v_)):
            opaque.add(t_.id)
    n = 0
    names = ['e', 'inc', 'Omega', 'l', 'h', 'k', 'ix', 'iy']
    for v in names:
        n += 1
        if (v in cdef) and (v not in pdef) and v in opaque:
            raise AnalysisError('R11.3: Python assigns %s from an expression of itself that is not one of the known defaulting idioms - cannot decide whether it defaults to 0' % v)
        if (v in cdef) != (v in pdef):
            ctx.report('R11.3', 'default:' + v, 'src/tools.c reb_particle_from_fmt_errV / rebound/particle.py Particle.__init__',
                       'element %s defaults to 0 in %s but not in %s' % (v, 'C' if v in cdef else 'Python', 'Python' if v in cdef else 'C'))
    ctx.covered('R11.3', 'omitted elements default to zero on both sides', n, floor=8, samples=['C %s / Python %s' % (sorted(cdef), sorted(pdef))])


def rule_idioms(ctx):
    """R11.5 sign by division X/fabs(X) is 0/0 at X=0; R11.6 the offset by the primary carries the component it is added to."""
    tu = cfront.load_tu('tools.c')
    n = 0
    # anomaly conversions only (X is a user-supplied anomaly that may be exactly 0); reb_orbit_from_particle_err uses a/fabs(a),
    # where a = 0 is unreachable for finite input - not armed there on purpose
    for fname in ('reb_M_to_E', 'reb_E_to_f', 'reb_M_to_f', 'reb_mod2pi', 'reb_particle_from_orbit_err', 'reb_particle_from_pal', 'reb_tools_solve_kepler_pal'):
        fn = tu.func(fname)
        for e in walk(cfront.body(fn)):
            if e.get('kind') == 'BinaryOperator' and e.get('opcode') == '/':
                n += 1
                a, b = strip(e['inner'][0]), strip(e['inner'][1])
                ta, tb = render(a), render(b)
                if (b.get('kind') == 'CallExpr' and callee_name(b) == 'fabs' and render(call_args(b)[0]) == ta) or \
                        (a.get('kind') == 'CallExpr' and callee_name(a) == 'fabs' and render(call_args(a)[0]) == tb):
                    ctx.report('R11.5', 'signdiv:%s' % fname, 'src/tools.c:%s %s' % (line_of(e), fname),
                               '%s takes a sign by division, which is 0/0 = NaN when the value is exactly zero (e.g. M=0 at pericentre): use copysign' % render(e))
    ctx.covered('R11.5', 'divisions in the anomaly/element conversion functions: none is the sign-by-division idiom X/fabs(X)', n, floor=15)
    n = 0
    samples = []
    comps = {'x', 'y', 'z', 'vx', 'vy', 'vz'}
    for fname in ('reb_particle_from_orbit_err', 'reb_particle_from_pal'):
        fn = tu.func(fname)
        for e in walk(cfront.body(fn)):
            if not (is_assign(e) and e['opcode'] == '='):
                continue
            lv = strip(e['inner'][0])
            if lv.get('kind') != 'MemberExpr' or lv['name'] not in comps:
                continue
            # top-level additive terms of the right-hand side that are bare members of the primary
            terms = []

            def flat(t):
                t = strip(t)
                if t.get('kind') == 'BinaryOperator' and t['opcode'] in ('+', '-'):
                    flat(t['inner'][0])
                    flat(t['inner'][1])
                else:
                    terms.append(t)
            flat(e['inner'][1])
            prim = [t for t in terms if t.get('kind') == 'MemberExpr' and render(t['inner'][0]) == 'primary']
            n += 1
            where = 'src/tools.c:%s %s' % (line_of(e), fname)
            if len(prim) != 1:
                ctx.report('R11.6', 'offset:%s:%s' % (fname, lv['name']), where, 'component %s of the new particle is not offset by the primary exactly once (%d primary terms)' % (lv['name'], len(prim)))
            elif prim[0]['name'] != lv['name']:
                ctx.report('R11.6', 'offset:%s:%s' % (fname, lv['name']), where,
                           'component %s of the new particle is offset by primary.%s: an orbit built around a moving or displaced primary does not give its elements back' % (lv['name'], prim[0]['name']))
            samples.append('%s: p.%s = primary.%s + ...' % (fname, lv['name'], prim[0]['name'] if prim else '?'))
    ctx.covered('R11.6', 'element->Cartesian maps: every position/velocity component is offset by the same component of the primary', n, floor=12, samples=samples[:3])


def rule_components(ctx):
    only = {'reb_orbit_from_particle_err', 'reb_tools_particle_to_pal', 'reb_particle_from_pal', 'reb_particle_from_orbit_err', 'reb_particle_from_fmt_errV',
            'reb_tools_spherical_to_xyz', 'reb_tools_xyz_to_spherical'}
    stats, nfun = x1.run_files(ctx, 'R11.7', ['tools.c'], only=only)
    ctx.covered('R11.7', 'x/y/z statement triples of the orbit conversion functions outside the reference-plane stanzas (relative position and velocity, '
                'angular momentum, eccentricity vector) are one formula under an axis permutation', stats['groups'], floor=10, samples=stats['samples'])


def _cx(t, env):
    """token tree -> sympy with an explicit environment (rendered leaf -> expression); fabs, sqrt understood."""
    import sympy as sp
    k = t[0]
    if k == 'lit':
        return sp.nsimplify(t[1], rational=True)
    if k in ('id', 'mem', 'idx'):
        key = render(t)
        if key not in env:
            raise ValueError('unbound %s' % key)
        return env[key]
    if k == 'bin':
        a, b = _cx(t[2], env), _cx(t[3], env)
        return {'+': lambda: a + b, '-': lambda: a - b, '*': lambda: a * b, '/': lambda: a / b}[t[1]]()
    if k == 'un' and t[1] == '-':
        return -_cx(t[2], env)
    if k == 'cast':
        return _cx(t[2], env)
    if k == 'call':
        f = render(t[1])
        args = [_cx(a, env) for a in t[2:]]
        if f in ('fabs', '__builtin_fabs'):
            return sp.Abs(args[0])
        if f == 'sqrt':
            return sp.sqrt(args[0])
        raise ValueError('call ' + f)
    raise ValueError('kind ' + k)


def rule_pericentre_time(ctx):
    """R11.8: the time of pericentre passage is accepted as `M = n (t - T)` with n = sqrt(G M/|a|^3) >= 0 and reported by
    reb_orbit_from_particle as T = t - M/<mean motion>. The two must be inverse for bound (a > 0) and unbound (a < 0)
    orbits alike: composing the reported T with the accepted formula must give back T as an identity in (a, mu, t, T)."""
    import sympy as sp
    tu = cfront.load_tu('tools.c')
    ffmt = tu.func('reb_particle_from_fmt_errV')
    forb = tu.func('reb_orbit_from_particle_err')
    mu = sp.Symbol('mu', positive=True)
    t, T = sp.symbols('t T', real=True)
    n = 0
    samples = []
    for sign, label in ((1, 'bound (a>0)'), (-1, 'unbound (a<0)')):
        apos = sp.Symbol('A', positive=True)
        a = sign * apos
        # forward: n and M from T in the argument parser
        nf = Mf = None
        Gs, Mp, m_ = sp.symbols('G Mp m', positive=True)
        envf = {'r.G': Gs, 'primary.m': Mp, 'm': m_, 'a': a, 'r.t': t, 'T': T}
        for d in walk(cfront.body(ffmt)):
            if d.get('kind') == 'VarDecl' and d.get('name') == 'n' and 'init' in d:
                init_ = [c for c in d.get('inner', []) if c.get('kind') not in ('FullComment',)]
                nf = (_cx(toks(init_[-1]), envf), line_of(d))
        anchor(nf is not None, 'mean motion n in reb_particle_from_fmt_errV')
        envf['n'] = nf[0]
        for e in walk(cfront.body(ffmt)):
            if is_assign(e) and e['opcode'] == '=' and render(e['inner'][0]) == 'M' and 'T' in render(e['inner'][1]):
                Mf = (_cx(toks(e['inner'][1]), envf), line_of(e))
        anchor(Mf is not None, 'M from T in reb_particle_from_fmt_errV')
        Mfwd = Mf[0].subs(Gs * (Mp + m_), mu).subs(Gs, mu / (Mp + m_))
        # inverse: o.n and o.T in the orbit calculation
        on = oT = None
        envi = {'o.a': a}
        # locals by role, names are free: the gravitational parameter is the local computed as G*(m+m); the current time is
        # the local that is assigned a member called t
        for d_ in walk(cfront.body(forb)):
            cand = None
            if d_.get('kind') == 'VarDecl' and 'init' in d_:
                ini_ = [c_ for c_ in d_.get('inner', []) if c_.get('kind') not in ('FullComment',)]
                cand = (d_['name'], ini_[-1]) if ini_ else None
            elif is_assign(d_) and d_['opcode'] == '=' and strip(d_['inner'][0]).get('kind') == 'DeclRefExpr':
                cand = (render(d_['inner'][0]), d_['inner'][1])
            if cand is None:
                continue
            nm_, rhs_ = cand
            txt_ = render(rhs_).replace(' ', '')
            r0 = strip(rhs_, casts=True)
            if r0.get('kind') == 'ConditionalOperator':
                # t0 = (p.sim != NULL) ? p.sim->t : 0.0  - the time of the simulation where there is one
                for br_ in r0['inner'][1:]:
                    b0 = strip(br_, casts=True)
                    if b0.get('kind') == 'MemberExpr' and b0.get('name') == 't':
                        r0 = b0
            if r0.get('kind') == 'MemberExpr' and r0.get('name') == 't':
                envi[nm_] = t
            elif re.match(r'^\(?G\*\(+\w+\.m\+\w+\.m\)+$', txt_):
                envi[nm_] = mu
        anchor(any(v is mu for v in envi.values()) and any(v is t for v in envi.values()), 'gravitational parameter G*(m1+m2) and current time locals in reb_orbit_from_particle_err')
        for e in walk(cfront.body(forb)):
            if is_assign(e) and e['opcode'] == '=' and render(e['inner'][0]) == 'o.n' and 'nan' not in render(e['inner'][1]):
                on = (_cx(toks(e['inner'][1]), envi), line_of(e))
        anchor(on is not None, 'mean motion o.n in reb_orbit_from_particle_err')
        Msym = sp.Symbol('Mcur', real=True)
        envi.update({'o.n': on[0], 'o.M': Msym})
        for e in walk(cfront.body(forb)):
            if is_assign(e) and e['opcode'] == '=' and render(e['inner'][0]) == 'o.T' and 'nan' not in render(e['inner'][1]):
                oT = (_cx(toks(e['inner'][1]), envi), line_of(e))
        anchor(oT is not None, 'pericentre time o.T in reb_orbit_from_particle_err')
        n += 1
        res = sp.simplify(oT[0].subs(Msym, sp.simplify(Mfwd)) - T)
        where = 'src/tools.c:%s reb_orbit_from_particle_err / src/tools.c:%s reb_particle_from_fmt_errV' % (oT[1], Mf[1])
        if res != 0:
            ctx.report('R11.8', 'T:roundtrip:%s' % ('bound' if sign > 0 else 'unbound'), where,
                       'for %s orbits the reported pericentre time, fed back through M = n (t - T), does not return the same T: difference %s (mean motion reported as %s, accepted as %s)'
                       % (label, res, sp.simplify(on[0]), sp.simplify(nf[0].subs(Gs * (Mp + m_), mu))))
        else:
            samples.append('%s: T -> M = n(t-T) -> T is the identity (%s)' % (label, where))
    ctx.covered('R11.8', 'pericentre time: the reporting formula inverts the accepting formula for bound and unbound orbits', n, floor=2, samples=samples)


def rule_angle_range(ctx):
    """R11.9: reb_mod2pi reduces every finite angle into [0, 2 pi): interval evaluation of its body over the reals (fmod keeps
    the sign of its first argument, so one fmod alone maps negative angles into (-2 pi, 0]). Its callers rely on it: the
    Kepler solvers start Newton's iteration from the reduced mean anomaly, and l, theta, pomega, M are reported reduced."""
    import math
    from . import intervals as I
    tu = cfront.load_tu('tools.c')
    fn = tu.func('reb_mod2pi')
    ps = cfront.params(fn)
    anchor(len(ps) == 1, 'reb_mod2pi(double)')
    rng = I.function_range(fn, {ps[0]['name']: I.TOP})
    want = I.Iv(0.0, 2 * math.pi, False, True)
    if not rng.within(want):
        ctx.report('R11.9', 'reb_mod2pi:range', 'src/tools.c:%s reb_mod2pi' % cfront.line_of(fn),
                   'over all finite arguments the returned value ranges over %s, not within [0, 2 pi): fmod keeps the sign of its first argument, so angles below -2 pi (sums of three reduced angles, negative mean anomalies) come back negative' % rng)
    callers = 0
    for f_ in tu.funcs:
        fb = cfront.body(tu.func(f_))
        if fb is not None:
            callers += sum(1 for e in walk(fb) if e.get('kind') == 'CallExpr' and callee_name(e) == 'reb_mod2pi')
    ctx.covered('R11.9', 'range of reb_mod2pi by interval evaluation (%s); %d call sites in tools.c rely on it' % (rng, callers), 1 + callers, floor=5)


def rule_mass_guard_agreement(ctx):
    """R11.10: a particle can be described by elements around a primary only if the primary has mass. The constructor
    (reb_particle_from_orbit_err) and the read-back (reb_orbit_from_particle_err) both reject a massless primary by
    comparing a quantity with TINY; it must be the same quantity - otherwise the constructor accepts a particle (a massive
    body around a massless primary passes a test of G (m + M)) whose orbit cannot be read back."""
    from . import extents
    tu = cfront.load_tu('tools.c')
    got = {}
    for fname in ('reb_particle_from_orbit_err', 'reb_orbit_from_particle_err'):
        fn = tu.func(fname)
        from .. import normal
        # the checks may have been split off into a status function (returns the error code): its parameters stand for
        # the arguments it is called with
        scopes = [(fn, extents.lets(fn))]
        for h in normal.with_new_helpers(tu, fname):
            if h['name'] == fname:
                continue
            for call in walk(cfront.body(fn)):
                if call.get('kind') == 'CallExpr' and callee_name(call) == h['name']:
                    L_ = dict(extents.lets(h))
                    for p_, a_ in zip(cfront.params(h), call_args(call)):
                        if p_.get('name'):
                            L_[p_['name']] = render(a_)
                    scopes.append((h, L_))
        for f_, L in scopes:
          for ifs in walk(cfront.body(f_)):
            if ifs.get('kind') != 'IfStmt':
                continue
            c = strip(ifs['inner'][0])
            if not (c.get('kind') == 'BinaryOperator' and c.get('opcode') in ('<', '<=')):
                continue
            rhs = strip(c['inner'][1], casts=True)
            try:
                tiny = rhs.get('kind') == 'FloatingLiteral' and float(rhs['value']) < 1e-300
            except (ValueError, KeyError):
                tiny = False
            if not tiny:
                continue
            q = extents.canon(extents.resolve(render(c['inner'][0]), L))
            sets_err = any(is_assign(e) and 'err' in render(e['inner'][0]) for e in walk(ifs['inner'][1])) \
                or (f_ is not fn and any(x.get('kind') == 'ReturnStmt' and x.get('inner') and strip(x['inner'][0], casts=True).get('kind') == 'IntegerLiteral'
                                         and strip(x['inner'][0], casts=True).get('value') != '0' for x in walk(ifs['inner'][1])))
            if sets_err and ('.m' in q or q.endswith('m')) and fname not in got:
                got[fname] = (q, line_of(ifs))
    anchor(len(got) == 2, 'massless-primary tests (quantity < TINY) of the orbit constructor and of the read-back')
    a, b = got['reb_particle_from_orbit_err'], got['reb_orbit_from_particle_err']
    if a[0] != b[0]:
        ctx.report('R11.10', 'mass-guard', 'src/tools.c:%s reb_particle_from_orbit_err / src/tools.c:%s reb_orbit_from_particle_err' % (a[1], b[1]),
                   'the constructor rejects a massless primary by testing %s, the read-back by testing %s: inputs that pass the one and fail the other give particles whose orbit cannot be read back' % (a[0], b[0]))
    ctx.covered('R11.10', 'massless-primary guard: constructor and read-back test the same quantity (%s)' % b[0], 2, floor=2)


def rule_pal_newton(ctx):
    """R11.11: the low-eccentricity branch of reb_tools_solve_kepler_pal solves two equations f0(p,q) = f1(p,q) = 0 by
    Newton's method. One pass through the loop body is summarised symbolically; with J the Jacobian of (f0, f1) with
    respect to (q, p) obtained by differentiating the two residuals of the source, the step must satisfy
    J (dq, dp)^T = -(f0, f1)^T identically. A step built from the transposed inverse still converges for small e, but only
    linearly and ever more slowly as e approaches the branch limit, so the fixed number of iterations ends far from the
    root (Pal elements then give a different particle than the classical ones)."""
    import sympy as sp
    from . import symexec, e8
    tu = cfront.load_tu('tools.c')
    fn = tu.func('reb_tools_solve_kepler_pal')
    loop = None
    for x in walk(cfront.body(fn)):
        if x.get('kind') in ('DoStmt', 'WhileStmt', 'ForStmt'):
            body_ = x['inner'][0] if x.get('kind') == 'DoStmt' else x['inner'][-1]
            if any(is_assign(e) and e['opcode'] == '-=' for e in walk(body_)):
                loop = body_
                break
    anchor(loop is not None, 'Newton loop of reb_tools_solve_kepler_pal')
    st = symexec.State()
    items = loop.get('inner', [])
    unknowns = [render(e['inner'][0]) for e in walk(loop) if is_assign(e) and e['opcode'] == '-=']
    anchor(len(unknowns) == 2, 'the loop updates two unknowns with -=')
    u0, u1 = (st.sym(u) for u in unknowns)
    try:
        symexec.run_block(items, st, ())
    except AnalysisError as ex:
        raise AnalysisError('R11.11: the Newton loop body cannot be summarised: %s' % ex)
    # the residuals: the two locals of the body that are multiplied into both updates
    resid = [nm for nm in st.vals if nm not in unknowns and all(st.vals[nm].has(u) for u in (u0, u1)) and isinstance(st.vals[nm], sp.Expr)]
    d0, d1 = st.vals[unknowns[0]] - u0, st.vals[unknowns[1]] - u1
    # candidates f: locals whose value appears linearly in both steps - take the two named first in the body
    cands = []
    for it in items:
        if it.get('kind') == 'DeclStmt':
            for d in it.get('inner', []):
                if d.get('kind') == 'VarDecl' and d.get('name') in st.vals:
                    cands.append(d['name'])
    fs = [c for c in cands if sp.diff(sp.expand(d0), sp.Symbol('___')) == 0][:0]
    # identify f0, f1 as the locals whose expressions contain the data (h, k, lambda): the right-hand sides of the equations
    data = [st.sym(x) for x in ('h', 'k', 'lambda')]
    fs = [c for c in cands if any(st.vals[c].has(s_) for s_ in data)]
    anchor(len(fs) == 2, 'two residuals built from h, k, lambda in the loop body (%s)' % fs)
    f0, f1 = st.vals[fs[0]], st.vals[fs[1]]
    J = sp.Matrix([[sp.diff(f0, u0), sp.diff(f0, u1)], [sp.diff(f1, u0), sp.diff(f1, u1)]])
    lhs = J * sp.Matrix([d0, d1]) + sp.Matrix([f0, f1])
    n = 0
    for k_, comp in enumerate(lhs):
        n += 1
        r_ = sp.simplify(comp)
        ok = r_ == 0 or e8.zero_test(comp, n=3, seed=k_, ranges={str(u0): (0.05, 0.25), str(u1): (0.05, 0.25)}) < 1e-25
        if not ok:
            ctx.report('R11.11', 'pal:newton:%d' % k_, 'src/tools.c:%s reb_tools_solve_kepler_pal' % line_of(loop),
                       'the update of (%s, %s) is not the Newton step for the residuals %s, %s: J*step + f has a non-zero component %d (the inverse Jacobian is applied transposed or with wrong entries), so the iteration converges at best linearly' % (unknowns[0], unknowns[1], fs[0], fs[1], k_))
    ctx.covered('R11.11', 'Pal Kepler solver: loop body step satisfies J step = -f for the Jacobian of its own residuals (symbolic)', n, floor=2)


def run(ctx):
    from . import protocol
    protocol.rule_running_com(ctx, 'R11.15')             # Jacobi read-back accumulates the centre of mass
    from . import edges
    edges.rule_prototype_names(ctx, 'R11.13')        # Omega and omega arrive in the order the header promises
    from . import pyrules
    pyrules.rule_none_helpers(ctx, 'R11.14')         # arguments given as 0 are given
    pyrules.rule_thin_wrappers(ctx, 'R11.12')      # anomaly conversions of the Python front end are the C ones
    pyrules.rule_wrapper_state(ctx, 'R18.10')      # particles are built from the live C state, not from values remembered on the Python object
    rule_pal_newton(ctx)
    rule_mass_guard_agreement(ctx)
    rule_angle_range(ctx)
    rule_pericentre_time(ctx)
    rule_components(ctx)
    errs = rule_argument_classes(ctx)
    rule_error_codes(ctx, errs)
    rule_defaults(ctx)
    rule_shared_formulas(ctx)
    rule_idioms(ctx)
    ctx.not_decided.append('the numeric round trip elements -> particle -> elements; ranges of the returned angles other than the reduction performed by reb_mod2pi; threshold branches near circular/planar orbits; quadrant selection in acos2')
