"""IAS15 closing series and compensated summation (R01.5, R04.5)."""
import re

from ..core import AnalysisError, anchor
from .. import cfront
from ..cfront import walk, strip, callee_name, call_args, render, line_of, is_assign


def rule_closing_series(ctx, rule):
    tu = cfront.load_tu('integrator_ias15.c')
    fn = tu.func('reb_integrator_ias15_step')
    calls = [e for e in walk(cfront.body(fn)) if e.get('kind') == 'CallExpr' and callee_name(e) == 'add_cs']
    anchor(len(calls) >= 17, 'reb_integrator_ias15_step updates positions and velocities through add_cs (found %d)' % len(calls))
    pos, vel = {}, {}
    n = 0
    for c in calls:
        a = [render(x).replace(' ', '') for x in call_args(c)]
        tgt, cs, inc = a
        where = 'src/integrator_ias15.c:%s reb_integrator_ias15_step' % line_of(c)
        if 'x0[k]' in tgt:
            n += 1
            if 'csx[k]' not in cs:
                ctx.report(rule, 'ias15:pos:cs:%s' % inc[:12], where, 'a position increment is compensated with %s, not with the position error accumulator csx' % cs)
            m = re.match(r'^\(*b\.p(\d)\[k\]/(\d+)\)\*dt_done\)\*dt_done\)$', inc)
            if m:
                pos['b%s' % m.group(1)] = (int(m.group(2)), line_of(c))
            elif re.match(r'^\(*a0\[k\]/2\)\*dt_done\)\*dt_done\)$', inc):
                pos['a0'] = (2, line_of(c))
            elif re.match(r'^\(v0\[k\]\*dt_done\)$', inc):
                pos['v0'] = (1, line_of(c))
            else:
                ctx.report(rule, 'ias15:pos:form:%s' % inc[:16], where, 'position increment %s is not of the form b_k/D*dt^2, a0/2*dt^2 or v0*dt' % inc)
        elif 'v0[k]' in tgt:
            n += 1
            if 'csv[k]' not in cs:
                ctx.report(rule, 'ias15:vel:cs:%s' % inc[:12], where, 'a velocity increment is compensated with %s, not with csv' % cs)
            m = re.match(r'^\(*b\.p(\d)\[k\]/(\d+)\)\*dt_done\)$', inc)
            if m:
                vel['b%s' % m.group(1)] = (int(m.group(2)), line_of(c))
            elif re.match(r'^\(a0\[k\]\*dt_done\)$', inc):
                vel['a0'] = (1, line_of(c))
            else:
                ctx.report(rule, 'ias15:vel:form:%s' % inc[:16], where, 'velocity increment %s is not of the form b_k/D*dt or a0*dt' % inc)
    for k in range(7):
        want_p, want_v = (k + 2) * (k + 3), k + 2
        for d, want, what in ((pos, want_p, 'position'), (vel, want_v, 'velocity')):
            got = d.get('b%d' % k)
            if got is None:
                ctx.report(rule, 'ias15:%s:b%d:missing' % (what, k), 'src/integrator_ias15.c reb_integrator_ias15_step', 'the %s update has no b_%d term' % (what, k))
            elif got[0] != want:
                ctx.report(rule, 'ias15:%s:b%d' % (what, k), 'src/integrator_ias15.c:%s reb_integrator_ias15_step' % got[1],
                           'the %s update divides b_%d by %d; the integral of the force polynomial requires %d' % (what, k, got[0], want))
    for d, keys, what in ((pos, ('a0', 'v0'), 'position'), (vel, ('a0',), 'velocity')):
        for key in keys:
            if key not in d:
                ctx.report(rule, 'ias15:%s:%s:missing' % (what, key), 'src/integrator_ias15.c reb_integrator_ias15_step', 'the %s update has no %s term' % (what, key))
    ctx.covered(rule, 'IAS15 closing update: position terms b_k/((k+2)(k+3)) dt^2 + a0/2 dt^2 + v0 dt, velocity terms b_k/(k+2) dt + a0 dt, matching compensation arrays', n, floor=17,
                samples=['position denominators %s' % sorted(v[0] for k, v in pos.items()), 'velocity denominators %s' % sorted(v[0] for k, v in vel.items())])


def rule_predictor(ctx, rule):
    """The predictor's Horner polynomials at sub-step s=h[n] expand to the same series as the closing update at s=1."""
    import sympy as sp
    tu = cfront.load_tu('integrator_ias15.c')
    fn = tu.func('reb_integrator_ias15_step')
    from . import x1
    n = 0
    samples = []
    s = sp.Symbol('s')
    dt = sp.Symbol('dt')
    bsym = [sp.Symbol('b%d' % k) for k in range(7)]
    a0, v0, x0 = sp.symbols('a0 v0 x0')
    want_x = sum(bsym[k] * s ** (k + 3) * dt ** 2 / ((k + 2) * (k + 3)) for k in range(7)) + a0 * s ** 2 * dt ** 2 / 2 + v0 * s * dt
    want_v = sum(bsym[k] * s ** (k + 2) * dt / (k + 2) for k in range(7)) + a0 * s * dt
    found = {'x': 0, 'v': 0}
    for d in walk(cfront.body(fn)):
        if not (is_assign(d) and d['opcode'] == '='):
            continue
        nm = render(d['inner'][0])
        if not re.match(r'^[xv]k\d?$', nm):
            continue
        t = cfront.toks(d['inner'][1])
        txt = render(t)
        if 'b.p6' not in txt:
            continue
        syms = {}
        try:
            e = x1.to_sympy(t, syms)
        except ValueError:
            continue
        # map symbols
        sub = {}
        for k, v in syms.items():
            kk = k.replace(' ', '')
            m = re.match(r'^b\.p(\d)\[.*\]$', kk)
            if m:
                sub[v] = bsym[int(m.group(1))]
            elif re.match(r'^h\[n\]$', kk):
                sub[v] = s
            elif re.match(r'^a0\[.*\]$', kk):
                sub[v] = a0
            elif re.match(r'^v0\[.*\]$', kk):
                sub[v] = v0
            elif kk in ('r.dt', 'dt'):
                sub[v] = dt
            elif re.match(r'^cs[xv]\[.*\]$', kk):
                sub[v] = 0
            elif re.match(r'^x0\[.*\]$', kk):
                sub[v] = 0
        e = e.subs(sub)
        kind = 'x' if nm.startswith('x') else 'v'
        want = want_x if kind == 'x' else want_v
        res = sp.expand(e - want)
        n += 1
        found[kind] += 1
        if res != 0:
            ctx.report(rule, 'ias15:predictor:%s' % nm, 'src/integrator_ias15.c:%s reb_integrator_ias15_step' % line_of(d),
                       'the predictor polynomial for %s does not expand to the integral of the force series (sum b_k s^(k+%d) dt^%d/... ): residual %s'
                       % (nm, 3 if kind == 'x' else 2, 2 if kind == 'x' else 1, str(res)[:140]))
        elif len(samples) < 2:
            samples.append('src/integrator_ias15.c:%s %s: Horner form == series' % (line_of(d), nm))
    anchor(found['x'] >= 1 and found['v'] >= 1, 'IAS15 predictor Horner polynomials for positions and velocities (found %s)' % found)
    ctx.covered(rule + 'p', 'IAS15 predictor polynomials (Horner form at s=h[n]) expand to the series whose value at s=1 is the closing update', n, floor=2, samples=samples)


def rule_kahan(ctx, rule):
    tu = cfront.load_tu('integrator_ias15.c')
    fn = tu.func('add_cs')
    stm = []
    for st in cfront.body(fn).get('inner', []):
        if st.get('kind') == 'DeclStmt':
            for d in st['inner']:
                init = [c for c in d.get('inner', []) if c.get('kind') not in ('FullComment',)]
                stm.append('%s=%s' % (d['name'], render(init[-1]).replace(' ', '')))
        else:
            s = strip(st)
            if is_assign(s):
                stm.append('%s%s%s' % (render(s['inner'][0]).replace(' ', ''), s['opcode'], render(s['inner'][1]).replace(' ', '')))
    want = ['y=(inp-(*csp))', 't=((*p)+y)', '(*csp)=((t-(*p))-y)', '(*p)=t']
    if stm != want:
        ctx.report(rule, 'ias15:add_cs', 'src/integrator_ias15.c add_cs', 'compensated summation is not y=inp-cs; t=p+y; cs=(t-p)-y; p=t (found %s): the rounding error of the position/velocity update is no longer carried' % stm)
    ctx.covered(rule, 'Kahan compensated addition keeps its four-statement form', 4, floor=4, samples=[' ; '.join(stm)])
