"""Shared rules over the binary field descriptor table and the (de)serialiser (C05, C06, C07, C17)."""
import re

from ..core import AnalysisError, anchor
from .. import cfront, layout
from ..cfront import strip, walk, callee_name, call_args, qtype, toks, render, is_assign, line_of

BY_VALUE = ('REB_VEC3D', 'REB_PARTICLE', 'REB_PARTICLE4', 'REB_DP7')
SKIP = ('REB_OTHER', 'REB_FIELD_END', 'REB_FIELD_NOT_FOUND')

# spelling aliases between descriptor name and member path (name -> member path), each with its reason
ROW_NAME_ALIAS = {
    'ri_whfast.timestep_warnning': ('ri_whfast.timestep_warning', 'historic typo in the persisted name; names are part of the format'),
    'ri_whfast512.pjh': ('ri_whfast512.p_jh', 'persisted name without underscore'),
    'ri_whfast512.pjh0': ('ri_whfast512.p_jh0', 'persisted name without underscore'),
}

# Members of struct reb_simulation that are deliberately not persisted: path prefix -> (class, reason).
# An unlisted, unpersisted member is a violation naming the member (the list *is* the clause).
NOT_PERSISTED = {
    # derived after load
    'N_allocated': ('derived', 'set to N in the finish_fields tail of reb_input_fields'),
    'particle_lookup_table': ('derived', 'hash lookup table, rebuilt lazily when N_lookup is stale'),
    'N_lookup': ('derived', 'lookup table size; 0 after load forces a rebuild'),
    'N_allocated_lookup': ('derived', 'allocation counter of the lookup table'),
    'tree_root': ('derived', 'tree rebuilt in the finish_fields tail of reb_input_fields'),
    'tree_needs_update': ('derived', 'tree rebuilt from scratch after load'),
    'ri_whfast512.recalculate_constants': ('derived', 'set to 1 in the finish_fields tail of reb_input_fields'),
    # scratch buffers, (re)allocated and fully rewritten inside every step that reads them
    'gravity_cs': ('scratch', 'compensated-summation scratch, zeroed at the start of every force evaluation'),
    'N_allocated_gravity_cs': ('scratch', 'allocation counter of gravity_cs'),
    'collisions': ('scratch', 'collision list of the current step (collisions_N reset each search)'),
    'N_allocated_collisions': ('scratch', 'allocation counter of collisions'),
    'ri_whfast.p_temp': ('scratch', 'kernel scratch particles'),
    'ri_whfast.N_allocated_tmp': ('scratch', 'allocation counter of p_temp'),
    'ri_ias15.map': ('scratch', 'index map rebuilt at the start of every IAS15 step'),
    'ri_ias15.N_allocated_map': ('scratch', 'allocation counter of map'),
    'ri_mercurius.N_allocated': ('scratch', 'allocation counter of the per-step backup arrays'),
    'ri_mercurius.N_allocated_additional_forces': ('scratch', 'allocation counter'),
    'ri_mercurius.particles_backup': ('scratch', 'only used within one timestep (source comment)'),
    'ri_mercurius.particles_backup_additional_forces': ('scratch', 'only used within one timestep'),
    'ri_mercurius.encounter_map': ('scratch', 'rebuilt by the encounter prediction of every step'),
    'ri_trace.N_allocated': ('scratch', 'allocation counter'),
    'ri_trace.N_allocated_additional_forces': ('scratch', 'allocation counter'),
    'ri_trace.particles_backup': ('scratch', 'only used within one timestep'),
    'ri_trace.particles_backup_kepler': ('scratch', 'only used within one timestep'),
    'ri_trace.particles_backup_additional_forces': ('scratch', 'only used within one timestep'),
    'ri_trace.encounter_map': ('scratch', 'rebuilt every step'),
    'ri_trace.current_Ks': ('scratch', 'switching matrix recomputed every step'),
    'ri_bs.sequence': ('scratch', 'constant tables rebuilt by allocate_sequence_arrays'),
    'ri_bs.cost_per_step': ('scratch', 'constant tables rebuilt by allocate_sequence_arrays'),
    'ri_bs.cost_per_time_unit': ('scratch', 'per-step work array'),
    'ri_bs.optimal_step': ('scratch', 'per-step work array'),
    'ri_bs.coeff': ('scratch', 'constant tables rebuilt by allocate_sequence_arrays'),
    # rewritten at the start of every step before being read
    'ri_mercurius.mode': ('step-transient', 'set to 0 at the start of part1 / by the encounter step'),
    'ri_mercurius.encounter_N': ('step-transient', 'recomputed by the encounter prediction of every step'),
    'ri_mercurius.encounter_N_active': ('step-transient', 'recomputed every step'),
    'ri_mercurius.tponly_encounter': ('step-transient', 'recomputed every step'),
    'ri_trace.mode': ('step-transient', 'set at the start of every step'),
    'ri_trace.encounter_N': ('step-transient', 'recomputed every step'),
    'ri_trace.encounter_N_active': ('step-transient', 'recomputed every step'),
    'ri_trace.tponly_encounter': ('step-transient', 'recomputed every step'),
    'ri_trace.com_pos': ('step-transient', 'TRACE always converts from inertial coordinates at the start of a step'),
    'ri_trace.com_vel': ('step-transient', 'TRACE always converts from inertial coordinates at the start of a step'),
    'ri_trace.current_C': ('step-transient', 'pericentre flag recomputed every step'),
    'ri_trace.force_accept': ('step-transient', 'reset every step'),
    # inert for the trajectory
    'var_rescale_warning': ('inert', 'warning latch (row 163 retired on purpose, see comment in output.c)'),
    'messages': ('inert', 'pending messages for the Python layer'),
    'display_data': ('inert', 'visualisation'),
    'server_data': ('inert', 'web server handle'),
    'walltime_last_step': ('wallclock', 'wall-clock timing'),
    'walltime_last_steps_sum': ('wallclock', 'wall-clock timing'),
    'walltime_last_steps_N': ('wallclock', 'wall-clock timing'),
    'ri_whfast.recalculate_coordinates_but_not_synchronized_warning': ('inert', 'warning latch'),
    'ode_warnings': ('inert', 'warning latch'),
    # must be re-attached by the user like callbacks
    'simulationarchive_filename': ('reattach', 'set by the call that opens or continues an archive'),
    'odes': ('reattach', 'user ODEs are re-created by the user like callbacks'),
    'N_odes': ('reattach', 'user ODEs'),
    'N_allocated_odes': ('reattach', 'user ODEs'),
    'ri_bs.nbody_ode': ('reattach', 'created on demand by the first BS step'),
    'ri_bs.user_ode_needs_nbody': ('reattach', 'recomputed from the attached ODEs at the first BS step'),
    'ri_bs.dt_proposed': ('step-transient', 'BS writes r->dt from it at the end of each step; r->dt is persisted'),
    'extras': ('reattach', 'REBOUNDx handle'),
}


def rows_and_leaves():
    recs = layout.record_layouts()
    rows = layout.descriptor_rows()
    dt = layout.dtype_enum()
    inv = {v: k for k, v in dt.items()}
    sim = recs['reb_simulation']
    return recs, rows, dt, inv, sim


def row_member(sim, inv, r):
    """(path, Member) the row's offset designates: the outermost for by-value structs, else the innermost."""
    hits = sim.member_at(r.offset)
    if not hits:
        return None
    if inv.get(r.dtype) in BY_VALUE:
        # outermost member starting here whose type is a struct (vec3d, dp7, particle array)
        for p, m in hits:
            if m.children or 'struct' in m.ctype:
                return p, m
    return hits[-1]


def rule_R05_1(ctx):
    recs, rows, dt, inv, sim = rows_and_leaves()
    leaves = sim.leaves()
    covered_by = {}
    data_rows = [r for r in rows if inv.get(r.dtype) not in SKIP]
    spans = []
    for r in data_rows:
        pm = row_member(sim, inv, r)
        if pm is None:
            continue
        p, m = pm
        spans.append((m.offset, m.offset + m.size, r))
    offN = {r.offset_N for r in data_rows if r.offset_N}
    n = 0
    samples = []
    used_exceptions = set()
    for p, m in leaves:
        n += 1
        row = None
        for a, b, r in spans:
            if a <= m.offset < b:
                row = r
                break
        if row is not None:
            if len(samples) < 4:
                samples.append('%s persisted by row %d "%s"' % (p, row.type, row.name))
            continue
        if m.offset in offN:
            continue
        if '(*)' in m.ctype:
            continue  # function pointers are re-attached by the user (documented); a warning flag is persisted instead
        hit = None
        for pref in NOT_PERSISTED:
            if p == pref or p.startswith(pref + '.'):
                hit = pref
                break
        if hit:
            used_exceptions.add(hit)
            continue
        ctx.report('R05.1', 'reb_simulation.' + p, 'src/rebound.h struct reb_simulation member %s (offset %d)' % (p, m.offset),
                   'member %s (%s) is neither persisted by a row of reb_binary_field_descriptor_list nor classified as '
                   'derived/scratch/step-transient/inert: its value is lost by save+restore' % (p, m.ctype))
    stale = sorted(set(NOT_PERSISTED) - used_exceptions)
    for s in stale:
        # an exception that no longer matches an unpersisted member: either now persisted (fine) or renamed (scope changed)
        found = any(p == s or p.startswith(s + '.') for p, _ in leaves)
        if not found:
            raise AnalysisError('R05.1: classified member %s no longer exists in struct reb_simulation - classification table is stale' % s)
    ctx.covered('R05.1', 'leaf members of struct reb_simulation: persisted by a row / a row counter / function pointer / classified (%d frozen classifications)' % len(NOT_PERSISTED),
                n, floor=250, samples=samples)


C_DTYPE = {
    'REB_DOUBLE': lambda t: t == 'double',
    'REB_INT': lambda t: t == 'int' or t.startswith('enum'),
    'REB_UINT': lambda t: t in ('unsigned int', 'uint32_t') or t.startswith('enum'),
    'REB_UINT32': lambda t: t in ('uint32_t', 'unsigned int'),
    'REB_INT64': lambda t: t in ('int64_t', 'long', 'long long'),
    'REB_UINT64': lambda t: t in ('uint64_t', 'unsigned long', 'unsigned long long', 'size_t'),
    'REB_VEC3D': lambda t: t == 'struct reb_vec3d',
    'REB_PARTICLE': lambda t: t == 'struct reb_particle',
    'REB_PARTICLE4': lambda t: t == 'struct reb_particle[4]',
    'REB_DP7': lambda t: t == 'struct reb_dp7',
}


def rule_R05_2(ctx):
    recs, rows, dt, inv, sim = rows_and_leaves()
    anchor(inv.get(rows[-1].dtype) == 'REB_FIELD_END', 'descriptor table ends with REB_FIELD_END')
    n = 0
    seen_type, seen_name, seen_off = {}, {}, {}
    samples = []
    for r in rows:
        n += 1
        key = 'row%d' % r.type
        w = 'src/output.c reb_binary_field_descriptor_list row {%d,%s,"%s"}' % (r.type, inv.get(r.dtype, r.dtype), r.name)
        if r.type in seen_type:
            ctx.report('R05.2', key + '.dup', w, 'field id %d used twice ("%s" and "%s")' % (r.type, seen_type[r.type], r.name))
        seen_type[r.type] = r.name
        if r.name in seen_name:
            ctx.report('R05.2', key + '.dupname', w, 'field name "%s" used twice' % r.name)
        seen_name[r.name] = r.type
        if r.dtype not in inv:
            ctx.report('R05.2', key + '.dtype', w, 'dtype %d is not an enumerator' % r.dtype)
            continue
        d = inv[r.dtype]
        if d in SKIP:
            if inv[r.dtype] == 'REB_FIELD_END' and r is not rows[-1]:
                ctx.report('R05.2', key + '.end', w, 'REB_FIELD_END row is not last: rows after it are never written or read')
            continue
        pm = row_member(sim, inv, r)
        if pm is None:
            ctx.report('R05.2', key + '.offset', w, 'offset %d is not the start of any member of struct reb_simulation' % r.offset)
            continue
        p, m = pm
        if r.offset in seen_off:
            ctx.report('R05.2', key + '.dupoff', w, 'rows %d and %d both designate offset %d (%s)' % (seen_off[r.offset], r.type, r.offset, p))
        seen_off[r.offset] = r.type
        # name <-> member path
        want = ROW_NAME_ALIAS.get(r.name, (r.name,))[0]
        if want != p:
            ctx.report('R05.2', key + '.name', w, 'row is named "%s" but its offset %d designates member %s' % (r.name, r.offset, p))
        ct = re.sub(r'\b(const|__restrict|restrict)\b', '', m.ctype)
        ct = re.sub(r'\s+', ' ', ct).strip()
        if d in C_DTYPE:
            if not C_DTYPE[d](ct):
                ctx.report('R05.2', key + '.ctype', w, 'dtype %s does not match C type "%s" of member %s' % (d, m.ctype, p))
            if r.offset_N or r.element_size:
                if d != 'REB_DP7':
                    ctx.report('R05.2', key + '.extra', w, 'scalar row carries offset_N/element_size')
        if d in ('REB_POINTER', 'REB_POINTER_ALIGNED', 'REB_POINTER_FIXED_SIZE', 'REB_DP7'):
            if d != 'REB_DP7' and not ct.endswith('*'):
                ctx.report('R05.2', key + '.ctype', w, 'dtype %s but member %s has type "%s"' % (d, p, m.ctype))
            # element size == sizeof(pointee)
            if d == 'REB_DP7':
                want_es = 7 * 8
            else:
                pointee = ct[:-1].strip()
                want_es = layout.type_size(pointee, recs)
            if want_es is None:
                raise AnalysisError('R05.2: cannot size pointee of %s (%s)' % (p, m.ctype))
            if r.element_size != want_es:
                ctx.report('R05.2', key + '.esize', w, 'element_size %d but sizeof(*%s) is %d' % (r.element_size, p, want_es))
            if d != 'REB_POINTER_FIXED_SIZE':
                hn = sim.member_at(r.offset_N)
                if not hn or r.offset_N == 0:
                    ctx.report('R05.2', key + '.offN', w, 'offset_N %d designates no member' % r.offset_N)
                else:
                    pn, mn = hn[-1]
                    if mn.size != 4 or layout.ckind(mn.ctype) not in ('i32', 'u32'):
                        ctx.report('R05.2', key + '.offN', w, 'counter %s is not a 4-byte integer (%s)' % (pn, mn.ctype))
                    else:
                        # the counter must belong to the same sub-structure and be a count/allocation of this buffer
                        if pn.rsplit('.', 1)[0] != p.rsplit('.', 1)[0] and '.' in p:
                            ctx.report('R05.2', key + '.offN', w, 'counter %s lives in a different sub-structure than buffer %s' % (pn, p))
                        if len(samples) < 5:
                            samples.append('row %d "%s": buffer %s, counter %s, element %d bytes' % (r.type, r.name, p, pn, r.element_size))
    ctx.covered('R05.2', 'descriptor rows (folded from LLVM IR) vs member designated by offset: unique id/name/offset, name==path, dtype<->C type, element_size==sizeof(pointee), counter member',
                n, floor=140, samples=samples)
    return rows


def counter_map():
    """R05.2b data: buffer path -> counter path for pointer rows."""
    recs, rows, dt, inv, sim = rows_and_leaves()
    out = {}
    for r in rows:
        if inv.get(r.dtype) in ('REB_POINTER', 'REB_POINTER_ALIGNED', 'REB_DP7'):
            pm = row_member(sim, inv, r)
            hn = sim.member_at(r.offset_N)
            if pm and hn:
                out[pm[0]] = hn[-1][0]
    return out


# ---------------------------------------------------------------- R05.3 dtype sets of writer / reader / differ
def dtypes_tested(fn, dt):
    """Set of REB_* dtype enumerators a function compares a dtype against (== or case)."""
    out = set()
    for n in walk(fn):
        if n.get('kind') == 'DeclRefExpr' and n.get('referencedDecl', {}).get('kind') == 'EnumConstantDecl':
            nm = n['referencedDecl']['name']
            if nm in dt:
                out.add(nm)
    return out


def rule_R05_3(ctx):
    recs, rows, dt, inv, sim = rows_and_leaves()
    used = {inv[r.dtype] for r in rows if inv.get(r.dtype) not in SKIP}
    tus = cfront.load_tus(['output.c', 'input.c', 'binarydiff.c'])
    sites = [('output.c', 'reb_simulation_save_to_stream', 'writer'),
             ('input.c', 'reb_input_fields', 'reader')]
    n = 0
    sets = {}
    for cfile, fname, role in sites:
        fn = tus[cfile].family(fname)
        s = dtypes_tested(fn, dt)
        sets[role] = s
        for d in sorted(used):
            n += 1
            if d not in s:
                ctx.report('R05.3', '%s:%s' % (fname, d), 'src/%s %s' % (cfile, fname),
                           'dtype %s occurs in the descriptor table but the %s never tests for it: rows of that type are silently %s'
                           % (d, role, 'not written' if role == 'writer' else 'not read (skipped as unknown)'))
    for d in sorted((sets['writer'] | sets['reader']) - set(SKIP)):
        if (d in sets['writer']) != (d in sets['reader']):
            n += 1
            ctx.report('R05.3', 'asym:' + d, 'src/output.c / src/input.c',
                       'dtype %s is handled by the %s but not by the %s' % (d, 'writer' if d in sets['writer'] else 'reader',
                                                                          'reader' if d in sets['writer'] else 'writer'))
    ctx.covered('R05.3', 'dtypes occurring in the table vs dtypes tested by writer and reader', n, floor=20,
                samples=['table uses %s' % sorted(used)])


# ---------------------------------------------------------------- "tree in use" predicate agreement (C05, C15, C17)
def rule_tree_predicate(ctx, rule):
    """Every place that decides whether the particle tree is in use must test the same set of modules:
    a disjunction that mentions REB_GRAVITY_TREE together with a collision module is such a place."""
    tus = cfront.load_tus(['input.c', 'particle.c', 'rebound.c', 'tools.c', 'tree.c', 'collision.c', 'boundary.c'])
    sites = []
    for cfile, tu in tus.items():
        for fname, fn in tu.funcs.items():
            if cfront.basename(fn.get('_locfile') or fn.get('_file')) != cfile:
                continue
            chained = set()

            def cond_atoms(cond):
                out = set()
                for x in walk(cond):
                    if x.get('kind') == 'BinaryOperator' and x.get('opcode') == '==':
                        a, b = render(x['inner'][0]), render(x['inner'][1])
                        if b.startswith('REB_GRAVITY_') or b.startswith('REB_COLLISION_'):
                            out.add('%s==%s' % (a, b))
                if not out:
                    # the complement, "no module uses the tree": a conjunction of != tests names the same set of modules
                    neg = set()
                    ok = True

                    def conj(x):
                        nonlocal ok
                        x = strip(x, casts=True)
                        if x.get('kind') == 'BinaryOperator' and x.get('opcode') == '&&':
                            conj(x['inner'][0]); conj(x['inner'][1])
                        elif x.get('kind') == 'BinaryOperator' and x.get('opcode') == '!=':
                            a, b = render(x['inner'][0]), render(x['inner'][1])
                            if b.startswith('REB_GRAVITY_') or b.startswith('REB_COLLISION_'):
                                neg.add('%s==%s' % (a, b))
                            else:
                                ok = False
                        else:
                            ok = False
                    conj(cond)
                    if ok and neg:
                        out = neg
                return out

            def callees(node):
                """what a branch does: its calls and assignments, rendered (two branches doing the same thing are one action)"""
                out = sorted({callee_name(x) for x in walk(node) if x.get('kind') == 'CallExpr' and callee_name(x)})
                out += sorted({render(x) for x in walk(node) if cfront.is_assign(x)})
                return out
            for n in walk(cfront.body(fn)):
                if n.get('kind') != 'IfStmt' or id(n) in chained:
                    continue
                atoms = cond_atoms(n['inner'][0])
                # `if (A) f(); else if (B) f(); else if (C) f();` is the disjunction A || B || C guarding f()
                cur = n
                while len(cur['inner']) > 2 and cur['inner'][2].get('kind') == 'IfStmt' and callees(cur['inner'][2]['inner'][1]) == callees(n['inner'][1]) and callees(n['inner'][1]):
                    cur = cur['inner'][2]
                    chained.add(id(cur))
                    atoms |= cond_atoms(cur['inner'][0])
                if 'r.gravity==REB_GRAVITY_TREE' in atoms and any('COLLISION' in a for a in atoms):
                    sites.append((cfile, fname, cfront.line_of(n), frozenset(atoms)))
            # the predicate named by a flag local (const int uses_tree = gravity==TREE || collision==TREE || ...)
            for d in walk(cfront.body(fn)):
                if d.get('kind') == 'VarDecl' and 'init' in d:
                    init = [c for c in d.get('inner', []) if c.get('kind') not in ('FullComment',)]
                    if init:
                        atoms = cond_atoms(init[-1])
                        if 'r.gravity==REB_GRAVITY_TREE' in atoms and any('COLLISION' in a for a in atoms):
                            sites.append((cfile, fname, cfront.line_of(d), frozenset(atoms)))
    anchor(len(sites) >= 4, 'at least four "tree in use" predicates')
    counts = {}
    for s in sites:
        counts[s[3]] = counts.get(s[3], 0) + 1
    ref = max(counts, key=lambda k: counts[k])
    for cfile, fname, line, atoms in sites:
        if atoms != ref:
            ctx.report(rule, 'tree-in-use:%s' % fname, 'src/%s:%s %s' % (cfile, line, fname),
                       'this "tree in use" test checks %s while the other %d sites check %s: a module that needs the tree is forgotten here (missing: %s)'
                       % (sorted(atoms), counts[ref], sorted(ref), sorted(ref - atoms)))
    ctx.covered(rule, 'sites deciding whether the particle tree is in use test the same set of gravity/collision modules', len(sites), floor=4,
                samples=['src/%s:%s %s %s' % (c, l, f, sorted(a)) for c, f, l, a in sites[:3]])


def _const_size(e, recs):
    """Value of a size expression made of sizeof(type), integer literals, * and +."""
    e = strip(e, casts=True)
    k = e.get('kind')
    if k == 'IntegerLiteral':
        return int(e['value'])
    if k == 'UnaryExprOrTypeTraitExpr' and e.get('name') == 'sizeof':
        t = (e.get('argType') or {}).get('qualType')
        if t is None and e.get('inner'):
            t = qtype(strip(e['inner'][0]))
        v = layout.type_size(t, recs) if t else None
        if v is None:
            raise AnalysisError('cannot size %s' % t)
        return v
    if k == 'BinaryOperator' and e['opcode'] in ('*', '+'):
        a, b = _const_size(e['inner'][0], recs), _const_size(e['inner'][1], recs)
        return a * b if e['opcode'] == '*' else a + b
    raise AnalysisError('size expression %s is not a constant the rule can fold' % render(e))


def rule_size_switch(ctx, rule='R05.8'):
    """The writer takes the byte count of a by-value row from a switch over the row's dtype; the reader trusts the
    recorded size. The count of each case must be the size of the members the rows of that dtype designate (otherwise
    the value is truncated or neighbouring members are written into the stream and read back over the member)."""
    recs, rows, dt, inv, sim = rows_and_leaves()
    tu = cfront.load_tu('output.c')
    by_dtype = {}
    for r in rows:
        d = inv.get(r.dtype)
        if d in SKIP or d is None:
            continue
        pm = row_member(sim, inv, r)
        if pm is None:
            continue
        by_dtype.setdefault(d, []).append((r, pm[0], pm[1]))
    n = 0
    samples = []
    found = 0
    # the switch may sit in the serialiser itself or in a file-local function that returns the byte count
    switches = []
    for fname_, f_ in tu.funcs.items():
        if cfront.basename(f_.get('_locfile') or f_.get('_file')) != 'output.c':
            continue
        for sw in walk(cfront.body(f_)):
            if sw.get('kind') == 'SwitchStmt':
                switches.append((fname_, sw))
    for fname_, sw in switches:
        cases = []
        cur = None
        body_ = sw['inner'][-1]
        for st in body_.get('inner', []):
            node = st
            while node.get('kind') in ('CaseStmt', 'DefaultStmt'):
                if node.get('kind') == 'CaseStmt':
                    lab = [x['referencedDecl']['name'] for x in walk(node['inner'][0]) if x.get('kind') == 'DeclRefExpr' and x['referencedDecl'].get('kind') == 'EnumConstantDecl']
                    cur = lab[0] if lab else None
                node = node['inner'][-1]
            s = strip(node)
            if is_assign(s) and render(s['inner'][0]).endswith('.size') and cur:
                cases.append((cur, s, s['inner'][1]))
            elif node.get('kind') == 'ReturnStmt' and node.get('inner') and cur and 'sizeof' in render(node['inner'][0]):
                cases.append((cur, node, node['inner'][0]))
        if not cases or not all(c.startswith('REB_') and c in dt for c, _, _ in cases):
            continue
        found += 1
        for lab, s, valnode in cases:
            size = _const_size(valnode, recs)
            members = by_dtype.get(lab, [])
            n += 1
            where = 'src/output.c:%s %s' % (line_of(s), fname_)
            bad = [(r, p, m) for r, p, m in members if m.size != size]
            if bad:
                r, p, m = bad[0]
                ctx.report(rule, 'size:' + lab, where, 'case %s gives %s = %d bytes, but the %d rows of that dtype designate members of %d bytes (e.g. row %d "%s": %s %s) - %s'
                           % (lab, render(valnode), size, len(members), m.size, r.type, r.name, m.ctype, p,
                              'the value is truncated in the stream' if size < m.size else 'bytes of the following members are written and read back'))
            elif len(samples) < 5:
                samples.append('%s case %s: %d bytes = size of all %d members of that dtype' % (where, lab, size, len(members)))
    anchor(found >= 1, 'switch over the row dtype giving the byte count of a by-value field in output.c')
    ctx.covered(rule, 'byte counts of the writer\'s dtype switch equal the size of the members designated by the rows of that dtype', n, floor=9, samples=samples)


def rule_inert_members(ctx, rule='R05.9'):
    """R05.9: members classified `inert` above are not persisted because they cannot influence the trajectory. That is a
    claim about the code: a condition reading such a member may only guard message/display calls and writes to inert
    members - no return, break, continue or write to other simulation state - otherwise a restored simulation (latch
    cleared) takes a different path than the running one."""
    import glob, os
    from .. import core
    inert = {k for k, v in NOT_PERSISTED.items() if v[0] == 'inert'}
    n = 0
    samples = []
    for path in sorted(glob.glob(os.path.join(core.REPO, 'src', '*.c'))):
        cfile = os.path.basename(path)
        if cfile in ('display.c', 'server.c', 'output.c', 'input.c'):
            continue        # the front ends that own these members
        try:
            tu = cfront.load_tu(cfile)
        except Exception:
            continue
        for fname in sorted(tu.funcs):
            fn = tu.func(fname)
            if cfront.body(fn) is None:
                continue
            for ifs in walk(cfront.body(fn)):
                if ifs.get('kind') != 'IfStmt':
                    continue
                reads = set()
                from . import c04 as _c04
                for m in walk(ifs['inner'][0]):
                    # latches only: integer members; the pointer-valued ones are handles owned by the message/display/server code
                    if m.get('kind') == 'MemberExpr' and m.get('name') in inert and 'reb_simulation' in qtype(strip(m['inner'][0])) and '*' not in qtype(m):
                        reads.add(m['name'])
                    elif m.get('kind') == 'MemberExpr' and '*' not in qtype(m):
                        # latches that live in a member struct (ri_whfast.<latch>), reached through r-> or through a pointer to that struct
                        ap = _c04._access_path(m)
                        if ap and ap.startswith('r.') and ap[2:] in inert:
                            reads.add(ap[2:])
                if not reads:
                    continue
                n += 1
                where = 'src/%s:%s %s' % (cfile, line_of(ifs), fname)
                for br in ifs['inner'][1:]:
                    if not br.get('kind'):
                        continue
                    for x in walk(br):
                        k = x.get('kind')
                        bad = None
                        if k in ('ReturnStmt', 'BreakStmt', 'ContinueStmt', 'GotoStmt'):
                            bad = k.replace('Stmt', '').lower()
                            # `if (latch) return;` at the top of a void helper whose remaining statements only warn and set the
                            # latch is the same guard written as an early exit
                            if k == 'ReturnStmt' and not x.get('inner') and 'void' in qtype(fn).split('(')[0]:
                                top = cfront.body(fn).get('inner', [])
                                if ifs in top:
                                    rest = top[top.index(ifs) + 1:]
                                    inert_only = True
                                    for st_ in rest:
                                        for y in walk(st_):
                                            if is_assign(y):
                                                lv_ = strip(y['inner'][0])
                                                if not (lv_.get('kind') == 'MemberExpr' and lv_.get('name') in inert):
                                                    inert_only = False
                                            if y.get('kind') == 'CallExpr' and callee_name(y) not in ('reb_simulation_warning', 'reb_simulation_error', 'reb_message', 'printf', 'fprintf'):
                                                inert_only = False
                                            if y.get('kind') in ('ReturnStmt',) and y.get('inner'):
                                                inert_only = False
                                    if inert_only:
                                        bad = None
                        elif is_assign(x):
                            lv = strip(x['inner'][0])
                            tgt = lv.get('name') if lv.get('kind') == 'MemberExpr' else None
                            if lv.get('kind') == 'MemberExpr' and tgt not in inert and 'reb_simulation' in qtype(strip(lv['inner'][0])):
                                bad = 'write to r->%s' % tgt
                            elif lv.get('kind') == 'MemberExpr':
                                ap_ = _c04._access_path(lv)
                                if ap_ and ap_.startswith('r.') and ap_[2:] not in inert and not any(ap_[2:] == k_ or ap_[2:].startswith(k_ + '.') for k_ in inert):
                                    bad = 'write to r->%s' % ap_[2:]
                        elif k == 'CallExpr' and callee_name(x) and callee_name(x).startswith('reb_') and callee_name(x) not in ('reb_simulation_warning', 'reb_simulation_error', 'reb_message') \
                                and any(render(a_).strip() == 'r' for a_ in call_args(x)):
                            bad = 'call of %s(r, ...)' % callee_name(x)
                        if bad:
                            ctx.report(rule, '%s:%s:%s' % (fname, sorted(reads)[0], bad.split(' ')[0]), where,
                                       'the test of r->%s (not persisted: %s) guards a %s: the running simulation and one restored from a snapshot, where the member starts out cleared, take different paths'
                                       % (sorted(reads)[0], NOT_PERSISTED[sorted(reads)[0]][1], bad))
                            break
                samples.append(where)
    ctx.covered(rule, 'conditions on members classified inert (%s) guard nothing but messages and inert writes' % ', '.join(sorted(inert)), n, floor=2, samples=samples[:6])


def rule_scratch_reset(ctx, rule='R05.10'):
    """R05.10: buffers classified `scratch` above are not persisted on the ground that every evaluation rewrites them before
    reading them. For the compensated-summation buffer that is a claim about gravity.c: in every function that reads
    elements of r->gravity_cs (directly or through a local alias), each member read is first assigned a constant for the
    same element range, earlier in the same function. Otherwise the result of a force evaluation depends on the previous
    one (and a restored simulation, whose buffer starts empty, differs in the last bits)."""
    tu = cfront.load_tu('gravity.c')
    n = 0
    for fname in sorted(tu.funcs):
        fn = tu.func(fname)
        body = cfront.body(fn)
        if body is None:
            continue
        aliases = set()
        for d in walk(body):
            if d.get('kind') == 'VarDecl' and 'init' in d:
                init = [c for c in d.get('inner', []) if c.get('kind') not in ('FullComment',)]
                if init and render(init[-1]).replace(' ', '').strip('()') == 'r.gravity_cs':
                    aliases.add(d['name'])
        if not aliases and 'gravity_cs' not in ' '.join(render(x) for x in walk(body) if x.get('kind') == 'MemberExpr' and x.get('name') == 'gravity_cs'):
            continue

        def elem_member(e):
            e = strip(e, casts=True)
            if e.get('kind') == 'MemberExpr':
                b = strip(e['inner'][0], casts=True)
                if b.get('kind') == 'ArraySubscriptExpr':
                    base = render(strip(b['inner'][0], casts=True)).replace(' ', '').strip('()')
                    if base in aliases or base == 'r.gravity_cs':
                        return e['name']
            return None
        resets = {}      # member -> first line of `X[..].member = constant`
        reads = {}       # member -> first line read
        for e in walk(body):
            if is_assign(e) and e['opcode'] == '=':
                m = elem_member(e['inner'][0])
                if m and strip(e['inner'][1], casts=True).get('kind') in ('FloatingLiteral', 'IntegerLiteral'):
                    resets.setdefault(m, line_of(e))
        lhs_ids = {id(strip(e['inner'][0], casts=True)) for e in walk(body) if is_assign(e) and e['opcode'] == '='}
        for e in walk(body):
            if e.get('kind') == 'MemberExpr' and id(e) not in lhs_ids:
                m = elem_member(e)
                if m:
                    reads.setdefault(m, line_of(e))
        for m, ln in sorted(reads.items()):
            n += 1
            if m not in resets or resets[m] > ln:
                ctx.report(rule, '%s:gravity_cs:%s' % (fname, m), 'src/gravity.c:%s %s' % (ln, fname),
                           'the compensation term .%s of r->gravity_cs is read here, but no assignment of a constant to it precedes the read in this function: the buffer is classified as scratch (not persisted) because every force evaluation starts from zero' % m)
    ctx.covered(rule, 'compensated-summation scratch buffer: every member read is reset earlier in the same function', n, floor=3)


def rule_scratch_conditions(ctx, rule='R05.11'):
    """R05.11: members classified `scratch` (work buffers and their allocation counters) are not persisted. A restored
    simulation starts with them empty, so a condition that reads one may only guard what re-creates the scratch state:
    (re)allocations and writes to scratch members. A write to a persisted member under such a condition (raising a
    recalculation flag because a work array had to be allocated) makes the restored run differ from the running one."""
    import glob, os
    from .. import core
    from . import c04
    scratch = {k for k, v in NOT_PERSISTED.items() if v[0] == 'scratch'}
    notp = set(NOT_PERSISTED)

    def rel(p_):
        return p_[2:] if p_ and p_.startswith('r.') else None
    n = 0
    samples = []
    for path in sorted(glob.glob(os.path.join(core.REPO, 'src', '*.c'))):
        cfile = os.path.basename(path)
        if cfile in ('output.c', 'input.c'):
            continue
        try:
            tu = cfront.load_tu(cfile)
        except Exception:
            continue
        for fname in sorted(tu.funcs):
            fn = tu.func(fname)
            if cfront.body(fn) is None:
                continue
            for ifs in walk(cfront.body(fn)):
                if ifs.get('kind') not in ('IfStmt', 'WhileStmt'):
                    continue
                # scalar scratch members (allocation counters); elements of work arrays are written earlier in the same step
                reads = {rel(c04._access_path(m)) for m in walk(ifs['inner'][0]) if m.get('kind') == 'MemberExpr' and '*' not in qtype(m) and '[' not in qtype(m)}
                reads = {x for x in reads if x in scratch}
                if not reads:
                    continue
                n += 1
                for x in walk(ifs['inner'][1]):
                    if not is_assign(x):
                        continue
                    tgt = rel(c04._access_path(x['inner'][0]))
                    if tgt is None:
                        continue
                    base = tgt
                    if any(base == k_ or base.startswith(k_ + '.') for k_ in notp):
                        continue
                    rhs = strip(x['inner'][1], casts=True)
                    if rhs.get('kind') == 'CallExpr' and callee_name(rhs) in ('realloc', 'malloc', 'calloc'):
                        continue
                    if '*' in qtype(strip(x['inner'][0])):
                        continue
                    ctx.report(rule, '%s:%s:%s' % (fname, sorted(reads)[0], tgt), 'src/%s:%s %s' % (cfile, line_of(x), fname),
                               'r->%s is persisted, but it is assigned under a condition that reads the unpersisted scratch member r->%s (%s): a restored simulation, whose scratch state is empty, takes this branch where the running one does not'
                               % (tgt, sorted(reads)[0], NOT_PERSISTED[sorted(reads)[0]][1]))
                if len(samples) < 5:
                    samples.append('src/%s:%s %s reads %s' % (cfile, line_of(ifs), fname, sorted(reads)))
    ctx.covered(rule, 'conditions on unpersisted scratch members guard only (re)allocation and scratch state', n, floor=5, samples=samples)


def rule_zeroed_particle_arrays(ctx, rule='R05.12'):
    """R05.12: arrays of struct reb_particle that are persisted (rows of pointer type whose element is a particle) are
    written to archives and compared member by member. Code that fills such an array member-wise (the coordinate
    transformations store x, y, z, vx, vy, vz, m) leaves r, last_collision, hash and the pointers as the allocator returned
    them, so every (re)allocation of such a member is followed, in the same statement list, by a memset of the new memory
    to zero (or is a calloc). Otherwise archives are not byte-reproducible and a restored simulation continued next to the
    original compares unequal in bytes nobody computed."""
    from . import c04
    recs, rows, dt, inv, sim = rows_and_leaves()
    targets = set()
    for r in rows:
        pm = row_member(sim, inv, r)
        if pm and re.match(r'^struct reb_particle \*', getattr(pm[1], 'ctype', '') or ''):
            targets.add('r.' + pm[0])
    anchor(len(targets) >= 2, 'persisted arrays of struct reb_particle (found %s)' % sorted(targets))
    n = 0
    samples = []
    for cfile, tu in sorted(cfront.load_tus().items()):
        for fname, fn in sorted(tu.funcs.items()):
            if cfront.body(fn) is None or cfront.basename(fn.get('_locfile') or fn.get('_file')) != cfile:
                continue
            fn = tu.func(fname)
            for comp in walk(cfront.body(fn)):
                if comp.get('kind') != 'CompoundStmt':
                    continue
                items = comp.get('inner', [])
                for i, st in enumerate(items):
                    e = strip(st)
                    if not (is_assign(e) and e['opcode'] == '='):
                        continue
                    rhs = strip(e['inner'][1], casts=True)
                    if not (rhs.get('kind') == 'CallExpr' and callee_name(rhs) in ('realloc', 'malloc', 'aligned_alloc')):
                        continue
                    path = c04._access_path(e['inner'][0])
                    if path not in targets:
                        continue
                    n += 1
                    zeroed = False
                    for later in items[i + 1:]:
                        for x in walk(later):
                            if x.get('kind') == 'CallExpr' and callee_name(x) == 'memset' and call_args(x):
                                a0 = call_args(x)[0]
                                if any(c04._access_path(y) == path for y in walk(a0)) and render(call_args(x)[1]).strip() == '0':
                                    zeroed = True
                    where = 'src/%s:%s %s' % (cfile, line_of(e), fname)
                    if not zeroed:
                        ctx.report(rule, '%s:%s' % (fname, path), where,
                                   '%s is (re)allocated with %s and not set to zero afterwards: the array is persisted and compared as whole particles, but it is filled member by member - radius, last_collision, hash and the pointer members keep the allocator\'s bytes (archives differ from run to run; a restored simulation continued next to the original compares unequal)'
                                   % (path, callee_name(rhs)))
                    else:
                        samples.append('%s: %s zeroed after %s' % (where, path, callee_name(rhs)))
    anchor(n >= 2, 'allocation sites of the persisted particle arrays (found %d)' % n)
    ctx.covered(rule, 'persisted particle arrays are zero-initialised where they are (re)allocated', n, floor=2, samples=samples)
