"""C01 - integrators converge at their advertised order: static necessary conditions (consistency of every
composition, processors inverse, coefficient tables against their definitions, dispatch exhaustiveness)."""
import re
from fractions import Fraction

from ..core import AnalysisError, anchor
from .. import cfront
from . import compose as C, x3, x4, tables
from .x4 import Poly

STATES = [('safe', 1, 1, ('step',)), ('deferred+sync', 0, 1, ('step', 'sync')), ('unsynchronised', 0, 0, ('step',))]
CORRECTORS = [0, 3, 5, 7, 11, 17]


def expect_one(ctx, rule, key, where, totals, groups):
    ok = True
    for g in groups:
        if not C.one_dt(totals[g]):
            ok = False
            ctx.report(rule, key + ':' + g, where, 'sum of %s coefficients over one step is %s, not 1*dt: the scheme is not even first-order consistent'
                       % (g, totals[g]))
    return ok


def rule_compositions(ctx):
    n = 0
    samples = []
    # LEAPFROG
    it, _ = C.run('leapfrog', {})
    n += 1
    expect_one(ctx, 'R01.2', 'leapfrog', 'src/integrator_leapfrog.c part1+part2', C.totals('leapfrog', it.trace), ('drift', 'kick', 'time'))
    samples.append('leapfrog: %s' % [(a, str(b[0]) if b else '') for a, b in it.trace])
    # WHFast
    for kname, kv in C.whfast_kernels():
        for sname, safe, sync0, acts in STATES:
            for corr in CORRECTORS:
                for corr2 in (0, 1):
                    if (corr or corr2) and kname not in ('REB_WHFAST_KERNEL_DEFAULT',) and ctx.tier == 'quick' and corr not in (0, 17):
                        continue
                    it, _ = C.run('whfast', {'r.ri_whfast.kernel': kv, 'r.ri_whfast.safe_mode': safe, 'r.ri_whfast.is_synchronized': sync0,
                                             'r.ri_whfast.corrector': corr, 'r.ri_whfast.corrector2': corr2}, acts)
                    n += 1
                    t = C.totals('whfast', it.trace)
                    groups = ['drift', 'com', 'kick', 'time'] + (['jump'] if kname == 'REB_WHFAST_KERNEL_DEFAULT' else [])
                    key = 'whfast:%s:%s:c%d:c2%d' % (kname.replace('REB_WHFAST_KERNEL_', ''), sname, corr, corr2)
                    expect_one(ctx, 'R01.2', key, 'src/integrator_whfast.c part1+part2+synchronize', t, groups)
    samples.append('whfast: %d kernels x %d states x correctors' % (len(C.whfast_kernels()), len(STATES)))
    # SABA
    for tname, tv in C.saba_types():
        for sname, safe, sync0, acts in STATES:
            it, _ = C.run('saba', {'r.ri_saba.type': tv, 'r.ri_saba.safe_mode': safe, 'r.ri_saba.is_synchronized': sync0}, acts)
            n += 1
            expect_one(ctx, 'R01.2', 'saba:%s:%s' % (tname, sname), 'src/integrator_saba.c part1+part2+synchronize (%s)' % tname,
                       C.totals('saba', it.trace), ('drift', 'com', 'kick', 'time'))
    samples.append('saba: %d types x %d states' % (len(C.saba_types()), len(STATES)))
    # EOS outer shell
    for tname, tv in C.eos_types():
        for sname, safe, sync0, acts in STATES:
            it, _ = C.run('eos', {'r.ri_eos.phi0': tv, 'r.ri_eos.safe_mode': safe, 'r.ri_eos.is_synchronized': sync0}, acts)
            n += 1
            t = C.totals('eos', it.trace)
            key = 'eos0:%s:%s' % (tname, sname)
            where = 'src/integrator_eos.c reb_integrator_eos_part2/synchronize (phi0=%s)' % tname
            expect_one(ctx, 'R01.2', key, where, t, ('drift', 'time'))
            k1 = Poly({1: t['kick'].coef(1)})
            if not C.one_dt(k1):
                ctx.report('R01.2', key + ':kick', where, 'sum of interaction coefficients over one step is %s, not 1*dt' % t['kick'])
        # inner shell
        for nn in (1, 2, 3):
            it = C.eos_shell1(tv, nn)
            n += 1
            s = x4.sums(it.trace, {'drift': {'reb_integrator_eos_drift_shell1'}, 'kick': {'reb_integrator_eos_interaction_shell1'}})
            key = 'eos1:%s:n%d' % (tname, nn)
            where = 'src/integrator_eos.c reb_integrator_eos_drift_shell0 (phi1=%s, n=%d)' % (tname, nn)
            if not C.one_dt(s['drift']):
                ctx.report('R01.2', key + ':drift', where, 'inner drift coefficients sum to %s, not 1*dt' % s['drift'])
            if not C.one_dt(Poly({1: s['kick'].coef(1)})):
                ctx.report('R01.2', key + ':kick', where, 'inner interaction coefficients sum to %s, not 1*dt' % s['kick'])
    samples.append('eos: %d splittings x (3 states outer + 3 sub-step counts inner)' % len(C.eos_types()))
    # JANUS
    for order in (2, 4, 6, 8, 10):
        it, _ = C.run('janus', {'r.ri_janus.order': order})
        n += 1
        expect_one(ctx, 'R01.2', 'janus:%d' % order, 'src/integrator_janus.c part1+part2 (order %d)' % order, C.totals('janus', it.trace), ('drift', 'kick', 'time'))
    # MERCURIUS
    for sname, safe, sync0, acts in STATES:
        it, _ = C.run('mercurius', {'r.ri_mercurius.safe_mode': safe, 'r.ri_mercurius.is_synchronized': sync0}, acts)
        n += 1
        expect_one(ctx, 'R01.2', 'mercurius:%s' % sname, 'src/integrator_mercurius.c part1+part2+synchronize', C.totals('mercurius', it.trace),
                   ('kick', 'jump', 'com', 'drift', 'encounter', 'time'))
    ctx.covered('R01.2', 'operator sequences (one full step, each option combination and synchronisation state): sum of drift, kick, COM, jump and time coefficients = 1*dt',
                n, floor=150, samples=samples)


def _proc_trace(which, tv, level):
    d = C.db()
    ops = {'reb_integrator_eos_drift_shell%d' % level, 'reb_integrator_eos_interaction_shell%d' % level}
    it = x4.Interp(d['funcs'], d['enums'], d['tabs'], ops, set(), {'r.ri_eos.n': 1, 'r.ri_eos.phi1': 0})
    it.call('reb_integrator_eos_%sprocessor' % which, ['@r', Poly.dt(), Poly.const(tv),
                                                      ('fn', 'reb_integrator_eos_drift_shell%d' % level),
                                                      ('fn', 'reb_integrator_eos_interaction_shell%d' % level)])
    return [(nm, tuple(a)) for nm, a in it.trace if nm in ops]


def rule_processors(ctx):
    n = 0
    samples = []
    for tname, tv in C.eos_types():
        pre = _proc_trace('pre', tv, 0)
        post = _proc_trace('post', tv, 0)
        if not pre and not post:
            continue
        n += 1
        where = 'src/integrator_eos.c reb_integrator_eos_preprocessor/postprocessor (%s)' % tname
        ok = len(pre) == len(post) and all(a[0] == b[0] and len(a[1]) == len(b[1]) and all(C.is_zero(x + y) for x, y in zip(a[1], b[1]))
                                           for a, b in zip(pre, reversed(post)))
        if not ok:
            ctx.report('R01.2b', 'eos-processor:' + tname, where,
                       'the post-processor is not the pre-processor run backwards with negated coefficients (%d vs %d operators): processing does not cancel'
                       % (len(pre), len(post)))
        samples.append('%s: %d processor operators, post = reverse(-pre)' % (tname, len(pre)))
    # WHFast correctors: apply_corrector(+1) followed by apply_corrector(-1) is the identity sequence-wise
    d = C.db()
    for order in CORRECTORS[1:]:
        seqs = {}
        for inv in (1, -1):
            it = x4.Interp(d['funcs'], d['enums'], d['tabs'], C.WH_OPS,
                           {'reb_whfast_corrector_Z'}, {'r.ri_whfast.coordinates': 0, 'r.N_var_config': 0})
            it.call('reb_whfast_apply_corrector', ['@r', Poly.const(inv), Poly.const(order)])
            seqs[inv] = [(nm, tuple(a)) for nm, a in it.trace if nm in C.WH_OPS]
        n += 1
        a, b = seqs[1], seqs[-1]
        ok = len(a) == len(b) and len(a) > 0 and all(x[0] == y[0] and all(C.is_zero(p + q) for p, q in zip(x[1], y[1])) for x, y in zip(a, reversed(b)))
        if not ok:
            ctx.report('R01.2b', 'whfast-corrector:%d' % order, 'src/integrator_whfast.c reb_whfast_apply_corrector (order %d)' % order,
                       'apply_corrector(inv=-1) is not apply_corrector(inv=+1) run backwards with negated coefficients (%d vs %d operators)' % (len(a), len(b)))
        samples.append('whfast corrector %d: %d operators' % (order, len(a)))
    ctx.covered('R01.2b', 'processor pairs (EOS pre/post-processors, WHFast correctors +1/-1) are mutually inverse operator sequences', n, floor=8, samples=samples)


def rule_dispatch(ctx):
    files = ['integrator.c', 'integrator_eos.c', 'integrator_whfast.c', 'integrator_saba.c', 'integrator_janus.c', 'integrator_trace.c',
             'integrator_mercurius.c', 'integrator_bs.c', 'integrator_ias15.c', 'integrator_sei.c', 'integrator_leapfrog.c', 'rebound.c']
    tus = cfront.load_tus(files)
    only = None
    n, samples = x3.check(ctx, 'R01.1', files, exceptions=x3.EXCEPTIONS,
                          only_funcs={f for t in tus.values() for f in t.funcs if f not in x3.HOOK_DISPATCHERS})
    n += x3.sibling_sets(ctx, 'R01.1', 'integrator_eos.c', ['reb_integrator_eos_preprocessor', 'reb_integrator_eos_postprocessor'],
                         'EOS splittings with a processor')
    ctx.covered('R01.1', 'switches over integrator/option enums: every enumerator has a case or the default reports an error (frozen exceptions: %d)' % len(x3.EXCEPTIONS),
                n, floor=12, samples=samples)


def rule_bs_coupling(ctx):
    """R01.7: in the modified-midpoint sub-steps of Bulirsch-Stoer every evaluation of all ODE right-hand sides at the
    intermediate state y1 is preceded by copying the N-body part of y1 into the particles (user ODEs that depend on the
    N-body state are evaluated first and read the particle array)."""
    from ..cfront import walk, strip, render, line_of, callee_name, call_args
    tu = cfront.load_tu('integrator_bs.c')
    fn = tu.func('tryStep')
    n = 0
    samples = []
    for comp in walk(cfront.body(fn)):
        if comp.get('kind') != 'CompoundStmt':
            continue
        items = comp.get('inner', [])
        for i, st in enumerate(items):
            if st.get('kind') != 'ForStmt':
                continue
            calls = [e for e in walk(st) if e.get('kind') == 'CallExpr' and callee_name(e) is None and render(e['inner'][0]).endswith('.derivatives')]
            if not calls:
                continue
            nested = [x for x in walk(st['inner'][-1]) if x.get('kind') == 'ForStmt']
            if any(c_ in list(walk(nf)) for nf in nested for c_ in calls):
                continue      # the call belongs to an inner loop, which is visited on its own
            state = render(call_args(calls[0])[2])
            if not state.endswith('.y1'):
                continue
            n += 1
            where = 'src/integrator_bs.c:%s tryStep' % line_of(st)
            prev = items[i - 1] if i > 0 else None
            ok = False
            if prev is not None and prev.get('kind') == 'IfStmt' and render(prev['inner'][0]) == 'needs_nbody':
                for e in walk(prev['inner'][1]):
                    if e.get('kind') == 'CallExpr' and callee_name(e) == 'reb_integrator_bs_update_particles' and render(call_args(e)[1]).endswith('nbody_ode.y1'):
                        ok = True
            if not ok:
                ctx.report('R01.7', 'bs:tryStep:update-before-derivatives', where,
                           'the right-hand sides are evaluated at the intermediate state y1 without first copying the N-body part of y1 into the particle array: '
                           'user ODEs coupled to the N-body system read the positions of the previous sub-step')
            samples.append('%s: derivatives at %s preceded by particle update: %s' % (where, state, ok))
    ctx.covered('R01.7', 'Bulirsch-Stoer sub-steps: particle array refreshed from y1 before the coupled right-hand sides are evaluated', n, floor=2, samples=samples)


def rule_jerk_homogeneity(ctx):
    """R01.9: the modified-kick kernel and the SABA correctors add dt^3/24 (or the corrector weight) times the "jerk" to
    the velocities, so every term accumulated into the jerk buffer must have the dimension L T^-4 (an acceleration per
    time squared = G m a / r^3 ...). A term that lost or gained a factor G, a mass or a length makes the scheme wrong by a
    factor that depends on the unit system (the method silently drops to second order when G != 1)."""
    from . import e9
    tu = cfront.load_tu('integrator_whfast.c')
    fn = tu.func('reb_whfast_calculate_jerk')
    t = e9.Typer(fn, names={'G': e9.G_}).run()
    want = e9.fmt(e9.D(1, -4, 0))
    n = 0
    samples = []
    stores = 0
    for line, what, a, b, txt in t.conflicts:
        n += 1
        if what.startswith('the store') and txt.replace(' ', '').startswith('(jerk['):
            stores += 1
            if b != want:
                ctx.report('R01.9', 'jerk:dim:%s' % re.sub(r'\[[ij]\]', '[]', txt)[:40], 'src/integrator_whfast.c:%s reb_whfast_calculate_jerk' % line,
                           'the term %s has dimension %s; every contribution to the jerk must be %s (G m a / r^3 and G m (r.a) r / r^5)' % (txt, b, want))
            elif len(samples) < 3:
                samples.append('src/integrator_whfast.c:%s %s : %s' % (line, txt, b))
        else:
            ctx.report('R01.9', 'jerk:clash:%s' % txt[:40], 'src/integrator_whfast.c:%s reb_whfast_calculate_jerk' % line, 'dimension clash in %s: %s vs %s in %s' % (what, a, b, txt))
    anchor(stores >= 18, 'accumulations into the jerk buffer in reb_whfast_calculate_jerk (found %d)' % stores)
    n += t.checked
    ctx.covered('R01.9', 'dimension typing of reb_whfast_calculate_jerk: every accumulation into the jerk buffer is L T^-4, all other sums and comparisons homogeneous', n, floor=40, samples=samples)


def rule_central_body_sums(ctx, rule='R01.10'):
    """R01.10: in star-centred loops `for (i = 1; ...)` the acceleration (or velocity) of the central body, particles[0].a*,
    is the sum of the contributions of all others. It is complete only after the loop; a statement of the same loop that
    reads it (the jerk of the modified kick uses a_0 - a_i) sees a partial sum that depends on the particle order, and the
    scheme silently loses orders of accuracy. Running sums over scalars (Jacobi interior masses) are prefix sums by design
    and are not the subject of this rule: only fixed elements of particle arrays are."""
    import glob, os
    from .. import core
    from . import reductions as R
    n = 0
    samples = []
    for path in sorted(glob.glob(os.path.join(core.REPO, 'src', 'integrator_*.c')) + [os.path.join(core.REPO, 'src', 'gravity.c')]):
        cfile = os.path.basename(path)
        try:
            tu = cfront.load_tu(cfile)
        except Exception:
            continue
        for fname in sorted(tu.funcs):
            fn = tu.func(fname)
            if cfront.body(fn) is None or cfront.basename(fn.get('_locfile') or fn.get('_file')) != cfile:
                continue
            for f in R.loops(fn):
                fixed = [a for a in _fixed_element_accumulators(f)]
                if not fixed:
                    continue
                n += 1
                for a, ln in R.invariant_accumulator_reads(f):
                    if a in fixed:
                        ctx.report(rule, '%s:partial:%s' % (fname, a), 'src/%s:%s %s' % (cfile, ln, fname),
                                   '%s is still being accumulated by this loop when it is read here: the statement works with the contributions of the particles visited so far only (loop fusion moved a consumer into the accumulating loop)' % a)
                if len(samples) < 5:
                    samples.append('src/%s:%s %s accumulates %s' % (cfile, cfront.line_of(f), fname, sorted(set(fixed))[:3]))
    ctx.covered(rule, 'loops that accumulate into a fixed particle element never read that element in the same loop', n, floor=8, samples=samples)


def _fixed_element_accumulators(f):
    from . import reductions as R
    from ..cfront import walk, strip, render, is_assign
    iv = R.loop_var(f)
    out = set()
    for e in walk(f['inner'][-1]):
        if is_assign(e) and e['opcode'] in ('+=', '-='):
            l0 = strip(e['inner'][0], casts=True)
            if l0.get('kind') == 'MemberExpr':
                b = strip(l0['inner'][0], casts=True)
                if b.get('kind') == 'ArraySubscriptExpr' and strip(b['inner'][1], casts=True).get('kind') == 'IntegerLiteral':
                    out.add(render(l0).replace(' ', ''))
    return out


def rule_ode_ownership(ctx, rule='R01.11'):
    """R01.11: the list of ODEs of a simulation holds the user's ODEs and, while the BS integrator runs, one ODE that BS
    registers for the N-body system itself (ri_bs.nbody_ode, created in reb_integrator_bs_part2). reb_integrator_part2
    integrates *every* registered ODE with the BS stepper after a step of any other integrator. On that path - under
    r->integrator != REB_INTEGRATOR_BS - the N-body ODE must have been released before reb_integrator_bs_step is called;
    otherwise a simulation that once used BS integrates its particles twice per step after the integrator is changed
    (and, once N has changed, writes beyond the ODE's arrays)."""
    from . import pathcond
    from ..cfront import walk, render, callee_name, call_args
    tu = cfront.load_tu('integrator.c')
    fn = tu.func('reb_integrator_part2')
    btu = cfront.load_tu('integrator_bs.c')
    creates = [e for e in walk(cfront.body(btu.func('reb_integrator_bs_part2'))) if cfront.is_assign(e) and render(e['inner'][0]).endswith('nbody_ode') and 'reb_ode_create' in render(e['inner'][1])]
    anchor(creates, 'reb_integrator_bs_part2 registers ri_bs.nbody_ode with reb_ode_create')
    pcs = pathcond.conditions(fn)
    n = 0
    releases = [cfront.line_of(e) for e in walk(cfront.body(fn)) if e.get('kind') == 'CallExpr' and callee_name(e) == 'reb_ode_free' and 'nbody_ode' in render(call_args(e)[0])
                and not any('N_odes' in c for c in pcs.get(id(e), []))]
    for e in walk(cfront.body(fn)):
        if e.get('kind') == 'CallExpr' and callee_name(e) == 'reb_integrator_bs_step':
            cs = [c.replace(' ', '') for c in pcs.get(id(e), [])]
            if not any('r.integrator!=REB_INTEGRATOR_BS' in c for c in cs):
                continue
            n += 1
            excluded = any('nbody_ode' in c and ('==0' in c or c.startswith('!')) for c in cs)
            if not excluded and not any(l < cfront.line_of(e) for l in releases):
                ctx.report(rule, 'part2:user-odes:nbody_ode', 'src/integrator.c:%s reb_integrator_part2' % cfront.line_of(e),
                           'after a step of an integrator other than BS every registered ODE is advanced with reb_integrator_bs_step, and nothing on this path releases ri_bs.nbody_ode (registered by reb_integrator_bs_part2, src/integrator_bs.c:%s): once BS has been used, the N-body equations are integrated a second time after every step of the new integrator' % cfront.line_of(creates[0]))
    anchor(n >= 1, 'reb_integrator_part2 advances user ODEs with reb_integrator_bs_step when the integrator is not BS')
    ctx.covered(rule, 'the N-body ODE registered by BS is released before other integrators advance the registered ODEs', n, floor=1)


def rule_force_terms_flag(ctx, rule='R01.12'):
    """R01.12: r->gravity_ignore_terms tells the generic gravity routines which pair terms to leave out because the
    integrator's Kepler step accounts for them (WHFast, SABA, EOS set 1 or 2). The flag lives in the simulation and
    outlives the integrator that set it, so every integrator whose forces come from a gravity routine that reads the flag
    has to set it at the start of its step (part1, or a function part1 calls in the same file). Exempt are integrators
    whose part1 selects a private gravity mode whose routine does not read the flag. Sibling agreement over the part1
    slot of reb_integrator_part1."""
    from ..cfront import walk, strip, render, line_of, callee_name, is_assign
    tus = cfront.load_tus()
    disp = tus['integrator.c'].func('reb_integrator_part1')
    targets = {}
    # the dispatch may be a switch or an if / else-if chain over (a local holding) r->integrator: the constant is read off
    # the path conditions of each call (case labels are path conditions)
    from . import pathcond
    pcs = pathcond.conditions(disp)
    for e in walk(cfront.body(disp)):
        if e.get('kind') == 'CallExpr' and (callee_name(e) or '').endswith('_part1'):
            consts = []
            for c in pcs.get(id(e), []):
                m = re.search(r'==\s*\(?(REB_INTEGRATOR_\w+)', c.replace(' ', '')) if not c.replace(' ', '').startswith('!') else None
                if m:
                    consts.append(m.group(1))
            if consts:
                targets[consts[-1]] = callee_name(e)
    anchor(len(targets) >= 10, 'part1 functions dispatched by reb_integrator_part1 (found %d)' % len(targets))
    # gravity modes whose routine reads the flag: case labels of the switch in reb_calculate_acceleration whose statements mention it
    grav = tus['gravity.c'].func('reb_calculate_acceleration')
    flag_locals = {'r.gravity_ignore_terms'}
    for d in walk(cfront.body(grav)):
        if d.get('kind') == 'VarDecl' and 'init' in d:
            init = [c for c in d.get('inner', []) if c.get('kind') not in ('FullComment',)]
            if init and 'gravity_ignore_terms' in render(init[-1]):
                flag_locals.add(d['name'])
    reads = set()
    gsw = [x for x in walk(cfront.body(grav)) if x.get('kind') == 'SwitchStmt' and 'gravity' in render(x['inner'][0] if x['inner'][0].get('kind') else x['inner'][1])]
    anchor(gsw, 'switch over r->gravity in reb_calculate_acceleration')
    cur = None
    for st in gsw[0]['inner'][-1].get('inner', []):
        node = st
        while node.get('kind') in ('CaseStmt', 'DefaultStmt'):
            if node['kind'] == 'CaseStmt':
                for x in walk(node['inner'][0]):
                    if x.get('kind') == 'DeclRefExpr' and x['referencedDecl'].get('kind') == 'EnumConstantDecl':
                        cur = x['referencedDecl']['name']
            else:
                cur = None
            node = node['inner'][-1]
        if cur and any((x.get('kind') == 'DeclRefExpr' and x['referencedDecl'].get('name') in flag_locals) or (x.get('kind') == 'MemberExpr' and x.get('name') == 'gravity_ignore_terms') for x in walk(node)):
            reads.add(cur)
    anchor('REB_GRAVITY_BASIC' in reads, 'gravity modes that read gravity_ignore_terms (found %s)' % sorted(reads))
    n = 0
    samples = []
    for const, fname in sorted(targets.items()):
        cfile = next((c for c, tu in tus.items() if fname in tu.funcs and cfront.basename(tu.funcs[fname].get('_locfile') or tu.funcs[fname].get('_file')) == c), None)
        anchor(cfile is not None, 'definition of %s' % fname)
        tu = tus[cfile]
        seen, todo = set(), [(fname, 0)]
        sets_flag = private = None
        calls_forces = False
        while todo:
            f_, d_ = todo.pop()
            if f_ in seen or f_ not in tu.funcs or cfront.body(tu.funcs[f_]) is None:
                continue
            seen.add(f_)
            for e in walk(cfront.body(tu.func(f_))):
                if is_assign(e) and e['opcode'] == '=':
                    lv = render(e['inner'][0]).replace(' ', '')
                    if lv == 'r.gravity_ignore_terms' and sets_flag is None:
                        sets_flag = '%s (src/%s:%s)' % (f_, cfile, line_of(e))
                    if lv == 'r.gravity':
                        mode = render(e['inner'][1]).replace(' ', '').strip('()')
                        if mode.startswith('REB_GRAVITY_') and mode not in reads and mode != 'REB_GRAVITY_NONE':
                            private = mode
                if e.get('kind') == 'CallExpr' and callee_name(e) in tu.funcs and d_ < 2 and cfront.basename(tu.funcs[callee_name(e)].get('_locfile') or tu.funcs[callee_name(e)].get('_file')) == cfile:
                    todo.append((callee_name(e), d_ + 1))
        n += 1
        where = 'src/%s %s' % (cfile, fname)
        if not (sets_flag or private):
            # part1 switches the generic force evaluation off (gravity = NONE) and the integrator evaluates forces itself:
            # then every evaluation in its file has to be preceded, in the same function, by an assignment of the flag
            off = any(is_assign(e) and render(e['inner'][0]).replace(' ', '') == 'r.gravity' and 'REB_GRAVITY_NONE' in render(e['inner'][1])
                      for f_ in seen for e in walk(cfront.body(tu.func(f_))))
            if off:
                evals = ok = 0
                for f_, fn_ in tu.funcs.items():
                    if cfront.body(fn_) is None or cfront.basename(fn_.get('_locfile') or fn_.get('_file')) != cfile:
                        continue
                    b_ = cfront.body(tu.func(f_))
                    sets = [line_of(e) for e in walk(b_) if is_assign(e) and render(e['inner'][0]).replace(' ', '') == 'r.gravity_ignore_terms']
                    for e in walk(b_):
                        if e.get('kind') == 'CallExpr' and callee_name(e) in ('reb_simulation_update_acceleration', 'reb_calculate_acceleration'):
                            evals += 1
                            ok += 1 if any(l_ <= line_of(e) for l_ in sets) else 0
                if evals and evals == ok:
                    sets_flag = 'before each of its %d own force evaluations (generic evaluation switched off in part1)' % evals
        if sets_flag or private:
            samples.append('%s: %s' % (const, sets_flag or ('private gravity mode ' + private)))
            continue
        if const in FLAG_EXEMPT:
            ctx.note('%s: %s does not set gravity_ignore_terms - %s' % (rule, fname, FLAG_EXEMPT[const]))
            continue
        ctx.report(rule, '%s:flag' % fname, where,
                   '%s (selected by %s) neither sets r->gravity_ignore_terms nor selects a private gravity mode: after steps with WHFast, SABA or EOS the flag still says 1 or 2 and the generic gravity routine leaves the star-planet terms out of this integrator\'s forces'
                   % (fname, const))
    ctx.covered(rule, 'integrators reached through reb_integrator_part1 set gravity_ignore_terms or use a private gravity mode (modes reading the flag: %s)' % ', '.join(sorted(reads)), n, floor=10, samples=samples[:6])


FLAG_EXEMPT = {
    'REB_INTEGRATOR_WHFAST512': 'its part1 performs the whole step with its own AVX512 interaction kernels; the acceleration computed by the generic routine is not used',
    'REB_INTEGRATOR_NONE': 'no integration',
}


def run(ctx):
    from . import protocol
    protocol.rule_corrector_typestate(ctx, 'R01.14')     # corrector kicks use forces of the current positions
    protocol.rule_jerk_loop_starts(ctx, 'R01.15')        # the jerk of test particles leaves out the same pairs as that of active particles
    from . import jerkdomain
    jerkdomain.rule_jerk_domain(ctx, 'R02.14')              # a pair in the jerk and not in the kick leaves a second-order error in the modified-kick schemes
    jerkdomain.rule_jacobi_direct_domain(ctx, 'R02.15')     # kernels MODIFIEDKICK / LAZY integrate the same system as DEFAULT
    protocol.rule_leapfrog_live(ctx, 'R10.14')           # LEAPFROG is drift-kick-drift on the live particle
    from . import c12
    c12.rule_slices(ctx)     # R12.1: the position-only maps used by correctors and kernels are the posvel maps restricted to positions
    from . import edges
    edges.rule_threshold_siblings(ctx, 'R01.13')     # one quantity, one literal, one line: SABA corrector types are recognised alike at every site
    edges.rule_sentinel_before_use(ctx, 'R10.12')    # defaults are substituted before the member is read
    from . import c02
    c02.rule_dimensions(ctx)     # R02.4: every force term carries G exactly once (a method whose error does not shrink with dt when G != 1)
    from . import c10
    c10.rule_janus_sequence(ctx)     # R10.3/R10.5j: every stage of JANUS applies the same unit conversion (a stage with the wrong scale is a different method)
    rule_force_terms_flag(ctx)
    rule_ode_ownership(ctx)
    from . import c03 as _c03
    _c03.rule_mass_parameter(ctx, _c03.rule_scope(ctx))   # R03.3: every caller hands the Kepler solver G times a mass (one factor of G)
    rule_central_body_sums(ctx)
    rule_jerk_homogeneity(ctx)
    from . import c08
    c08.rule_direction(ctx)               # R08.8: sub-step loops (user ODEs, TRACE/MERCURIUS encounters) reach the step boundary for either direction
    rule_bs_coupling(ctx)
    rule_dispatch(ctx)
    rule_compositions(ctx)
    rule_processors(ctx)
    tables.rule_tables(ctx, 'R01.3')
    from . import ias15
    ias15.rule_closing_series(ctx, 'R01.5')
    ias15.rule_predictor(ctx, 'R01.5')
    from . import sei
    sei.rule_exact(ctx, 'R01.8')          # SEI: the unperturbed operator is the exact flow of Hill's equations
    from . import c09
    c09.rule_exact_finish(ctx)            # R09.11: a shortened last step starts from a synchronised state (else the error stops shrinking with dt)
    ctx.not_decided.append('the order of accuracy beyond first-order consistency and symmetry; adaptive step control (IAS15, BS, TRACE accept/reject); '
                           'user ODE coupling; error constants')
