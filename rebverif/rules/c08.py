"""C08 - integrate() honours its time, step-size and status contract: static necessary conditions."""
import ast

import re
from ..core import AnalysisError, anchor
from .. import cfront, pyfront, normal
from ..cfront import walk, strip, callee_name, call_args, render, line_of, qtype, is_assign
from . import compose as C


def ancestors_conditions(fn):
    """{id(node): [rendered conditions of enclosing if-statements (then-branch: cond, else-branch: !cond)]}"""
    out = {}

    def rec(n, conds):
        out[id(n)] = conds
        k = n.get('kind')
        if k == 'IfStmt':
            ch = n['inner']
            c = render(ch[0])
            rec(ch[0], conds)
            rec(ch[1], conds + [c])
            if len(ch) > 2:
                rec(ch[2], conds + ['!(' + c + ')'])
            return
        for c in n.get('inner', []) or []:
            if isinstance(c, dict):
                rec(c, conds)
    rec(cfront.body(fn), [])
    return out


def rule_time_sums(ctx):
    """R08.1: the increments of r->t over part1+part2 sum to r->dt (or the step actually done) for every integrator."""
    n = 0
    samples = []
    cases = [('leapfrog', {}), ('whfast', {'r.ri_whfast.safe_mode': 1, 'r.ri_whfast.is_synchronized': 1}),
             ('saba', {'r.ri_saba.type': 0, 'r.ri_saba.safe_mode': 1, 'r.ri_saba.is_synchronized': 1}),
             ('eos', {'r.ri_eos.phi0': 0, 'r.ri_eos.safe_mode': 1, 'r.ri_eos.is_synchronized': 1}),
             ('janus', {'r.ri_janus.order': 2}), ('mercurius', {'r.ri_mercurius.safe_mode': 1, 'r.ri_mercurius.is_synchronized': 1})]
    for scheme, flags in cases:
        for variant in (flags, {k: (0 if k.endswith('safe_mode') else v) for k, v in flags.items()}):
            it, _ = C.run(scheme, variant)
            n += 1
            t = C.totals(scheme, it.trace)['time']
            if not C.one_dt(t):
                ctx.report('R08.1', 'time:' + scheme, 'src/integrator_%s.c part1+part2' % scheme, 'r->t advances by %s per step, not by r->dt' % t)
            # dt_last_done is recorded as r->dt
            if it.flags.get('r.dt_last_done') is not None and not C.one_dt(C.x4._p(it.flags['r.dt_last_done'])):
                ctx.report('R08.1', 'dt_last_done:' + scheme, 'src/integrator_%s.c part2' % scheme, 'dt_last_done is set to %s, not r->dt' % it.flags['r.dt_last_done'])
            if 'r.dt_last_done' not in it.flags:
                # not recording it is harmless for the restore logic (last_full_dt then keeps the step size at entry)
                if variant is flags:
                    ctx.note('R08.1 %s does not record dt_last_done; reb_check_exit then restores the step size in force at entry' % scheme)
        samples.append('%s: time advance %s' % (scheme, t))
    # adaptive / remaining integrators: structural form  r->t += <done> guarded by success, dt_last_done = <done>
    forms = [('integrator_ias15.c', 'reb_integrator_ias15_step', 'dt_done'), ('integrator_bs.c', 'reb_integrator_bs_part2', 'r.dt'),
             ('integrator_sei.c', 'reb_integrator_sei_part2', None), ('integrator_trace.c', 'reb_integrator_trace_part2', None),
             ('integrator.c', 'reb_integrator_part2', None)]
    for cfile, fname, _ in forms:
        tu = cfront.load_tu(cfile)
        if fname not in tu.funcs:
            continue
        tw = []
        dl = []
        # a step is part1 followed by part2: collect the time updates of both halves
        halves = [fname.replace('_part2', '_part1'), fname] if fname.endswith('_part2') and fname != 'reb_integrator_part2' else [fname]
        for hn in halves:
            if hn not in tu.funcs:
                continue
            for e in walk(cfront.body(tu.funcs[hn])):
                if is_assign(e):
                    lv = render(e['inner'][0])
                    if lv == 'r.t':
                        tw.append((e['opcode'], render(e['inner'][1]), line_of(e)))
                    if lv == 'r.dt_last_done':
                        dl.append((e['opcode'], render(e['inner'][1]), line_of(e)))
        n += 1
        where = 'src/%s %s' % (cfile, fname)
        if cfile in ('integrator_ias15.c', 'integrator_bs.c', 'integrator_trace.c') and not tw and cfile != 'integrator_trace.c':
            ctx.report('R08.1', 'time:' + fname, where, 'the step never advances r->t')
        for op, rhs, line in tw:
            if op not in ('+=', '='):
                ctx.report('R08.1', 'time:%s:op' % fname, where, 'r->t is updated with %s' % op)
        if tw and dl:
            # the value recorded as done must be the value added to the time (sum of the increments)
            incs = [r_ for o, r_, l in tw if o == '+=']
            rec = [r_ for o, r_, l in dl]
            ok = False
            for r_ in rec:
                if r_ in incs or (len(incs) == 2 and all(i_ in ('(%s/2.0)' % r_, '(%s/2)' % r_, '(%s/2.)' % r_) for i_ in incs)):
                    ok = True
            if not ok and incs:
                ctx.report('R08.1', 'time:%s:done' % fname, where, 'r->t advances by %s but dt_last_done records %s' % (incs, rec))
        samples.append('%s: t updates %s, dt_last_done %s' % (fname, tw, dl))
    ctx.covered('R08.1', 'per integrator: time increments of a step sum to the step done; dt_last_done records it', n, floor=14, samples=samples)


def rule_exit_machine(ctx):
    tu = cfront.load_tu('rebound.c')
    fn = tu.func('reb_check_exit')
    from . import pathcond
    from .. import normal as _normal
    # reb_check_exit together with helpers split off from it: a helper's statements are reached under the conditions of its
    # call site plus its own
    fns = _normal.with_new_helpers(tu, 'reb_check_exit')
    conds = {}
    site = {fn['name']: []}
    for f_ in fns:
        own = pathcond.conditions(f_)
        extra = site.get(f_['name'], [])
        for k_, v_ in own.items():
            conds[k_] = list(extra) + list(v_)
        for e_ in walk(cfront.body(f_)):
            if e_.get('kind') == 'CallExpr' and callee_name(e_) in {g_['name'] for g_ in fns}:
                site.setdefault(callee_name(e_), list(extra) + list(own.get(id(e_), [])))

    class _Multi(dict):
        pass
    allnodes = {'kind': 'CompoundStmt', 'inner': [cfront.body(f_) for f_ in fns]}
    _orig_body = cfront.body
    n = 0
    samples = []
    # R08.2/R08.3: every assignment to r->dt is under exact_finish_time==1 and preceded by a synchronise in its block
    for comp in walk(allnodes):
        if comp.get('kind') != 'CompoundStmt':
            continue
        seen_sync = False
        for st in comp.get('inner', []):
            s = strip(st)
            if s.get('kind') == 'CallExpr' and callee_name(s) == 'reb_simulation_synchronize':
                seen_sync = True
            if is_assign(s) and render(s['inner'][0]) == 'r.dt':
                n += 1
                where = 'src/rebound.c:%s reb_check_exit' % line_of(s)
                cs = conds.get(id(st), [])
                if not any('r.exact_finish_time==1' in c.replace(' ', '') and not c.startswith('!') for c in cs):
                    ctx.report('R08.2', 'check_exit:dt:guard', where, 'r->dt is changed outside the exact_finish_time==1 branch: the user step size is altered although no exact finish was requested')
                if not seen_sync:
                    ctx.report('R08.3', 'check_exit:dt:sync', where, 'r->dt is changed without a preceding reb_simulation_synchronize in the same block: a deferred half step is completed with the wrong step size')
                if render(s['inner'][1]).replace(' ', '') != '(tmax-r.t)':
                    ctx.report('R08.2', 'check_exit:dt:value', where, 'the shortened step is %s, not tmax - t' % render(s['inner'][1]))
                samples.append('%s: r->dt = %s under %s' % (where, render(s['inner'][1]), cs[-2:]))
    anchor(n >= 1, 'reb_check_exit assigns r->dt on the last-step paths')
    # the user's step size is remembered once, when the last step is entered - not again on the retry path (status already
    # LAST_STEP), where dt_last_done is the shortened step: integrate() would then restore the shortened step as the user's dt
    for e in walk(allnodes):
        if is_assign(e) and 'last_full_dt' in render(e['inner'][0]):
            n += 1
            cs = [c.replace(' ', '') for c in conds.get(id(e), [])]
            first_time = any((c.startswith('!(') and 'r.status==REB_STATUS_LAST_STEP' in c and '&&' not in c and '||' not in c)
                             or ('r.status!=REB_STATUS_LAST_STEP' in c and not c.startswith('!') and '||' not in c)
                             or (re.match(r'^\(?r\.status==REB_STATUS_(?!LAST_STEP)\w+\)?$', c) is not None) for c in cs)
            if not first_time:
                ctx.report('R08.2', 'check_exit:last_full_dt:retry', 'src/rebound.c:%s reb_check_exit' % line_of(e),
                           'the step size to restore after the integration is stored on a path that is also taken when the status already is REB_STATUS_LAST_STEP (conditions: %s): on the retry path dt_last_done is the shortened last step, which then replaces the user\'s dt' % cs[-3:])
    # the first shrink stores the previous full step
    stores = [e for e in walk(allnodes) if is_assign(e) and render(e['inner'][0]).replace(' ', '') in ('(*last_full_dt)', '*last_full_dt')]
    n += 1
    if not stores:
        ctx.report('R08.2', 'check_exit:last_full_dt', 'src/rebound.c reb_check_exit', 'the step size in force before the last (shortened) step is never stored: it cannot be restored afterwards')
    else:
        for e in stores:
            cs = conds.get(id(e), [])
            if render(e['inner'][1]) != 'r.dt_last_done':
                ctx.report('R08.2', 'check_exit:last_full_dt:value', 'src/rebound.c:%s reb_check_exit' % line_of(e), 'last_full_dt is set from %s, not from dt_last_done' % render(e['inner'][1]))
            if not any('r.dt_last_done!=0' in c.replace(' ', '') for c in cs):
                ctx.report('R08.2', 'check_exit:last_full_dt:guard', 'src/rebound.c:%s reb_check_exit' % line_of(e), 'last_full_dt is overwritten even when no step was done yet (dt_last_done==0)')
    # exact_finish_time==0: success iff t has reached tmax in the direction of integration
    n += 1
    txt = [render(x).replace(' ', '') for x in walk(allnodes) if x.get('kind') == 'BinaryOperator' and x.get('opcode') in ('>=', '<=')]
    txt += ['(' + t_ + ')' for t_ in txt]
    if not any(c == '((r.t*dtsign)>=(tmax*dtsign))' for c in txt):
        ctx.report('R08.6', 'check_exit:overshoot', 'src/rebound.c reb_check_exit', 'the test "t has passed tmax" is not direction-aware (t*dtsign >= tmax*dtsign)')
    if not any(c == '(((r.t+r.dt)*dtsign)>=(tmax*dtsign))' for c in txt):
        ctx.report('R08.6', 'check_exit:nextstep', 'src/rebound.c reb_check_exit', 'the test "next step would overshoot" is not direction-aware ((t+dt)*dtsign >= tmax*dtsign)')

    # integrate_raw
    fn = tu.func('reb_simulation_integrate_raw')
    body = cfront.body(fn)
    top = body.get('inner', [])
    from .. import normal
    li, cond_node, loop_items = normal.main_loop(top, 'reb_simulation_step')
    anchor(li is not None and cond_node is not None and cond_node.get('kind'), 'the loop of reb_simulation_integrate_raw that calls reb_simulation_step, with its continuation test')
    loop = top[li]
    n += 1
    where = 'src/rebound.c reb_simulation_integrate_raw'
    cond = render(cond_node).replace(' ', '')
    if not cond.startswith('('):
        cond = '(' + cond + ')'
    if 'reb_check_exit(' not in cond or not cond.endswith('<0)'):
        ctx.report('R08.4', 'integrate:loopcond', where, 'the integration loop is not "while (reb_check_exit(...) < 0)": %s' % cond)
    before = top[:li]
    after = top[li + 1:]

    def calls(nodes):
        out = []
        for s in nodes:
            for e in walk(s):
                if e.get('kind') == 'CallExpr':
                    out.append(callee_name(e))
        return out

    def assigns(nodes):
        out = []
        for s in nodes:
            for e in walk(s):
                if is_assign(e):
                    out.append((render(e['inner'][0]), render(e['inner'][1]), e))
                if e.get('kind') == 'VarDecl' and 'init' in e:
                    init = [c for c in e.get('inner', []) if c.get('kind') not in ('FullComment',)]
                    if init:
                        out.append((e['name'], render(init[-1]), e))
        return out
    n += 5
    ab = assigns(before)
    if not any(l == 'r.dt_last_done' and r_ in ('0.0', '0', '0.') for l, r_, _ in ab):
        ctx.report('R08.2', 'integrate:reset_dt_last_done', where, 'dt_last_done is not reset to 0 before the loop: reb_check_exit then takes the (shortened) last step of the previous call for the full step size and restores it into r->dt')
    if not any(l == 'last_full_dt' and r_ == 'r.dt' for l, r_, _ in ab):
        ctx.report('R08.2', 'integrate:last_full_dt_init', where, 'last_full_dt is not initialised from r->dt before the loop')
    # direction: dt sign set from tmax vs t only when they differ
    conds = ancestors_conditions(fn)
    dirs = [(l, r_, e) for l, r_, e in ab if l == 'r.dt' and 'copysign' in r_]
    if not dirs:
        ctx.report('R08.6', 'integrate:direction', where, 'the sign of dt is not set from the direction of integration')
    for l, r_, e in dirs:
        cs = conds.get(id(e), [])
        if not any('tmax!=r.t' in c.replace(' ', '').replace('thread_info.', '') for c in cs):
            ctx.report('R08.6', 'integrate:direction:guard', where, 'the sign of dt is changed even when tmax equals the current time')
    if 'reb_run_heartbeat' not in calls(before):
        ctx.report('R08.4', 'integrate:heartbeat0', where, 'the heartbeat (exit conditions) is not evaluated once before the first step')
    lb = calls(loop_items)
    if 'reb_simulation_step' not in lb or 'reb_run_heartbeat' not in lb or lb.index('reb_run_heartbeat') < lb.index('reb_simulation_step'):
        ctx.report('R08.4', 'integrate:heartbeat', where, 'the loop body is not "step; heartbeat": exit conditions are not evaluated after every step')
    ca = calls(after)
    if 'reb_simulation_synchronize' not in ca:
        ctx.report('R08.4', 'integrate:final_sync', where, 'integrate does not synchronise after the loop')
    aa = assigns(after)
    conds_after = pathcond.conditions(fn)          # flag locals expanded, early exits included
    rest = [(l, r_, e) for l, r_, e in aa if l == 'r.dt']
    if not any(r_ == 'last_full_dt' for l, r_, e in rest):
        ctx.report('R08.2', 'integrate:restore_dt', where, 'r->dt is not restored from last_full_dt after the loop: the user keeps the shortened last step')
    for l, r_, e in rest:
        cs = conds_after.get(id(e), [])
        if not any('r.exact_finish_time==1' in c.replace(' ', '') for c in cs):
            ctx.report('R08.2', 'integrate:restore_dt:guard', where, 'r->dt is overwritten after the loop although exact_finish_time is off')
        # restore must come after the final synchronise
    samples.append('%s: loop %s; before=%s; after=%s' % (where, cond, [c for c in calls(before) if c and c.startswith('reb_')], [c for c in ca if c and c.startswith('reb_')]))
    ctx.covered('R08.2', 'exit/last-step state machine and integrate driver: guards, synchronise-before-dt-change, save/restore pairing, loop shape, direction handling', n, floor=9, samples=samples)


def rule_sign_clamps(ctx):
    """R08.6b: a step-size floor/ceiling (min_dt/max_dt, unsigned magnitudes) never changes the sign of the step:
    either it is applied through copysign(limit, dt) or to an explicitly normalised magnitude (dt = fabs(dt))."""
    n = 0
    samples = []
    for cfile in ('integrator_ias15.c', 'integrator_bs.c', 'integrator_trace.c'):
        tu = cfront.load_tu(cfile)
        for fname, fn in tu.funcs.items():
            if cfront.basename(fn.get('_locfile') or fn.get('_file')) != cfile:
                continue
            normalised = set()
            for e in walk(cfront.body(fn)):
                if is_assign(e) and e['opcode'] == '=':
                    r_ = strip(e['inner'][1])
                    if r_.get('kind') == 'CallExpr' and callee_name(r_) == 'fabs' and render(call_args(r_)[0]) == render(e['inner'][0]):
                        normalised.add(render(e['inner'][0]))
            for e in walk(cfront.body(fn)):
                if not (is_assign(e) and e['opcode'] == '='):
                    continue
                rhs = strip(e['inner'][1])
                txt = render(rhs)
                if '.min_dt' not in txt and '.max_dt' not in txt:
                    continue
                lv = render(e['inner'][0])
                if lv.endswith('min_dt') or lv.endswith('max_dt'):
                    continue
                n += 1
                where = 'src/%s:%s %s' % (cfile, line_of(e), fname)
                ok = lv in normalised
                if rhs.get('kind') == 'CallExpr' and callee_name(rhs) == 'copysign' and render(call_args(rhs)[1]) == lv:
                    ok = True
                if not ok:
                    ctx.report('R08.6', 'clamp:%s:%s' % (fname, lv), where,
                               '%s = %s replaces the step by an unsigned limit: when integrating backwards the step changes sign and time runs against the direction of integration' % (lv, txt))
                samples.append('%s: %s = %s' % (where, lv, txt))
    ctx.covered('R08.6', 'step-size clamps keep the sign of the step (copysign or explicit magnitude)', n, floor=3, samples=samples)


STATUS_EXC = {'REB_STATUS_GENERIC_ERROR': 'GenericError', 'REB_STATUS_NO_PARTICLES': 'NoParticles', 'REB_STATUS_ENCOUNTER': 'Encounter',
              'REB_STATUS_ESCAPE': 'Escape', 'REB_STATUS_USER': None, 'REB_STATUS_SIGINT': 'KeyboardInterrupt', 'REB_STATUS_COLLISION': 'Collision'}


def rule_status_table(ctx):
    tu = cfront.load_tu('rebound.c')
    st = dict(tu.enum_types.get('REB_STATUS') or [])
    anchor(st, 'enum REB_STATUS')
    db = pyfront.pydb()
    fn = db.classes['Simulation'].defs.get('integrate')
    anchor(fn is not None, 'Simulation.integrate')
    # the variable that receives the status, and dictionaries of constants defined in the function
    svar = None
    dicts = {}
    for node in ast.walk(fn):
        if isinstance(node, ast.Assign) and len(node.targets) == 1 and isinstance(node.targets[0], ast.Name):
            if isinstance(node.value, ast.Call) and isinstance(node.value.func, ast.Attribute) and node.value.func.attr == 'reb_simulation_integrate':
                svar = node.targets[0].id
            if isinstance(node.value, ast.Dict) and all(isinstance(k_, ast.Constant) for k_ in node.value.keys):
                dicts[node.targets[0].id] = {k_.value: v_ for k_, v_ in zip(node.value.keys, node.value.values)}
    anchor(svar is not None, 'Simulation.integrate stores the result of reb_simulation_integrate in a local')
    # tables kept at module level
    mod = db.files[db.classes['Simulation'].path]
    for node in mod.body:
        if isinstance(node, ast.Assign) and len(node.targets) == 1 and isinstance(node.targets[0], ast.Name) and isinstance(node.value, ast.Dict) \
                and node.value.keys and all(isinstance(k_, ast.Constant) and isinstance(k_.value, int) for k_ in node.value.keys):
            dicts.setdefault(node.targets[0].id, {k_.value: v_ for k_, v_ in zip(node.value.keys, node.value.values)})

    # finite-domain evaluation of the part of integrate() that follows the C call, once per status value: which exception
    # classes are raised (if-chains, tables at module level or in the function, tuple unpacking, .get())
    from . import pyeval
    import copy as _copy
    consts = {}
    for node in mod.body:
        if isinstance(node, ast.Assign) and len(node.targets) == 1 and isinstance(node.targets[0], ast.Name) and isinstance(node.value, ast.Dict):
            v_ = pyeval._ev(node.value, pyeval.Path({}))
            if v_ is not pyeval.UNK:
                consts[node.targets[0].id] = v_

    class _Pin(ast.NodeTransformer):
        def __init__(self, value):
            self.value = value

        def visit_Assign(self, node):
            if len(node.targets) == 1 and isinstance(node.targets[0], ast.Name) and node.targets[0].id == svar and isinstance(node.value, ast.Call):
                new_ = ast.Assign(targets=node.targets, value=ast.Constant(value=self.value))
                return ast.copy_location(new_, node)
            return node
    table = {}
    mentioned = set()
    for node in ast.walk(fn):
        if isinstance(node, ast.Compare) and isinstance(node.left, ast.Name) and node.left.id == svar:
            for c_ in node.comparators:
                if isinstance(c_, ast.Constant) and isinstance(c_.value, int):
                    mentioned.add(c_.value)
    for d_ in consts.values():
        mentioned |= {k_ for k_ in d_ if isinstance(k_, int)}
    for name_, v_ in st.items():
        if v_ <= 0:
            continue
        f2 = _Pin(v_).visit(_copy.deepcopy(fn))
        ast.fix_missing_locations(f2)
        dom = {k_: [val] for k_, val in consts.items()}
        raised_ = set()
        silent_path = False
        for env_, r_ in pyeval.paths(f2, dom):
            evs = [e_ for e_ in r_.events if e_[1] == 'raise']
            if r_.done == 'raise' and evs:
                w = evs[-1][2]['exc']
                raised_.add(w[6:] if isinstance(w, str) and w.startswith('class:') else '?')
            else:
                silent_path = True
        if raised_ or v_ in mentioned:
            table[v_] = sorted(raised_ - {'?'}) + (['?'] if '?' in raised_ else [])
            if raised_ and silent_path and STATUS_EXC.get(name_) is not None:
                table[v_] = table[v_] + ['<nothing on some path>']
    for v_ in mentioned:
        if v_ > 0 and v_ not in st.values():
            table.setdefault(v_, [])
    n = 0
    samples = []
    where = 'rebound/simulation.py:%d Simulation.integrate' % fn.lineno
    for name, v in sorted(st.items(), key=lambda kv: kv[1]):
        if v <= 0:
            continue
        n += 1
        anchor(name in STATUS_EXC, 'status %s has a documented Python meaning' % name)
        want = STATUS_EXC[name]
        if v not in table and want is None:
            samples.append('%s=%d -> no exception (not mentioned)' % (name, v))
            continue
        if v not in table:
            ctx.report('R08.5', 'status:%s' % name, where, 'status %s=%d is not handled by Simulation.integrate: the exit condition is silently ignored' % (name, v))
            continue
        got = set(table[v])
        if want is None:
            if got:
                ctx.report('R08.5', 'status:%s' % name, where, 'status %s=%d (user stop) raises %s' % (name, v, sorted(got)))
        elif got != {want}:
            ctx.report('R08.5', 'status:%s' % name, where, 'status %s=%d raises %s, documented meaning is %s' % (name, v, sorted(got) or 'nothing', want))
        samples.append('%s=%d -> %s' % (name, v, sorted(got) or 'no exception'))
    for v in table:
        if v not in st.values():
            ctx.report('R08.5', 'status:literal%d' % v, where, 'Simulation.integrate tests for status %d, which is not an enumerator of REB_STATUS' % v)
    # writers of the two statuses set by library callbacks
    tus = cfront.load_tus(['rebound.c', 'collision.c'])
    for cfile, fname, status in (('rebound.c', 'reb_simulation_stop', 'REB_STATUS_USER'), ('collision.c', 'reb_collision_resolve_halt', 'REB_STATUS_COLLISION')):
        f = tus[cfile].func(fname)
        n += 1
        vals = [render(e['inner'][1]) for e in walk(cfront.body(f)) if is_assign(e) and render(e['inner'][0]) == 'r.status']
        if vals != [status]:
            ctx.report('R08.5', 'status:writer:' + fname, 'src/%s %s' % (cfile, fname), '%s sets status to %s, not %s' % (fname, vals, status))
    # exit conditions of the heartbeat write their own status
    f = tus['rebound.c'].func('reb_run_heartbeat')
    for ifs in walk(cfront.body(f)):
        if ifs.get('kind') == 'IfStmt':
            mems_ = {'r.' + x['name'] for x in walk(ifs['inner'][0]) if x.get('kind') == 'MemberExpr' and x.get('name') in ('exit_max_distance', 'exit_min_distance')}
            c = next(iter(mems_)) if len(mems_) == 1 else None
            for want_c, want_s in (('r.exit_max_distance', 'REB_STATUS_ESCAPE'), ('r.exit_min_distance', 'REB_STATUS_ENCOUNTER')):
                if c == want_c:
                    n += 1
                    vals = {render(e['inner'][1]) for e in walk(ifs['inner'][1]) if is_assign(e) and render(e['inner'][0]) == 'r.status'}
                    if vals != {want_s}:
                        ctx.report('R08.5', 'status:heartbeat:' + want_c, 'src/rebound.c reb_run_heartbeat', 'the %s test sets status %s, not %s' % (want_c, sorted(vals), want_s))
    ctx.covered('R08.5', 'status codes: positive REB_STATUS enumerators vs exceptions raised by Simulation.integrate; writers of USER/COLLISION/ESCAPE/ENCOUNTER', n, floor=11, samples=samples)


def rule_exit_scans(ctx):
    """R08.7: the escape and close-encounter scans of the heartbeat decide the returned status. They must range over the
    real particles only (variational particles are tangent vectors, not positions), compare the squared distance with
    the squared threshold in the right direction and set the matching status."""
    from . import extents
    tu = cfront.load_tu('rebound.c')
    fn = tu.func('reb_run_heartbeat')
    n = 0
    samples = []
    want = {'r.exit_max_distance': ('>', 'REB_STATUS_ESCAPE'), 'r.exit_min_distance': ('<', 'REB_STATUS_ENCOUNTER')}
    seen = set()
    for ifs in cfront.body(fn).get('inner', []):
        if ifs.get('kind') != 'IfStmt':
            continue
        mems = {'r.' + x['name'] for x in walk(ifs['inner'][0]) if x.get('kind') == 'MemberExpr' and x.get('name') in ('exit_max_distance', 'exit_min_distance')}
        if len(mems) != 1:
            continue
        cond = next(iter(mems))
        seen.add(cond)
        loops = extents.particle_loops(fn, ifs['inner'][1])
        anchor(loops, 'particle scan under %s in reb_run_heartbeat' % cond)
        outer_vars = {}
        for f, var, bound, subs in loops:
            n += 1
            where = 'src/rebound.c:%s reb_run_heartbeat' % line_of(f)
            if bound == extents.REAL:
                outer_vars[var] = True
                samples.append('%s: scan under %s over %s covers r->N - r->N_var' % (where, cond, ','.join(subs)))
            elif bound in outer_vars:
                pass    # inner loop of a pair scan: j < i
            else:
                ctx.report('R08.7', 'heartbeat:%s:extent' % cond.split('.')[-1], where,
                           'the scan deciding the %s status runs over %s, not over the real particles r->N - r->N_var: variational particles (tangent vectors that grow with time) trigger the exit condition'
                           % (want[cond][1], bound))
        op, status = want[cond]
        tests = [x for x in walk(ifs['inner'][1]) if x.get('kind') == 'IfStmt']
        ok = False
        for t in tests:
            c = strip(t['inner'][0])
            sets = [render(e['inner'][1]) for e in walk(t['inner'][1]) if cfront.is_assign(e) and render(e['inner'][0]) == 'r.status']
            if c.get('kind') == 'BinaryOperator' and sets:
                n += 1
                if c['opcode'] != op or sets != [status]:
                    ctx.report('R08.7', 'heartbeat:%s:test' % cond.split('.')[-1], 'src/rebound.c:%s reb_run_heartbeat' % line_of(t),
                               'under %s the test is "%s" and sets %s; expected a "%s" comparison setting %s' % (cond, render(c), sets, op, status))
                ok = True
        anchor(ok, 'threshold test setting r->status under %s' % cond)
    anchor(seen == set(want), 'both exit_max_distance and exit_min_distance scans in reb_run_heartbeat')
    ctx.covered('R08.7', 'heartbeat exit scans: extent is the real particles, comparison direction and status code match the condition', n, floor=5, samples=samples)


SUBSTEP_SCOPE = [('integrator.c', 'reb_integrator_part2'), ('integrator_mercurius.c', 'reb_mercurius_encounter_step'), ('integrator_trace.c', 'reb_integrator_trace_bs_step'),
                 ('integrator_trace.c', 'reb_integrator_trace_step'), ('rebound.c', 'reb_check_exit'), ('integrator_bs.c', 'reb_integrator_bs_step'),
                 ('simulationarchive.c', 'reb_simulationarchive_heartbeat'),
                 # swept-sphere tests of the line searches: the time of closest approach is a span along the last step
                 ('collision.c', 'reb_collision_search'), ('collision.c', 'reb_tree_check_for_overlapping_trajectories_in_cell')]


def rule_direction(ctx):
    """R08.8: the loops that catch up to a target time (user ODEs after an N-body step, MERCURIUS/TRACE encounter and
    pericentre sub-steps), the exit test of integrate() and the snapshot cadence order times and spans in a way that is
    valid for both signs of the step; every catch-up loop clamps its last sub-step to the target."""
    from . import signs
    n = 0
    samples = []
    for cfile, fname in SUBSTEP_SCOPE:
        tu = cfront.load_tu(cfile)
        fn = tu.func(fname)
        k, ok = signs.check_function(ctx, 'R08.8', cfile, fn)
        n += k
        samples += ok[:1]
        # catch-up loops: while (S*<time> < S*<target> ...) { ... advance ... } needs an overshoot clamp assigning target - time.
        # Names are free: the two times are the operands of the loop's own "<" comparison (sign factor stripped).
        def strip_sign(e):
            e = strip(e, casts=True)
            if e.get('kind') == 'BinaryOperator' and e['opcode'] == '*':
                a_, b_ = strip(e['inner'][0], casts=True), strip(e['inner'][1], casts=True)
                pa = signs.Pass(fn).run()
                if pa.cls(a_) == signs.SIGN:
                    return b_
                if pa.cls(b_) == signs.SIGN:
                    return a_
            return e
        for w in walk(cfront.body(fn)):
            if w.get('kind') != 'WhileStmt':
                continue
            advances = [e for e in walk(w['inner'][1]) if e.get('kind') == 'CallExpr' and callee_name(e) in ('reb_integrator_bs_step', 'reb_integrator_ias15_part2')]
            if not advances:
                continue
            lt = None
            for c_ in walk(w['inner'][0]):
                if c_.get('kind') == 'BinaryOperator' and c_['opcode'] == '<':
                    l_, r_ = strip_sign(c_['inner'][0]), strip_sign(c_['inner'][1])
                    if 'double' in qtype(l_) and 'double' in qtype(r_) and l_.get('kind') in ('DeclRefExpr', 'MemberExpr') and r_.get('kind') in ('DeclRefExpr', 'MemberExpr'):
                        lt = (render(l_).replace(' ', ''), render(r_).replace(' ', ''))
                        break
            if lt is None:
                continue
            n += 1
            cur, tgt = lt
            body = w['inner'][1]
            from . import extents
            L = {k_: v_ for k_, v_ in extents.lets(fn).items() if k_ not in (cur, tgt)}
            diffs = {'%s-%s' % (tgt, cur), '%s-%s' % (cur, tgt)}
            clamp = False
            for ifs in walk(body):
                if ifs.get('kind') != 'IfStmt':
                    continue
                c = strip(ifs['inner'][0])
                if c.get('kind') != 'BinaryOperator' or c['opcode'] not in ('>', '>=', '<', '<='):
                    continue
                for a_ in walk(ifs['inner'][1]):
                    if is_assign(a_) and a_['opcode'] == '=' and 'double' in qtype(strip(a_['inner'][0])):
                        rhs = extents.canon(extents.resolve(render(a_['inner'][1]), L)).replace('fabs', '')
                        if rhs in diffs:
                            clamp = True
            if not clamp:
                ctx.report('R08.8', '%s:overshoot:%s' % (fname, callee_name(advances[0])), 'src/%s:%s %s' % (cfile, line_of(w), fname),
                           'the loop advancing %s to %s with %s has no overshoot test (if the next sub-step passes the target, shorten it to target - time): the state is left beyond the step boundary'
                           % (cur, tgt, callee_name(advances[0])))
            else:
                samples.append('src/%s:%s %s: catch-up of %s to %s clamps its last sub-step' % (cfile, line_of(w), fname, cur, tgt))
    ctx.covered('R08.8', 'direction typing of time/step comparisons in the catch-up loops, the exit test and the snapshot cadence; overshoot clamp in every catch-up loop', n, floor=20, samples=samples)


def rule_save_restore(ctx, rule='R08.9'):
    """R08.9: a function that puts a member of the simulation aside in a local (const double old_t = r->t), changes the
    member for the duration of some inner work (sub-stepping an encounter with its own t and dt) and assigns the local back at
    the end, has to reach that assignment on every way out: a return between the save and the restore hands the inner
    value of t / dt (and the inner mode flag) back to integrate(), which then reports a time that is not a step boundary
    and continues with the sub-step size."""
    n = 0
    samples = []
    for cfile, tu in sorted(cfront.load_tus().items()):
        for fname, fn in sorted(tu.funcs.items()):
            if cfront.body(fn) is None or cfront.basename(fn.get('_locfile') or fn.get('_file')) != cfile:
                continue
            fn = tu.func(fname)
            saved = {}
            for d in walk(cfront.body(fn)):
                if d.get('kind') == 'VarDecl' and 'init' in d:
                    init = [c for c in d.get('inner', []) if c.get('kind') not in ('FullComment',)]
                    t_ = render(init[-1]).replace(' ', '') if init else ''
                    if re.match(r'^r\.(t|dt|dt_last_done)$', t_):
                        saved[d['name']] = (t_, line_of(d))
            if not saved:
                continue
            for loc, (mem, l0) in sorted(saved.items()):
                rest = [line_of(e) for e in walk(cfront.body(fn)) if is_assign(e) and e['opcode'] == '=' and render(e['inner'][0]).replace(' ', '') == mem
                        and render(e['inner'][1]).replace(' ', '').strip('()') == loc]
                changed = [line_of(e) for e in walk(cfront.body(fn)) if is_assign(e) and render(e['inner'][0]).replace(' ', '') == mem
                           and render(e['inner'][1]).replace(' ', '').strip('()') != loc and line_of(e) > l0]
                if not rest or not changed:
                    continue
                n += 1
                last = max(rest)
                for x in walk(cfront.body(fn)):
                    if x.get('kind') == 'ReturnStmt' and min(changed) < line_of(x) < last:
                        ctx.report(rule, '%s:%s:return' % (fname, mem), 'src/%s:%s %s' % (cfile, line_of(x), fname),
                                   '%s is put aside in %s (line %s), changed for the inner work and assigned back at line %s - but this return leaves the function in between: the caller continues with the inner value of %s' % (mem, loc, l0, last, mem))
                samples.append('src/%s %s: %s saved in %s, restored at line %s' % (cfile, fname, mem, loc, last))
    ctx.covered(rule, 'members of the simulation put aside in a local and assigned back at the end of the function: no return in between', n, floor=2, samples=samples[:5])


def rule_final_snapshot_order(ctx, rule='R08.10'):
    """R08.10: integrate() may shorten the last step to land on tmax and puts the full step size back afterwards
    (r->dt = last_full_dt). Whatever persists the simulation after the loop (the final heartbeat of the archive, a save)
    has to come after that assignment - a snapshot written before it stores the shortened step, and a restart from it
    continues with the wrong dt."""
    tu = cfront.load_tu('rebound.c')
    fns = normal.with_new_helpers(tu, 'reb_simulation_integrate_raw')
    n = 0
    for fn in fns:
        top = cfront.body(fn).get('inner', [])
        restores = [line_of(e) for st in top for e in walk(st) if is_assign(e) and e['opcode'] == '=' and render(e['inner'][0]).replace(' ', '') == 'r.dt'
                    and 'last_full_dt' in render(e['inner'][1]) and st.get('kind') != 'WhileStmt' and st.get('kind') != 'ForStmt' and st.get('kind') != 'DoStmt']
        if not restores:
            continue
        n += 1
        loops = [st for st in top if st.get('kind') in ('WhileStmt', 'ForStmt', 'DoStmt') and any(x.get('kind') == 'CallExpr' and callee_name(x) == 'reb_simulation_step' for x in walk(st))]
        anchor(loops, 'main loop of reb_simulation_integrate_raw')
        after = (loops[-1].get('_endline') or line_of(loops[-1]))
        for st in top:
            for e in walk(st):
                if e.get('kind') == 'CallExpr' and callee_name(e) in ('reb_simulationarchive_heartbeat', 'reb_simulation_save_to_file', 'reb_simulation_save_to_stream') \
                        and line_of(e) > after and line_of(e) < max(restores):
                    ctx.report(rule, 'integrate:final-snapshot', 'src/rebound.c:%s %s' % (line_of(e), fn['name']),
                               '%s runs after the loop but before the full step size is put back (r->dt = last_full_dt at line %s): with exact_finish_time the snapshot stores the shortened last step and a restart from it continues with the wrong timestep' % (callee_name(e), max(restores)))
    anchor(n >= 1, 'r->dt = last_full_dt after the loop of reb_simulation_integrate_raw')
    ctx.covered(rule, 'the final snapshot of integrate() is written after the full step size has been put back', n, floor=1)


def rule_halt_unconditional(ctx, rule='R08.13'):
    """R08.13: integrate() reports a halting collision at the first step boundary at which it is found. The resolver that
    halts (reb_collision_resolve_halt) therefore sets r->status = REB_STATUS_COLLISION on every path: it has no precondition
    on the two particles (an "already handled at this time" exit copied from the merging resolver skips collisions found at
    t equal to the particles' initial last_collision = 0)."""
    from . import pathcond
    tu = cfront.load_tu('collision.c')
    fn = tu.func('reb_collision_resolve_halt')
    pc = pathcond.conditions(fn)
    n = 0
    for e in walk(cfront.body(fn)):
        if is_assign(e) and render(e['inner'][0]).replace(' ', '') == 'r.status' and 'REB_STATUS_COLLISION' in render(e['inner'][1]):
            n += 1
            cs = pc.get(id(e), [])
            if cs:
                ctx.report(rule, 'halt:conditional', 'src/collision.c:%s reb_collision_resolve_halt' % line_of(e),
                           'the halting resolver sets the collision status only if %s: a collision that does not satisfy this is found by the search and silently ignored, integrate() runs on' % cs)
    anchor(n == 1, 'reb_collision_resolve_halt sets r->status = REB_STATUS_COLLISION')
    ctx.covered(rule, 'the halting collision resolver sets the status on every path', n, floor=1)


def run(ctx):
    from . import protocol
    protocol.rule_collision_step_size(ctx, 'R08.14')     # collisions are looked for along the step just taken
    protocol.rule_last_done_unconditional(ctx, 'R08.15') # the recorded step size does not depend on the synchronisation options
    rule_halt_unconditional(ctx)
    from . import edges
    edges.rule_last_done_is_last(ctx, 'R08.11')      # the step size integrate() restores is the user's
    edges.rule_time_direction(ctx, 'R08.12')         # time may be negative and may run backwards: collision times and t = 0
    rule_save_restore(ctx)
    rule_final_snapshot_order(ctx)
    from . import c01
    c01.rule_dispatch(ctx)            # R01.1: a switch over r->status that ignores enumerators (paused / single-stepped by a client) without reporting
    rule_direction(ctx)
    rule_exit_scans(ctx)
    rule_time_sums(ctx)
    rule_exit_machine(ctx)
    rule_sign_clamps(ctx)
    rule_status_table(ctx)
    # split integrations: the synchronise at the end of integrate() must leave a keep_unsynchronized integrator exactly as it found it
    from . import c09
    c09.rule_keep_unsynchronized(ctx)
    c09.rule_exact_finish(ctx)
    ctx.not_decided.append('the 1e-12 finishing tolerance and floating-point coincidences of (t, dt, tmax); step counts; bitwise equality of split integrations; which boundary an exit condition is first seen at')
