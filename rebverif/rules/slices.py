"""R12.1 - kind slices: the pos / posvel / posvelacc / acc variants of one coordinate map must be the same map.
Every statement is classified by the kind of its lvalue (pos: x,y,z; vel: vx..; acc: ax..; other). The projection of a
function onto one kind, with that kind's names renamed to a neutral kind, is a canonical tree; all variants of a
family must have equal canonical trees for every kind they handle."""
import re

from .. import cfront
from ..cfront import strip, walk, toks, render, is_assign

KIND_RE = re.compile(r'^(.*?)(v|a)?([xyz])$')


def name_kind(n):
    """('p'|'v'|'a', neutral name) for component names like x, vx, s_ax, else None."""
    m = KIND_RE.match(n)
    if not m:
        return None
    base, k, ax = m.groups()
    if base and not base.endswith('_') and base not in ('d', 'dd'):
        # names like 'max', 'index' are not components; only bare, prefixed_ or d/dd names count
        return None
    return ({None: 'p', 'v': 'v', 'a': 'a'}[k], base + 'C' + ax)


def lvalue_kind(lv):
    if lv[0] == 'mem':
        nk = name_kind(lv[2][1])
    elif lv[0] == 'id':
        nk = name_kind(lv[1])
    else:
        nk = None
    return nk[0] if nk else None


def neutral(t, kind):
    """Rename names of `kind` to neutral names; names of other kinds are left (they make the tree differ)."""
    k = t[0]
    if k in ('id', 'fld'):
        nk = name_kind(t[1])
        if nk and nk[0] == kind:
            return (k, nk[1])
        return t
    return tuple(neutral(c, kind) if isinstance(c, tuple) else c for c in t)


def project(node, kind, drop_mass=True):
    """Canonical nested tuple of the statements of `kind` (and kind-free statements) under node."""
    k = node.get('kind')
    if k == 'CompoundStmt':
        out = []
        for c in node.get('inner', []):
            p = project(c, kind, drop_mass)
            if p is not None:
                out.append(p)
        return ('block',) + tuple(out) if out else None
    if k == 'DeclStmt':
        out = []
        for d in node.get('inner', []):
            if d.get('kind') != 'VarDecl':
                continue
            init = [c for c in d.get('inner', []) if c.get('kind') not in ('FullComment',)]
            nk = name_kind(d['name'])
            if nk and nk[0] != kind:
                continue
            if init and 'init' in d:
                out.append(('decl', neutral(('id', d['name']), kind), neutral(toks(init[-1]), kind)))
            else:
                out.append(('decl', neutral(('id', d['name']), kind)))
        return ('block',) + tuple(out) if out else None
    if k in ('ForStmt', 'WhileStmt', 'DoStmt'):
        ch = node.get('inner', [])
        bodyn = ch[-1] if k != 'DoStmt' else ch[0]
        b = project(bodyn, kind, drop_mass) if bodyn else None
        if b is None:
            return None
        hdr = tuple(neutral(toks_any(c), kind) for c in ch[:-1] if c and c.get('kind'))
        if _only_kindfree(b):
            return None
        return ('loop', hdr, b)
    if k == 'IfStmt':
        ch = node['inner']
        a = project(ch[1], kind, drop_mass)
        b = project(ch[2], kind, drop_mass) if len(ch) > 2 else None
        if a is None and b is None:
            return None
        return ('if', neutral(toks(ch[0]), kind), a, b)
    s = strip(node)
    if is_assign(s):
        lv = toks(s['inner'][0])
        lk = lvalue_kind(lv)
        if lk is not None and lk != kind:
            return None
        if drop_mass and lv[0] == 'mem' and lv[2][1] == 'm':
            return None
        tag = 'asg' if lk else 'free'
        return (tag, s['opcode'], neutral(lv, kind), neutral(toks(s['inner'][1]), kind))
    if k in ('ReturnStmt', 'BreakStmt', 'ContinueStmt', 'NullStmt'):
        return None
    if k == 'CallExpr' or s.get('kind') == 'CallExpr':
        return ('call', neutral(toks(s), kind))
    return ('stmt', k)


def toks_any(n):
    if n.get('kind') == 'DeclStmt':
        out = []
        for d in n.get('inner', []):
            init = [c for c in d.get('inner', []) if c.get('kind') not in ('FullComment',)]
            out.append(('decl', ('id', d.get('name')), toks(init[-1]) if init and 'init' in d else ('lit', '?')))
        return ('block',) + tuple(out)
    t = toks(n)
    if t[0] == 'bin' and t[1] == '=' and t[2][0] == 'id':
        # `v = e` as a loop initialiser is the same header as `T v = e`
        return ('block', ('decl', t[2], t[3]))
    return t


def _only_kindfree(p):
    """True when a projected block contains no statement of the projected kind (only helper declarations)."""
    if p is None:
        return True
    if p[0] == 'asg':
        return False
    if p[0] == 'decl':
        return not _mentions_neutral(p)
    if p[0] in ('block',):
        return all(_only_kindfree(c) for c in p[1:])
    if p[0] == 'loop':
        return _only_kindfree(p[2])
    if p[0] == 'if':
        return _only_kindfree(p[2]) and _only_kindfree(p[3])
    if p[0] in ('free', 'call', 'stmt'):
        return True
    return True


def _mentions_neutral(t):
    if isinstance(t, tuple):
        if t[0] in ('id', 'fld') and isinstance(t[1], str) and re.search(r'C[xyz]$', t[1]):
            return True
        return any(_mentions_neutral(c) for c in t[1:] if isinstance(c, tuple))
    return False


def prune_free(p):
    """Drop kind-free helper statements whose values are not needed: keep them (they define eta, ei ...) but
    remove duplicates of nothing - identity for now, kept as a hook."""
    return p


def kinds_handled(fn):
    ks = set()
    for n in walk(cfront.body(fn)):
        s = n
        if is_assign(s):
            lk = lvalue_kind(toks(s['inner'][0]))
            if lk:
                ks.add(lk)
    return ks


def show(p, ind=0):
    """Readable rendering of a canonical tree."""
    pad = '  ' * ind
    if p is None:
        return pad + '-'
    if p[0] == 'block':
        return '\n'.join(show(c, ind) for c in p[1:])
    if p[0] == 'loop':
        return pad + 'loop(' + '; '.join(_r(h) for h in p[1]) + ')\n' + show(p[2], ind + 1)
    if p[0] == 'if':
        return pad + 'if ' + _r(p[1]) + '\n' + show(p[2], ind + 1) + ('\n' + pad + 'else\n' + show(p[3], ind + 1) if p[3] else '')
    if p[0] in ('asg', 'free'):
        return pad + _r(p[2]) + ' ' + p[1] + ' ' + _r(p[3])
    if p[0] == 'decl':
        return pad + 'decl ' + _r(p[1]) + (' = ' + _r(p[2]) if len(p) > 2 else '')
    if p[0] == 'call':
        return pad + _r(p[1])
    return pad + str(p)


def _r(t):
    try:
        if t and t[0] == 'block':
            return '; '.join(_r(c) for c in t[1:])
        if t and t[0] == 'decl':
            return _r(t[1]) + '=' + _r(t[2])
        return render(t)
    except Exception:
        return str(t)
