"""Rules over the Python layer that several properties share.

* selector truthiness: an argument that selects something by number (a snapshot, an index, a hash) may legitimately be 0;
  testing it by truthiness (`if not snapshot`, `snapshot or -1`) turns the request for number 0 into "not given".
* wrapper state: the Python objects are views of C-owned state. Whatever a method of such a class stores on `self` that is
  not a member of the C struct lives outside the simulation: it is neither saved, copied, compared nor invalidated when the
  C state changes. The attributes in use today are confirmed one by one (keep-alive references for callbacks and buffers,
  back-references); any other attribute written from a method is reported.
* thin wrappers: a function of rebound/tools.py that hands its arguments to the C function of the same name returns nothing
  but that call - a Python-side shortcut for "easy" arguments makes the two front ends differ in the last bits.
"""
import ast

from ..core import AnalysisError, anchor
from .. import pyfront

SELECTORS = ('snapshot', 'index', 'hash', 'key', 'blob', 'i')


class _Sel:
    """a selector reached through the argument containers: kw.get('snapshot'), kw['snapshot']"""
    def __init__(self, id_, lineno):
        self.id, self.lineno = id_, lineno


def _truthiness_operands(test):
    """bare names (and kw.get('name') / kw['name'] look-ups) whose truth value decides `test`"""
    out = []
    if isinstance(test, ast.Name):
        out.append(test)
    elif isinstance(test, ast.Call) and isinstance(test.func, ast.Attribute) and test.func.attr == 'get' and test.args and isinstance(test.args[0], ast.Constant) and isinstance(test.args[0].value, str):
        out.append(_Sel(test.args[0].value, test.lineno))
    elif isinstance(test, ast.Subscript) and isinstance(test.slice, ast.Constant) and isinstance(test.slice.value, str):
        out.append(_Sel(test.slice.value, test.lineno))
    elif isinstance(test, ast.UnaryOp) and isinstance(test.op, ast.Not):
        out += _truthiness_operands(test.operand)
    elif isinstance(test, ast.BoolOp):
        for v in test.values:
            out += _truthiness_operands(v)
    return out


def rule_selector_truthiness(ctx, rule, classes, names=SELECTORS):
    """In the methods of `classes`, names that select by number are never tested by truthiness."""
    db = pyfront.pydb()
    n = 0
    for cname in classes:
        c = db.classes.get(cname)
        anchor(c is not None, 'class %s' % cname)
        for fn in [x for x in c.node.body if isinstance(x, ast.FunctionDef)]:
            mname = fn.name
            # what the name can hold: a selector only if it is a parameter, or assigned from an argument / kw lookup
            for node in ast.walk(fn):
                tests = []
                if isinstance(node, (ast.If, ast.While, ast.IfExp)):
                    tests.append(node.test)
                elif isinstance(node, ast.BoolOp) and not any(isinstance(p_, (ast.If, ast.While, ast.IfExp)) and p_.test is node for p_ in ast.walk(fn)):
                    # `x = snapshot or -1`
                    tests.append(ast.BoolOp(op=node.op, values=node.values[:-1])) if len(node.values) > 1 else None
                if isinstance(node, ast.If):
                    # `if len(args)>1 and args[1]: snapshot = args[1]`: the truth value of the positional argument decides
                    vals = [v for v in (node.test.values if isinstance(node.test, ast.BoolOp) else [node.test]) if isinstance(v, ast.Subscript)]
                    for v in vals:
                        for st in node.body:
                            if isinstance(st, ast.Assign) and len(st.targets) == 1 and isinstance(st.targets[0], ast.Name) and st.targets[0].id in names \
                                    and ast.unparse(st.value) == ast.unparse(v):
                                n += 1
                                ctx.report(rule, '%s.%s:%s' % (cname, mname, st.targets[0].id), '%s:%d %s.%s' % (c.path, v.lineno, cname, mname),
                                           '%s is taken from %s only if that value is true: the legitimate value 0 is treated as "not given"' % (st.targets[0].id, ast.unparse(v)))
                for t in tests:
                    for nm in _truthiness_operands(t):
                        if nm.id in names:
                            n += 1
                            ctx.report(rule, '%s.%s:%s' % (cname, mname, nm.id), '%s:%d %s.%s' % (c.path, nm.lineno, cname, mname),
                                       '%s selects by number and is tested by truthiness: the legitimate value 0 (the first snapshot, particle 0, hash 0) is treated as "not given"' % nm.id)
            for node in ast.walk(fn):
                if isinstance(node, ast.Compare) and isinstance(node.left, ast.Name) and node.left.id in names:
                    n += 1
            n += 1
    ctx.covered(rule, 'selector arguments (%s) in %s are never tested by truthiness' % ('/'.join(names), ', '.join(classes)), n, floor=5)


# attributes that methods of the wrapper classes store on self today, each confirmed by reading
WRAPPER_STATE_OK = {
    'Simulation': {
        '_afp': 'keep-alive reference of the additional_forces callback wrapper',
        '_corfp': 'keep-alive reference of the coefficient_of_restitution callback wrapper',
        '_colrfp': 'keep-alive reference of the collision_resolve callback wrapper',
        '_pretmp': 'keep-alive reference of the pre_timestep_modifications callback wrapper',
        '_posttmp': 'keep-alive reference of the post_timestep_modifications callback wrapper',
        '_hb': 'keep-alive reference of the heartbeat callback wrapper',
        '_fpa': 'keep-alive reference of the free_particle_ap callback wrapper',
        '_extras_ref': 'back-reference that keeps the REBOUNDx object alive',
        '_widgets': 'display widgets (no simulation state)',
        '_odes': 'keep-alive list of ODE objects handed to C',
    },
}


def rule_wrapper_state(ctx, rule, classes=('Simulation', 'Particles', 'Particle', 'Orbit', 'Rotation')):
    """Methods of the classes that wrap C-owned state store nothing on self except members of the C struct, properties with a
    setter, and the confirmed keep-alive references."""
    db = pyfront.pydb()
    n = 0
    samples = []
    for cname in classes:
        c = db.classes.get(cname)
        if c is None:
            continue
        fields = set()
        if c.fields_ast is not None:
            for el in c.fields_ast.elts:
                if isinstance(el, ast.Tuple) and el.elts and isinstance(el.elts[0], ast.Constant):
                    fields.add(el.elts[0].value)
        settable = {k for k, v in c.props.items() if v.get('set') is not None}
        # attributes initialised by the constructor with a constant or an argument are the object's identity, not a cache
        ctor = set()
        for mname in ('__init__', '__new__'):
            f0 = c.defs.get(mname)
            if isinstance(f0, ast.FunctionDef):
                params = {a.arg for a in f0.args.args}
                for st in ast.walk(f0):
                    if isinstance(st, ast.Assign):
                        for t in st.targets:
                            if isinstance(t, ast.Attribute) and isinstance(t.value, ast.Name) and t.value.id in ('self', 'sim') \
                                    and (isinstance(st.value, ast.Name) and st.value.id in params):
                                ctor.add(t.attr)
        allowed = WRAPPER_STATE_OK.get(cname, {})
        for fn in [x for x in c.node.body if isinstance(x, ast.FunctionDef)]:
            mname = fn.name
            selfname = fn.args.args[0].arg if fn.args.args else None
            if selfname is None:
                continue
            for st in ast.walk(fn):
                targets = []
                if isinstance(st, ast.Assign):
                    targets = st.targets
                elif isinstance(st, (ast.AugAssign, ast.AnnAssign)):
                    targets = [st.target]
                for t in targets:
                    for tt in (t.elts if isinstance(t, (ast.Tuple, ast.List)) else [t]):
                        if isinstance(tt, ast.Attribute) and isinstance(tt.value, ast.Name) and tt.value.id == selfname:
                            n += 1
                            a = tt.attr
                            if a in fields or a in settable or ('_' + a) in fields or a in ctor:
                                continue
                            if a in allowed:
                                if len(samples) < 4:
                                    samples.append('%s.%s: %s' % (cname, a, allowed[a]))
                                continue
                            ctx.report(rule, '%s.%s:%s' % (cname, mname, a), '%s:%d %s.%s' % (c.path, tt.lineno, cname, mname),
                                       'the method stores %s.%s, which is neither a member of the C struct nor a confirmed keep-alive reference: state kept on the Python object is not saved, copied or compared with the simulation and is not invalidated when the C state changes (a cached value goes stale)' % (selfname, a))
    ctx.covered(rule, 'attributes stored on the wrapper objects by their methods: C struct members, settable properties, constructor identity, confirmed keep-alive references', n, floor=20, samples=samples)


def rule_thin_wrappers(ctx, rule, relpath='rebound/tools.py'):
    """A module-level function f that calls clibrebound.reb_f returns nothing but that call."""
    db = pyfront.pydb()
    tree = db.files.get(relpath)
    anchor(tree is not None, relpath)
    n = 0
    for fn in tree.body:
        if not isinstance(fn, ast.FunctionDef):
            continue
        own = 'reb_' + fn.name
        calls = [x for x in ast.walk(fn) if isinstance(x, ast.Call) and isinstance(x.func, ast.Attribute) and x.func.attr == own and pyfront._name(x.func.value) == 'clibrebound']
        if not calls:
            continue
        n += 1
        for r in [x for x in ast.walk(fn) if isinstance(x, ast.Return)]:
            v = r.value
            ok = isinstance(v, ast.Call) and isinstance(v.func, ast.Attribute) and v.func.attr == own
            if not ok:
                ctx.report(rule, '%s:return' % fn.name, '%s:%d %s' % (relpath, r.lineno, fn.name),
                           '%s() hands its arguments to the C function %s but also returns %s without calling it: for those arguments the Python front end no longer computes what the C front end computes (results differ in the last bits)'
                           % (fn.name, own, ast.unparse(v)[:60] if v is not None else 'None'))
    ctx.covered(rule, 'functions of %s that wrap the C function of the same name return only its result' % relpath, n, floor=3)


INTERNAL_FLAG = r'^(recalculate_\w+|is_synchronized)$'


def rule_internal_flags(ctx, rule):
    """The integrators' bookkeeping members (is_synchronized, recalculate_*_this_timestep ...) are owned by the C code:
    it raises them where the particles change and clears them where the internal coordinates are rebuilt. The Python layer
    reads them and never writes them - a setter that raises them "to be safe" forces a rebuild of internal state that is
    not lossless (JANUS re-derives its integer coordinates from the rounded floating point copy; an unsynchronised WHFast
    state would be discarded). Expected count of writes: zero; the reads found are the positive control."""
    import re
    db = pyfront.pydb()
    reads = writes = 0
    for rel, tree in sorted(db.files.items()):
        for node in ast.walk(tree):
            targets = []
            if isinstance(node, ast.Assign):
                targets = node.targets
            elif isinstance(node, (ast.AugAssign, ast.AnnAssign)):
                targets = [node.target]
            flat = []
            for t in targets:
                flat += list(t.elts) if isinstance(t, (ast.Tuple, ast.List)) else [t]
            for t in flat:
                if isinstance(t, ast.Attribute) and re.match(INTERNAL_FLAG, t.attr):
                    writes += 1
                    ctx.report(rule, '%s:%s' % (rel, t.attr), '%s:%d' % (rel, t.lineno),
                               'the Python layer assigns %s: the flag belongs to the C integrator, which raises it exactly where the particles change; raising it from Python makes the next step rebuild the integrator\'s internal coordinates from the rounded particle data (not a no-op: JANUS loses its exact integer state, an unsynchronised state is dropped)' % ast.unparse(t))
            if isinstance(node, ast.Call) and isinstance(node.func, ast.Name) and node.func.id == 'setattr' and len(node.args) >= 2 \
                    and isinstance(node.args[1], ast.Constant) and isinstance(node.args[1].value, str) and re.match(INTERNAL_FLAG, node.args[1].value):
                writes += 1
                ctx.report(rule, '%s:%s' % (rel, node.args[1].value), '%s:%d' % (rel, node.lineno), 'the Python layer sets %s through setattr' % node.args[1].value)
            if isinstance(node, ast.Attribute) and isinstance(node.ctx, ast.Load) and re.match(INTERNAL_FLAG, node.attr):
                reads += 1
    anchor(reads >= 3, 'reads of is_synchronized / recalculate_* in the Python layer (positive control, found %d)' % reads)
    ctx.covered(rule, 'the Python layer reads the integrators\' bookkeeping flags (%d reads) and never writes them' % reads, reads + writes, floor=3)


def rule_none_helpers(ctx, rule):
    """A helper whose name says it tests for None (notNone, isNone ...) decides by identity with None. any()/all()/bool() on
    the values are truthiness tests: an element given as 0 (e = 0, h = k = 0, x = 0) then counts as not given, and the
    argument groups of the particle constructor are classified differently from the C parser."""
    import re
    db = pyfront.pydb()
    n = 0
    for rel, tree in sorted(db.files.items()):
        for fn in [x for x in ast.walk(tree) if isinstance(x, ast.FunctionDef)]:
            if not re.search(r'none', fn.name, re.I):
                continue
            n += 1
            mentions = any(isinstance(x, ast.Constant) and x.value is None for x in ast.walk(fn) if not (isinstance(x, ast.Constant) and isinstance(x.value, str)))
            truthy = [x for x in ast.walk(fn) if isinstance(x, ast.Call) and isinstance(x.func, ast.Name) and x.func.id in ('any', 'all', 'bool')]
            if truthy or not mentions:
                ctx.report(rule, '%s:%s' % (rel, fn.name), '%s:%d %s' % (rel, fn.lineno, fn.name),
                           '%s() promises a test for None but %s: arguments that are given as 0 are treated as not given' % (fn.name, 'decides with %s()' % truthy[0].func.id if truthy else 'never mentions None'))
    ctx.covered(rule, 'helpers named after a None test compare with None', n, floor=1)


def rule_c_result_only(ctx, rule, cls='Rotation', prefix='reb_rotation_init_'):
    """Constructors of `cls` that build the object with a C function return nothing but that function's result: a Python-side
    shortcut for a "trivial" input (return cls() for the identity) takes over a decision the C code makes with more care
    (the degenerate directions of a rotation)."""
    db = pyfront.pydb()
    c = db.classes.get(cls)
    anchor(c is not None, 'class %s' % cls)
    n = 0
    for fn in [x for x in c.node.body if isinstance(x, ast.FunctionDef)]:
        calls = [x for x in ast.walk(fn) if isinstance(x, ast.Call) and isinstance(x.func, ast.Attribute) and x.func.attr.startswith(prefix) and pyfront._name(x.func.value) == 'clibrebound']
        if not calls or not any(pyfront._name(d) == 'classmethod' for d in fn.decorator_list):
            continue            # __init__ fills the fields of self and returns nothing
        n += 1
        results = set()
        for st in ast.walk(fn):
            if isinstance(st, ast.Assign) and len(st.targets) == 1 and isinstance(st.targets[0], ast.Name) and st.value in calls:
                results.add(st.targets[0].id)
        for r in [x for x in ast.walk(fn) if isinstance(x, ast.Return)]:
            v = r.value
            ok = (v in calls) or (isinstance(v, ast.Name) and v.id in results)
            if not ok:
                ctx.report(rule, '%s.%s:return' % (cls, fn.name), '%s:%d %s.%s' % (c.path, r.lineno, cls, fn.name),
                           '%s.%s builds its result with %s but this return hands back %s instead: for the inputs that take this way out the C construction (and its handling of degenerate directions) is bypassed' % (cls, fn.name, calls[0].func.attr, ast.unparse(v)[:50] if v is not None else 'None'))
    ctx.covered(rule, 'constructors of %s that call clibrebound.%s* return only the C result' % (cls, prefix), n, floor=3)


def rule_undefined_names(ctx, rule, skip_files=('rebound/horizons.py', 'rebound/plotting.py', 'rebound/widget.py')):
    """Names a function loads are bound somewhere: its parameters, its own assignments (incl. for/with/except/import
    targets, comprehensions), an enclosing function, the module, or the builtins. A name that is bound nowhere is a
    NameError on the path that reaches it (Simulation.from_simulationarchive passed `filename`, which it does not have)."""
    import builtins
    import symtable
    db = pyfront.pydb()
    n = 0
    b = set(dir(builtins)) | {'__file__', '__name__', '__doc__', 'unicode', 'basestring', 'long', 'xrange', 'raw_input', 'reload', 'file', 'WindowsError',
                           'display', 'get_ipython'}       # IPython puts these into the builtins of a notebook session
    from ..core import REPO
    import os
    for rel in sorted(db.files):
        if rel in skip_files:
            continue
        src = open(os.path.join(REPO, rel), encoding='utf-8').read()
        try:
            top = symtable.symtable(src, rel, 'exec')
        except SyntaxError as e:
            raise AnalysisError('%s: cannot build the symbol table of %s: %s' % (rule, rel, e))
        module_names = {s.get_name() for s in top.get_symbols() if s.is_assigned() or s.is_imported() or s.is_namespace()}
        star = any(isinstance(x, ast.ImportFrom) and any(a.name == '*' for a in x.names) for x in ast.walk(db.files[rel]))

        def visit(tab, outer):
            nonlocal n
            for ch in tab.get_children():
                if ch.get_type() == 'function':
                    n += 1
                    for s in ch.get_symbols():
                        if s.is_global() and s.is_referenced() and not s.is_assigned():
                            nm = s.get_name()
                            if nm in module_names or nm in b or nm in outer or star:
                                continue
                            ctx.report(rule, '%s:%s:%s' % (rel, ch.get_name(), nm), '%s:%d %s' % (rel, ch.get_lineno(), ch.get_name()),
                                       'the function uses the name %s, which is bound neither in the function, nor in an enclosing scope, nor at module level, nor a builtin: the path that reaches it raises NameError' % nm)
                    visit(ch, outer | {s.get_name() for s in ch.get_symbols() if s.is_local() or s.is_parameter()})
                else:
                    visit(ch, outer)
        visit(top, set())
    ctx.covered(rule, 'functions of the Python layer: every global name they load is bound at module level or is a builtin', n, floor=200)


def rule_keyword_constructor(ctx, rule, cls='Simulation', keywords=('filename',)):
    """`cls.__init__` declares keyword parameters (filename, snapshot) and `__new__` does the work from *args / **kw. The
    early "no arguments: new empty object" exit of __new__ must not be taken when the keyword is given - otherwise
    Simulation(filename=f) and the classmethods built on it return an empty simulation instead of the file's content."""
    db = pyfront.pydb()
    c = db.classes.get(cls)
    anchor(c is not None and isinstance(c.defs.get('__new__'), ast.FunctionDef) and isinstance(c.defs.get('__init__'), ast.FunctionDef), '%s.__new__ and __init__' % cls)
    new, init = c.defs['__new__'], c.defs['__init__']
    declared = [a.arg for a in init.args.args[1:]]
    n = 0
    for kwd in keywords:
        if kwd not in declared:
            continue
        n += 1
        moved_before = None
        for st in new.body:
            src = ast.unparse(st)
            if isinstance(st, ast.If) and ast.unparse(st.test).replace(' ', '') in ('len(args)==0', 'notargs', 'len(args)<1') and any(isinstance(x, ast.Return) for x in ast.walk(st)):
                if kwd in src or 'kw' in ast.unparse(st.test) or moved_before:
                    break
                ctx.report(rule, '%s.__new__:%s' % (cls, kwd), '%s:%d %s.__new__' % (c.path, st.lineno, cls),
                           '__init__ declares the keyword %s, but __new__ returns a new empty %s as soon as no positional argument is given, before it looks at kw[%r]: %s(%s=...) silently ignores the argument' % (kwd, cls, kwd, cls, kwd))
                break
            if ('kw' in src and kwd in src and 'args' in src) and isinstance(st, (ast.If, ast.Assign)):
                moved_before = st
    ctx.covered(rule, 'keywords declared by %s.__init__ are honoured by __new__ before its "no arguments" exit' % cls, n, floor=1)
