"""Rules over the Python layer that several properties share.

* selector truthiness: an argument that selects something by number (a snapshot, an index, a hash) may legitimately be 0;
  testing it by truthiness (`if not snapshot`, `snapshot or -1`) turns the request for number 0 into "not given".
* wrapper state: the Python objects are views of C-owned state. Whatever a method of such a class stores on `self` that is
  not a member of the C struct lives outside the simulation: it is neither saved, copied, compared nor invalidated when the
  C state changes. The attributes in use today are confirmed one by one (keep-alive references for callbacks and buffers,
  back-references); any other attribute written from a method is reported.
* thin wrappers: a function of rebound/tools.py that hands its arguments to the C function of the same name returns nothing
  but that call - a Python-side shortcut for "easy" arguments makes the two front ends differ in the last bits.
"""
import ast

from ..core import AnalysisError, anchor
from .. import pyfront

SELECTORS = ('snapshot', 'index', 'hash', 'key', 'blob', 'i')


def _truthiness_operands(test):
    """bare names whose truth value decides `test`"""
    out = []
    if isinstance(test, ast.Name):
        out.append(test)
    elif isinstance(test, ast.UnaryOp) and isinstance(test.op, ast.Not):
        out += _truthiness_operands(test.operand)
    elif isinstance(test, ast.BoolOp):
        for v in test.values:
            out += _truthiness_operands(v)
    return out


def rule_selector_truthiness(ctx, rule, classes, names=SELECTORS):
    """In the methods of `classes`, names that select by number are never tested by truthiness."""
    db = pyfront.pydb()
    n = 0
    for cname in classes:
        c = db.classes.get(cname)
        anchor(c is not None, 'class %s' % cname)
        for fn in [x for x in c.node.body if isinstance(x, ast.FunctionDef)]:
            mname = fn.name
            # what the name can hold: a selector only if it is a parameter, or assigned from an argument / kw lookup
            for node in ast.walk(fn):
                tests = []
                if isinstance(node, (ast.If, ast.While, ast.IfExp)):
                    tests.append(node.test)
                elif isinstance(node, ast.BoolOp) and not any(isinstance(p_, (ast.If, ast.While, ast.IfExp)) and p_.test is node for p_ in ast.walk(fn)):
                    # `x = snapshot or -1`
                    tests.append(ast.BoolOp(op=node.op, values=node.values[:-1])) if len(node.values) > 1 else None
                for t in tests:
                    for nm in _truthiness_operands(t):
                        if nm.id in names:
                            n += 1
                            ctx.report(rule, '%s.%s:%s' % (cname, mname, nm.id), '%s:%d %s.%s' % (c.path, nm.lineno, cname, mname),
                                       '%s selects by number and is tested by truthiness: the legitimate value 0 (the first snapshot, particle 0, hash 0) is treated as "not given"' % nm.id)
            for node in ast.walk(fn):
                if isinstance(node, ast.Compare) and isinstance(node.left, ast.Name) and node.left.id in names:
                    n += 1
            n += 1
    ctx.covered(rule, 'selector arguments (%s) in %s are never tested by truthiness' % ('/'.join(names), ', '.join(classes)), n, floor=5)


# attributes that methods of the wrapper classes store on self today, each confirmed by reading
WRAPPER_STATE_OK = {
    'Simulation': {
        '_afp': 'keep-alive reference of the additional_forces callback wrapper',
        '_corfp': 'keep-alive reference of the coefficient_of_restitution callback wrapper',
        '_colrfp': 'keep-alive reference of the collision_resolve callback wrapper',
        '_pretmp': 'keep-alive reference of the pre_timestep_modifications callback wrapper',
        '_posttmp': 'keep-alive reference of the post_timestep_modifications callback wrapper',
        '_hb': 'keep-alive reference of the heartbeat callback wrapper',
        '_fpa': 'keep-alive reference of the free_particle_ap callback wrapper',
        '_extras_ref': 'back-reference that keeps the REBOUNDx object alive',
        '_widgets': 'display widgets (no simulation state)',
        '_odes': 'keep-alive list of ODE objects handed to C',
    },
}


def rule_wrapper_state(ctx, rule, classes=('Simulation', 'Particles', 'Particle', 'Orbit', 'Rotation')):
    """Methods of the classes that wrap C-owned state store nothing on self except members of the C struct, properties with a
    setter, and the confirmed keep-alive references."""
    db = pyfront.pydb()
    n = 0
    samples = []
    for cname in classes:
        c = db.classes.get(cname)
        if c is None:
            continue
        fields = set()
        if c.fields_ast is not None:
            for el in c.fields_ast.elts:
                if isinstance(el, ast.Tuple) and el.elts and isinstance(el.elts[0], ast.Constant):
                    fields.add(el.elts[0].value)
        settable = {k for k, v in c.props.items() if v.get('set') is not None}
        # attributes initialised by the constructor with a constant or an argument are the object's identity, not a cache
        ctor = set()
        for mname in ('__init__', '__new__'):
            f0 = c.defs.get(mname)
            if isinstance(f0, ast.FunctionDef):
                params = {a.arg for a in f0.args.args}
                for st in ast.walk(f0):
                    if isinstance(st, ast.Assign):
                        for t in st.targets:
                            if isinstance(t, ast.Attribute) and isinstance(t.value, ast.Name) and t.value.id in ('self', 'sim') \
                                    and (isinstance(st.value, ast.Name) and st.value.id in params):
                                ctor.add(t.attr)
        allowed = WRAPPER_STATE_OK.get(cname, {})
        for fn in [x for x in c.node.body if isinstance(x, ast.FunctionDef)]:
            mname = fn.name
            selfname = fn.args.args[0].arg if fn.args.args else None
            if selfname is None:
                continue
            for st in ast.walk(fn):
                targets = []
                if isinstance(st, ast.Assign):
                    targets = st.targets
                elif isinstance(st, (ast.AugAssign, ast.AnnAssign)):
                    targets = [st.target]
                for t in targets:
                    for tt in (t.elts if isinstance(t, (ast.Tuple, ast.List)) else [t]):
                        if isinstance(tt, ast.Attribute) and isinstance(tt.value, ast.Name) and tt.value.id == selfname:
                            n += 1
                            a = tt.attr
                            if a in fields or a in settable or ('_' + a) in fields or a in ctor:
                                continue
                            if a in allowed:
                                if len(samples) < 4:
                                    samples.append('%s.%s: %s' % (cname, a, allowed[a]))
                                continue
                            ctx.report(rule, '%s.%s:%s' % (cname, mname, a), '%s:%d %s.%s' % (c.path, tt.lineno, cname, mname),
                                       'the method stores %s.%s, which is neither a member of the C struct nor a confirmed keep-alive reference: state kept on the Python object is not saved, copied or compared with the simulation and is not invalidated when the C state changes (a cached value goes stale)' % (selfname, a))
    ctx.covered(rule, 'attributes stored on the wrapper objects by their methods: C struct members, settable properties, constructor identity, confirmed keep-alive references', n, floor=20, samples=samples)


def rule_thin_wrappers(ctx, rule, relpath='rebound/tools.py'):
    """A module-level function f that calls clibrebound.reb_f returns nothing but that call."""
    db = pyfront.pydb()
    tree = db.files.get(relpath)
    anchor(tree is not None, relpath)
    n = 0
    for fn in tree.body:
        if not isinstance(fn, ast.FunctionDef):
            continue
        own = 'reb_' + fn.name
        calls = [x for x in ast.walk(fn) if isinstance(x, ast.Call) and isinstance(x.func, ast.Attribute) and x.func.attr == own and pyfront._name(x.func.value) == 'clibrebound']
        if not calls:
            continue
        n += 1
        for r in [x for x in ast.walk(fn) if isinstance(x, ast.Return)]:
            v = r.value
            ok = isinstance(v, ast.Call) and isinstance(v.func, ast.Attribute) and v.func.attr == own
            if not ok:
                ctx.report(rule, '%s:return' % fn.name, '%s:%d %s' % (relpath, r.lineno, fn.name),
                           '%s() hands its arguments to the C function %s but also returns %s without calling it: for those arguments the Python front end no longer computes what the C front end computes (results differ in the last bits)'
                           % (fn.name, own, ast.unparse(v)[:60] if v is not None else 'None'))
    ctx.covered(rule, 'functions of %s that wrap the C function of the same name return only its result' % relpath, n, floor=3)


INTERNAL_FLAG = r'^(recalculate_\w+|is_synchronized)$'


def rule_internal_flags(ctx, rule):
    """The integrators' bookkeeping members (is_synchronized, recalculate_*_this_timestep ...) are owned by the C code:
    it raises them where the particles change and clears them where the internal coordinates are rebuilt. The Python layer
    reads them and never writes them - a setter that raises them "to be safe" forces a rebuild of internal state that is
    not lossless (JANUS re-derives its integer coordinates from the rounded floating point copy; an unsynchronised WHFast
    state would be discarded). Expected count of writes: zero; the reads found are the positive control."""
    import re
    db = pyfront.pydb()
    reads = writes = 0
    for rel, tree in sorted(db.files.items()):
        for node in ast.walk(tree):
            targets = []
            if isinstance(node, ast.Assign):
                targets = node.targets
            elif isinstance(node, (ast.AugAssign, ast.AnnAssign)):
                targets = [node.target]
            flat = []
            for t in targets:
                flat += list(t.elts) if isinstance(t, (ast.Tuple, ast.List)) else [t]
            for t in flat:
                if isinstance(t, ast.Attribute) and re.match(INTERNAL_FLAG, t.attr):
                    writes += 1
                    ctx.report(rule, '%s:%s' % (rel, t.attr), '%s:%d' % (rel, t.lineno),
                               'the Python layer assigns %s: the flag belongs to the C integrator, which raises it exactly where the particles change; raising it from Python makes the next step rebuild the integrator\'s internal coordinates from the rounded particle data (not a no-op: JANUS loses its exact integer state, an unsynchronised state is dropped)' % ast.unparse(t))
            if isinstance(node, ast.Call) and isinstance(node.func, ast.Name) and node.func.id == 'setattr' and len(node.args) >= 2 \
                    and isinstance(node.args[1], ast.Constant) and isinstance(node.args[1].value, str) and re.match(INTERNAL_FLAG, node.args[1].value):
                writes += 1
                ctx.report(rule, '%s:%s' % (rel, node.args[1].value), '%s:%d' % (rel, node.lineno), 'the Python layer sets %s through setattr' % node.args[1].value)
            if isinstance(node, ast.Attribute) and isinstance(node.ctx, ast.Load) and re.match(INTERNAL_FLAG, node.attr):
                reads += 1
    anchor(reads >= 3, 'reads of is_synchronized / recalculate_* in the Python layer (positive control, found %d)' % reads)
    ctx.covered(rule, 'the Python layer reads the integrators\' bookkeeping flags (%d reads) and never writes them' % reads, reads + writes, floor=3)
