"""C06 - every archive snapshot equals the live state when taken: static necessary conditions on the delta encoder,
the append protocol, the index walk and the cadence bookkeeping."""
import re

from ..core import AnalysisError, anchor
from .. import cfront, normal
from ..cfront import walk, strip, callee_name, call_args, render, line_of, is_assign, qtype
from . import bytesacct, serial


def _deref(txt):
    """(&blob).x and (*p).x written by helper inlining read as blob.x / p.x"""
    return re.sub(r'\(?[&*]\(?(\w+)\)?\)?\.', r'\1.', txt)


def rule_append_protocol(ctx):
    tu = cfront.load_tu('simulationarchive.c')
    fn = tu.func('reb_simulation_save_to_file')
    # the append branch is the else-branch of `if (stat(...) < 0)`
    app = None
    for n in walk(cfront.body(fn)):
        if n.get('kind') == 'IfStmt' and 'stat(' in render(n['inner'][0]) and len(n['inner']) > 2:
            app = n['inner'][2]
    anchor(app is not None, 'reb_simulation_save_to_file: if (stat(filename) < 0) {create} else {append}')
    events = []   # in source order: ('write', what, length), ('set', lvalue, rhs), ('seek'...)
    from .. import normal
    from . import extents
    helpers = {f_['name']: f_ for f_ in normal.with_new_helpers(tu, 'reb_simulation_save_to_file')[1:]}
    L = extents.lets(fn)
    for h_ in helpers.values():
        for k_, v_ in extents.lets(h_).items():
            L.setdefault(k_, v_)

    def stream(node, depth=0):
        """nodes in source order, with the bodies of helpers split off from the function spliced in at their call sites"""
        for e in walk(node):
            yield e
            if e.get('kind') == 'CallExpr' and callee_name(e) in helpers and depth < 3:
                yield from stream(cfront.body(helpers[callee_name(e)]), depth + 1)
    for e in stream(app):
        if e.get('kind') == 'CallExpr':
            nm = callee_name(e)
            a = call_args(e)
            if nm == 'fwrite':
                what = strip(a[0], casts=True)
                ty = qtype(what)
                tag = 'other'
                if 'reb_simulationarchive_blob' in ty:
                    tag = 'trailer'
                elif 'struct reb_binary_field' in ty:
                    tag = 'header'
                elif render(what) == 'buf_diff' or ('char' in ty and 'diff' in render(what)):
                    tag = 'delta'
                ln = render(a[1])
                if render(a[2]) != '1':
                    ln = '(%s*%s)' % (ln, render(a[2]))
                events.append(('write', tag, ln, line_of(e)))
            elif nm in ('fseek', 'fread', 'reb_binary_diff', 'reb_simulation_warning', 'reb_simulation_save_to_stream'):
                events.append(('call', nm, render(e), line_of(e)))
        elif is_assign(e):
            events.append(('set', _deref(render(e['inner'][0])), _deref(render(e['inner'][1])), line_of(e), e['opcode']))
        elif e.get('kind') == 'UnaryOperator' and e.get('opcode') in ('++',):
            events.append(('set', _deref(render(e['inner'][0])), _deref(render(e['inner'][0])) + '+1', line_of(e), '++'))
    # events are made unique by their position (inlined helper statements all carry the line of the call site)
    events = [ev + (k_,) for k_, ev in enumerate(events)]
    writes = [ev for ev in events if ev[0] == 'write']
    n = 0
    where = 'src/simulationarchive.c reb_simulation_save_to_file (append branch)'
    order = [w[1] for w in writes]
    n += 1
    if sorted(order) != sorted(['trailer', 'delta', 'header', 'trailer']):
        raise AnalysisError('R06.2: the writes of the append path (%s) are not recognised as [trailer, delta, END header, trailer] - the path was restructured beyond what the rule can follow' % order)
    if order != ['trailer', 'delta', 'header', 'trailer']:
        ctx.report('R06.2', 'append:order', where, 'the append writes are %s, not [previous trailer (in place), delta, END header, new trailer]' % order)
        ctx.covered('R06.2', 'append protocol', n, floor=1)
        return
    i0 = events.index(writes[0])
    i3 = events.index(writes[3])
    # value stored in the patched offset_next = bytes written between the two trailer writes
    sets_before = [ev for ev in events[:i0] if ev[0] == 'set' and ev[1] == 'blob.offset_next']
    n += 1
    between = '+'.join(sorted([writes[1][2], writes[2][2]]))
    if not sets_before:
        ctx.report('R06.2', 'append:offset_next', where, 'offset_next of the previous trailer is not updated before it is rewritten')
    else:
        def terms(x):
            x = x.replace('int32_t', '').replace('(', '').replace(')', '').replace(' ', '')
            return sorted(x.split('+'))
        if terms(sets_before[-1][2]) != terms(between):
            ctx.report('R06.2', 'append:offset_next:value', where,
                       'the previous trailer records offset_next = %s but %s bytes are written before the next trailer: the index walk lands inside the snapshot' % (sets_before[-1][2], between))
    # END header between delta and trailer has size 0 and type end
    mids = [ev for ev in events[events.index(writes[1]):events.index(writes[2])] if ev[0] == 'set']
    n += 1
    if not any(ev[1].endswith('field.size') and ev[2] == '0' for ev in mids) or not any(ev[1].endswith('field.type') and 'fd_end' in extents.resolve(ev[2], L) for ev in mids):
        ctx.report('R06.2', 'append:end', where, 'the header written after the delta is not the END marker with size 0 (%s)' % [(ev[1], ev[2]) for ev in mids])
    # new trailer
    last = [ev for ev in events[events.index(writes[2]):i3] if ev[0] == 'set']
    n += 1
    d = {ev[1]: (ev[2], ev[4]) for ev in last}
    d = {k_.split('.', 1)[-1] if k_.count('.') > 1 else k_: v_ for k_, v_ in d.items()}
    d = {('blob.' + k_.split('.')[-1]) if k_.split('.')[-1] in ('offset_prev', 'offset_next', 'index') else k_: v_ for k_, v_ in d.items()}
    if d.get('blob.offset_prev', ('',))[0].split('.')[-1] != 'offset_next':
        ctx.report('R06.2', 'append:offset_prev', where, 'the new trailer does not record offset_prev = size of the snapshot just written (%s)' % (d.get('blob.offset_prev'),))
    if d.get('blob.offset_next', ('',))[0] != '0':
        ctx.report('R06.2', 'append:last', where, 'the new trailer is not marked as the last one (offset_next = 0)')
    if 'blob.index' not in d:
        ctx.report('R06.2', 'append:index', where, 'the snapshot index of the new trailer is not incremented')
    keys = [ev[1] for ev in last]
    if 'blob.offset_prev' in keys and 'blob.offset_next' in keys and keys.index('blob.offset_prev') > [i for i, k in enumerate(keys) if k == 'blob.offset_next'][-1]:
        ctx.report('R06.2', 'append:prev-after-reset', where, 'offset_prev is copied from offset_next after offset_next was reset to 0')
    # every write is dominated by the corruption check and the seek to the last valid blob
    calls_before = [ev[1] for ev in events[:i0] if ev[0] == 'call']
    n += 1
    if 'reb_binary_diff' not in calls_before:
        ctx.report('R06.2', 'append:diff', where, 'the delta is not computed by reb_binary_diff against the first snapshot')
    txt = ' '.join(ev[2] for ev in events[:i0] if ev[0] == 'call' and ev[1] == 'fseek')
    if 'last_blob' not in txt:
        ctx.report('R06.2', 'append:repair', where, 'a corrupt tail is not skipped (no seek to the last valid trailer) before appending')
    sets_fc = [ev for ev in events[:i0] if ev[0] == 'set' and ev[1] == 'file_corrupt']
    if len(sets_fc) < 3:
        # how the tail is validated is not pinned down by this rule (flags, helper functions, merged conditions are all fine):
        # when the three original tests are not found in their original form the rule cannot tell a reduced check from a rewritten one
        ctx.note('R06.2 tail validation before appending is not in the form the rule knows (%d assignments of file_corrupt): not decided' % len(sets_fc))
    ctx.covered('R06.2', 'append protocol: write order, patched offset_next == bytes written before the next trailer, END marker, new trailer, repair before append', n, floor=5,
                samples=['writes: %s' % [(w[1], w[2]) for w in writes], 'offset_next = %s' % (sets_before[-1][2] if sets_before else None)])


def rule_reader(ctx):
    tu = cfront.load_tu('simulationarchive.c')
    n = 0
    # R06.3 checksum shape
    fn = normal.normalised_function(tu.func('reb_read_simulationarchive_from_stream_with_messages'), guards=False)   # while-with-counter == for
    conds = [render(x['inner'][0]).replace(' ', '') for x in walk(cfront.body(fn)) if x.get('kind') == 'IfStmt']
    n += 1
    ok = any('blob.offset_prev' in c and 'blobsize' in c and 'ftell' in c and 'sa.offset[i]' in c and '!=' in c for c in conds)
    if not ok:
        ctx.report('R06.3', 'index:checksum', 'src/simulationarchive.c reb_read_simulationarchive_from_stream_with_messages',
                   'the index walk no longer compares offset_prev + sizeof(trailer) with the distance from the start of the snapshot')
    # growth of the index arrays: the growth test must be satisfiable inside the loop
    for loop in walk(cfront.body(fn)):
        if loop.get('kind') != 'ForStmt':
            continue
        hdr = render(loop['inner'][2]) if loop['inner'][2] and loop['inner'][2].get('kind') else ''
        m = re.match(r'^\((\w+)<(\w+)\)$', hdr.replace(' ', ''))
        if not m:
            continue
        var, bound = m.groups()
        for ifs in walk(loop['inner'][-1]):
            if ifs.get('kind') != 'IfStmt':
                continue
            c = render(ifs['inner'][0]).replace(' ', '')
            grows = any(is_assign(e) and render(e['inner'][0]) == bound for e in walk(ifs['inner'][1]))
            if not grows:
                continue
            n += 1
            where = 'src/simulationarchive.c:%s reb_read_simulationarchive_from_stream_with_messages' % line_of(ifs)
            if c in ('(%s==%s)' % (var, bound), '(%s>=%s)' % (var, bound), '(%s>%s)' % (var, bound)):
                ctx.report('R06.3', 'index:growth', where,
                           'the index arrays are grown under %s, which can never hold inside "for (%s<%s)": the index silently stops at %s snapshots' % (c, var, bound, bound))
            elif c != '(%s==(%s-1))' % (var, bound):
                ctx.note('R06.3 growth test %s (loop %s) not in a recognised form' % (c, hdr))
            # arrays that are written with index var must all be reallocated
            reallocs = {render(e['inner'][0]) for e in walk(ifs['inner'][1]) if is_assign(e) and 'realloc' in render(e['inner'][1])}
            written = set()
            for e in walk(loop['inner'][-1]):
                if e.get('kind') == 'ArraySubscriptExpr' and render(e['inner'][1]) == var:
                    written.add(render(e['inner'][0]))
            for w in sorted(written - reallocs):
                if w.startswith('sa.'):
                    ctx.report('R06.3', 'index:growth:' + w, where, 'array %s is indexed by %s but not grown together with the others' % (w, var))
    # R06.4 snapshot k = first snapshot overlaid with delta k
    fn = tu.func('reb_simulation_create_from_simulationarchive_with_messages')
    seq = []
    for e in walk(cfront.body(fn)):
        if e.get('kind') == 'CallExpr' and callee_name(e) in ('fseek', 'reb_input_fields', 'reb_simulation_init', 'memset', 'reb_simulation_free_pointers'):
            seq.append((callee_name(e), render(e)))
    n += 1
    names = [s[0] for s in seq]
    where = 'src/simulationarchive.c reb_simulation_create_from_simulationarchive_with_messages'
    if names.count('reb_input_fields') != 2:
        ctx.report('R06.4', 'load:overlay', where, 'loading a snapshot is not "read the first snapshot, then overlay the delta" (%d calls of reb_input_fields)' % names.count('reb_input_fields'))
    else:
        i1 = names.index('reb_input_fields')
        i2 = len(names) - 1 - names[::-1].index('reb_input_fields')
        seeks = [s for s in seq if s[0] == 'fseek']
        if not (seeks and 'inf,0,' in seeks[0][1].replace(' ', '') and names.index('fseek') < i1):
            ctx.report('R06.4', 'load:first', where, 'the first read does not start at offset 0')
        if not any('sa.offset[snapshot]' in s[1] for s in seq[i1:i2] if s[0] == 'fseek'):
            ctx.report('R06.4', 'load:delta', where, 'the second read does not start at sa->offset[snapshot]')
        if 'reb_simulation_init' not in names[:i1]:
            ctx.report('R06.4', 'load:init', where, 'the target simulation is not re-initialised before the first snapshot is read')
    ctx.covered('R06.3', 'index walk: trailer checksum, satisfiable growth of the index arrays; snapshot load = first snapshot + delta', n, floor=3,
                samples=['load sequence: %s' % names])


def rule_cadence(ctx):
    tu = cfront.load_tu('simulationarchive.c')
    fn = tu.func('reb_simulationarchive_heartbeat')
    n = 0
    samples = []
    # three mode branches, in whatever nesting: under (auto_X != 0) and (next_Y <= now) the list { next_Y += auto_X; save }
    from . import pathcond
    pcs = pathcond.conditions(fn)
    for comp in walk(cfront.body(fn)):
        if comp.get('kind') != 'CompoundStmt':
            continue
        items = comp.get('inner', [])
        saves = [i for i, st in enumerate(items) if strip(st).get('kind') == 'CallExpr' and callee_name(strip(st)) == 'reb_simulation_save_to_file']
        if not saves:
            continue
        conds = pcs.get(id(items[saves[0]]), [])
        modes_ = [m_.group(1) for c_ in conds for m_ in [re.search(r'r\.simulationarchive_auto_(\w+)', c_)] if m_ and not c_.startswith('!')]
        if not modes_:
            continue
        mode = modes_[-1]
        n += 1
        where = 'src/simulationarchive.c:%s reb_simulationarchive_heartbeat (mode %s)' % (line_of(items[saves[0]]), mode)
        tests = [c_ for c_ in conds if 'simulationarchive_next' in c_]
        test = tests[-1] if tests else ''
        stm = []
        for st in items:
            s_ = strip(st)
            if is_assign(s_):
                stm.append(('set', render(s_['inner'][0]), s_['opcode'], render(s_['inner'][1])))
            elif s_.get('kind') == 'CallExpr' and callee_name(s_) == 'reb_simulation_save_to_file':
                stm.append(('save',))
        sets = [s_ for s_ in stm if s_[0] == 'set']
        key = 'heartbeat:' + mode
        if len(sets) != 1 or ('save',) not in stm:
            ctx.report('R06.5', key + ':shape', where, 'the branch is not "advance next; save" (%s)' % stm)
            continue
        _, nxt, op, rhs = sets[0]
        if nxt not in test:
            ctx.report('R06.5', key + ':next', where, 'the branch tests %s but advances %s' % (test, nxt))
        if op != '+=' or 'r.simulationarchive_auto_' + mode not in rhs:
            ctx.report('R06.5', key + ':step', where, '%s is advanced by %s %s, not by its own cadence simulationarchive_auto_%s' % (nxt, op, rhs, mode))
        if stm.index(('save',)) < stm.index(sets[0]):
            ctx.report('R06.5', key + ':order', where, 'the snapshot is written before %s is advanced: the stored state still has the old deadline, so a run restarted from this snapshot writes it again' % nxt)
        want_next = 'r.simulationarchive_next_step' if mode == 'step' else 'r.simulationarchive_next'
        if nxt != want_next:
            ctx.report('R06.5', key + ':member', where, 'mode %s advances %s instead of %s' % (mode, nxt, want_next))
        samples.append('%s: test %s; %s %s %s; save' % (mode, test, nxt, op, rhs))
    anchor(n == 3, 'three cadence modes in reb_simulationarchive_heartbeat (found %d)' % n)
    # setters: only reset `next` when their own cadence changes
    for fname, mode, nxt, now in (('reb_simulation_save_to_file_interval', 'interval', 'r.simulationarchive_next', 'r.t'),
                                  ('reb_simulation_save_to_file_step', 'step', 'r.simulationarchive_next_step', 'r.steps_done')):
        f = tu.func(fname)
        n += 1
        where = 'src/simulationarchive.c %s' % fname
        param = cfront.params(f)[-1]['name']
        from . import pathcond
        pcs = pathcond.conditions(f)           # if / else nesting and negated early returns alike
        assigns_ = [(render(e['inner'][0]), render(e['inner'][1]), e) for e in walk(cfront.body(f)) if is_assign(e) and e['opcode'] == '=']
        resets = [(l, r_, e) for l, r_, e in assigns_ if l == nxt]
        if not resets:
            ctx.report('R06.5', 'setter:%s:next' % mode, where, 'the first deadline %s is never set' % nxt)
            continue
        want = {'r.simulationarchive_auto_%s!=%s' % (mode, param), '%s!=r.simulationarchive_auto_%s' % (param, mode),
                '!(r.simulationarchive_auto_%s==%s' % (mode, param), '!(%s==r.simulationarchive_auto_%s' % (param, mode),
                '!r.simulationarchive_auto_%s==%s' % (mode, param)}
        for l, r_, e in resets:
            cs = [c.replace(' ', '').strip('()') for c in pcs.get(id(e), [])]
            if not any(c in want for c in cs):
                other = [c for c in cs if 'simulationarchive_auto' in c or re.search(r'(?<![\w.])%s(?![\w(])' % re.escape(param), c)]
                if other:
                    ctx.report('R06.5', 'setter:%s:compare' % mode, where, 'the guard compares %s, not the %s cadence with the requested %s' % (other[0], mode, param))
                else:
                    ctx.report('R06.5', 'setter:%s:guard' % mode, where, 'the deadline is reset unconditionally: a run restarted from an archive re-arms the cadence and duplicates or skips snapshots')
            if r_ != now:
                ctx.report('R06.5', 'setter:%s:next' % mode, where, 'the first deadline is %s = %s, not %s = %s' % (nxt, r_, nxt, now))
        if not any(l == 'r.simulationarchive_auto_' + mode and r_ == param for l, r_, e in assigns_):
            ctx.report('R06.5', 'setter:%s:store' % mode, where, 'the requested cadence is not stored in simulationarchive_auto_%s' % mode)
        samples.append('%s: %s reset under %s' % (fname, nxt, [c for c in pcs.get(id(resets[0][2]), [])][-1:]))
    # the heartbeat is called before every step and once after the loop
    tu2 = cfront.load_tu('rebound.c')
    f = tu2.func('reb_simulation_integrate_raw')
    n += 1
    top = cfront.body(f).get('inner', [])
    from .. import normal
    li, _cond, _items = normal.main_loop(top, 'reb_simulation_step')
    anchor(li is not None, 'the loop of reb_simulation_integrate_raw that calls reb_simulation_step')
    def calls(nodes):
        return [callee_name(e) for s in nodes for e in walk(s) if e.get('kind') == 'CallExpr']
    inloop = calls(_items)
    if 'reb_simulationarchive_heartbeat' not in inloop or inloop.index('reb_simulationarchive_heartbeat') > inloop.index('reb_simulation_step'):
        ctx.report('R06.5', 'integrate:heartbeat-before-step', 'src/rebound.c reb_simulation_integrate_raw', 'the archive heartbeat does not run before each step')
    if 'reb_simulationarchive_heartbeat' not in calls(top[li + 1:]):
        ctx.report('R06.5', 'integrate:heartbeat-after-loop', 'src/rebound.c reb_simulation_integrate_raw', 'the archive heartbeat does not run once more after the loop (the final time is never snapshotted)')
    ctx.covered('R06.5', 'cadence bookkeeping: per mode test/advance/save agree and the deadline is advanced before the snapshot; setters re-arm only on change; heartbeat placement', n, floor=6, samples=samples)


def rule_index_arrays(ctx):
    """R06.7: the index of an archive is a set of parallel arrays (time, offset) with one entry per accepted snapshot. A
    snapshot after the first is a delta: any field may be absent from it. Every index array therefore needs, in the
    per-snapshot loop, a write of entry i that does not depend on a particular field being present (a default, or a value
    computed from the file position) before the snapshot is accepted (nblobs = i+1)."""
    from .c16 import c08_conditions
    tu = cfront.load_tu('simulationarchive.c')
    fn = normal.normalised_function(tu.func('reb_read_simulationarchive_from_stream_with_messages'), guards=False)   # while-with-counter == for
    arrays = set()
    for e in walk(cfront.body(fn)):
        if is_assign(e) and e['opcode'] == '=':
            rhs = strip(e['inner'][1], casts=True)
            if rhs.get('kind') == 'CallExpr' and callee_name(rhs) in ('malloc', 'realloc') and 'nblobsmax' in render(rhs):
                lv = strip(e['inner'][0])
                if lv.get('kind') == 'MemberExpr':
                    arrays.add(lv['name'])
    anchor(len(arrays) >= 2, 'index arrays sized by nblobsmax in the archive reader (found %s)' % sorted(arrays))
    n = 0
    samples = []
    loops = [f for f in walk(cfront.body(fn)) if f.get('kind') == 'ForStmt' and any(is_assign(x) and render(x['inner'][0]).replace(' ', '') == 'sa.nblobs' for x in walk(f))]
    anchor(len(loops) == 1, 'the per-snapshot loop of the index walk (assigns sa->nblobs)')
    loop = loops[0]
    lv_ = None
    for d in walk(loop['inner'][0] or {}):
        if d.get('kind') == 'VarDecl':
            lv_ = d['name']
    anchor(lv_ is not None, 'loop variable of the index walk')
    conds = c08_conditions(fn)
    for arr in sorted(arrays):
        n += 1
        uncond = []
        any_write = False
        for e in walk(loop['inner'][-1]):
            tgt = None
            if is_assign(e) and e['opcode'] == '=':
                tgt = strip(e['inner'][0])
            elif e.get('kind') == 'CallExpr' and callee_name(e) == 'fread' and call_args(e):
                a0 = strip(call_args(e)[0], casts=True)
                while a0.get('kind') in ('UnaryOperator', 'ParenExpr') and a0.get('inner'):
                    a0 = strip(a0['inner'][0], casts=True)
                tgt = a0
            if tgt is None or tgt.get('kind') != 'ArraySubscriptExpr':
                continue
            base = strip(tgt['inner'][0], casts=True)
            if base.get('kind') != 'MemberExpr' or base['name'] != arr or render(tgt['inner'][1]).replace(' ', '') != lv_:
                continue
            any_write = True
            stack = conds.get(id(e), [])
            if not any('field.type' in c.replace(' ', '') or 'field' in c and 'type' in c for c in stack):
                uncond.append(line_of(e))
        where = 'src/simulationarchive.c:%s reb_read_simulationarchive_from_stream_with_messages' % line_of(loop)
        if not any_write:
            raise AnalysisError('R06.7: index array %s is never written for entry %s in the per-snapshot loop' % (arr, lv_))
        if not uncond:
            ctx.report('R06.7', 'index:%s:default' % arr, where,
                       'sa->%s[%s] is only written when a particular field is present in the delta snapshot; a snapshot without that field (its value equals the first snapshot\'s) leaves the entry as malloc returned it' % (arr, lv_))
        else:
            samples.append('%s: sa->%s[%s] written independently of the fields present (line %s)' % (where, arr, lv_, uncond[0]))
    ctx.covered('R06.7', 'archive index: every per-snapshot array has a field-independent write of entry i before the snapshot is accepted', n, floor=2, samples=samples)


def rule_index_growth(ctx, rule='R06.8'):
    """R06.8: loops that fill an array whose capacity is their own bound (`for (i = 0; i < cap; i++)`) and enlarge it inside
    the body must enlarge it in the last iteration the bound admits, i.e. the growth test has to hold for i = cap - 1
    (with the assignments that precede it in the body taken into account). Otherwise the loop ends by exhausting the
    capacity while there is more to read: an archive with more snapshots than the initial capacity is silently cut."""
    from . import symexec
    import sympy as sp
    n = 0
    samples = []
    for cfile in ('simulationarchive.c', 'input.c', 'output.c'):
        tu = cfront.load_tu(cfile)
        for fname in sorted(tu.funcs):
            fn = tu.func(fname)
            if cfront.body(fn) is None:
                continue
            fn = normal.normalised_function(fn, guards=False)
            for loop in walk(cfront.body(fn)):
                if loop.get('kind') != 'ForStmt' or not loop['inner'][2]:
                    continue
                c = strip(loop['inner'][2])
                if not (c.get('kind') == 'BinaryOperator' and c.get('opcode') == '<'):
                    continue
                iv, cap = strip(c['inner'][0], casts=True), strip(c['inner'][1], casts=True)
                if iv.get('kind') != 'DeclRefExpr' or cap.get('kind') != 'DeclRefExpr':
                    continue
                capn, ivn = cap['referencedDecl']['name'], iv['referencedDecl']['name']
                body = loop['inner'][-1]
                items = body.get('inner', []) if body.get('kind') == 'CompoundStmt' else [body]
                grow = None
                for k_, st in enumerate(items):
                    if st.get('kind') == 'IfStmt' and any(is_assign(e) and render(e['inner'][0]) == capn for e in walk(st['inner'][1])) \
                            and any(e.get('kind') == 'CallExpr' and callee_name(e) == 'realloc' for e in walk(st['inner'][1])):
                        grow = (k_, st)
                if grow is None:
                    continue
                n += 1
                k_, st = grow
                state = symexec.State()
                CAP = state.sym(capn)
                state.vals[ivn] = CAP - 1
                for prev in items[:k_]:
                    e = strip(prev)
                    if is_assign(e) and e['opcode'] == '=':
                        try:
                            state.assign(e['inner'][0], '=', e['inner'][1])
                        except (ValueError, KeyError):
                            pass
                g = strip(st['inner'][0])
                where = 'src/%s:%s %s' % (cfile, line_of(st), fname)
                verdict = None
                if g.get('kind') == 'BinaryOperator' and g.get('opcode') in ('==', '>=', '>', '<', '<=', '!='):
                    try:
                        a, b = state.ev(g['inner'][0]), state.ev(g['inner'][1])
                        d = sp.simplify(a - b)
                        if d.is_number:
                            verdict = {'==': d == 0, '>=': d >= 0, '>': d > 0, '<': d < 0, '<=': d <= 0, '!=': d != 0}[g['opcode']]
                    except (ValueError, KeyError):
                        verdict = None
                if verdict is None:
                    raise AnalysisError('%s: growth test %s of the loop over %s < %s at %s is not a comparison that can be decided for %s = %s - 1' % (rule, render(g), ivn, capn, where, ivn, capn))
                if not verdict:
                    ctx.report(rule, '%s:growth:%s' % (fname, capn), where,
                               'the loop runs while %s < %s and enlarges %s only if %s, which is false in the last admitted iteration (%s = %s - 1): the loop ends when the initial capacity is used up and everything beyond it is silently dropped'
                               % (ivn, capn, capn, render(g), ivn, capn))
                samples.append('%s: growth test %s holds for %s = %s - 1' % (where, render(g), ivn, capn))
    ctx.covered(rule, 'loops bounded by a capacity they enlarge themselves: the growth test holds in the last admitted iteration', n, floor=1, samples=samples)


def rule_counter_update(ctx, rule='R06.9'):
    """R06.9: a delta snapshot marks an array that has vanished since the first snapshot with a field of size 0. The reader
    overlays fields on the first snapshot, so for every array field it reads it must set the element counter - to 0 for
    that marker: the store through the pointer computed from the descriptor's offset_N may depend on the field's data
    type only, not on whether (or how many) bytes were read."""
    from . import pathcond
    from .. import normal
    tu = cfront.load_tu('input.c')
    fns = normal.with_new_helpers(tu, 'reb_input_fields')      # the reader and helpers split off from it (one per data type)
    pcs_of = {f_['name']: pathcond.conditions(f_) for f_ in fns}

    def call_conditions(name, depth=0):
        """conditions under which a split-off helper is called (union over its call sites, callers' own call sites included)"""
        out = []
        if depth > 3:
            return out
        for g_ in fns:
            for e_ in walk(cfront.body(g_)):
                if e_.get('kind') == 'CallExpr' and callee_name(e_) == name:
                    out += list(pcs_of[g_['name']].get(id(e_), [])) + call_conditions(g_['name'], depth + 1)
        return out
    n = 0
    any_counter = False
    for fn in fns:
        pcs = pcs_of[fn['name']]
        counters = set()
        for d in walk(cfront.body(fn)):
            if d.get('kind') == 'VarDecl' and 'init' in d and '*' in qtype(d):
                init = [c for c in d.get('inner', []) if c.get('kind') not in ('FullComment',)]
                if init and 'offset_N' in render(init[-1]):
                    counters.add(d['name'])
        if not counters:
            continue
        any_counter = True
        outer = call_conditions(fn['name']) if fn['name'] != 'reb_input_fields' else []
        for e in walk(cfront.body(fn)):
            if not is_assign(e):
                continue
            l0 = strip(e['inner'][0], casts=True)
            if l0.get('kind') == 'UnaryOperator' and l0.get('opcode') == '*' and render(l0['inner'][0]).strip('()') in counters:
                n += 1
                cs = [c.replace(' ', '') for c in list(pcs.get(id(e), [])) + outer]
                other = [c for c in cs if not re.search(r'dtype|\.type==|\.type!=|descriptor_list\[|fd_\w+\.type|REB_FIELD_END|numread|fread', c) and 'found' not in c]
                # conditions that select the descriptor row / data type are the dispatch; anything else makes the update conditional
                other = [c for c in other if re.search(r'success|size|read|ok|ret', c)]
                if other:
                    ctx.report(rule, 'input:counter:conditional', 'src/input.c:%s %s' % (line_of(e), fn['name']),
                               'the element counter of an array field is only updated under %s: a field of size 0 (an array that vanished since the first snapshot) leaves the counter of the first snapshot in place, so the loaded snapshot keeps arrays the live simulation no longer had' % other)
    anchor(any_counter, 'reb_input_fields: pointer to the element counter (descriptor offset_N)')
    anchor(n >= 1, 'stores to the element counter in reb_input_fields')
    ctx.covered(rule, 'element counters of array fields are stored for every field read, whatever its size', n, floor=1)


def rule_empty_delta(ctx, rule='R06.10'):
    """R06.10: appended snapshots are stored as the difference to the first one. reb_binary_diff returns an empty buffer
    (NULL, 0 bytes) when nothing differs - a state equal to the first snapshot is still a snapshot and must be appended
    (an empty delta plus its trailer). Nothing on the append path may bail out, or skip the write, on the diff buffer being
    NULL or its size being 0."""
    from .. import normal
    tu = cfront.load_tu('simulationarchive.c')
    fns = normal.with_new_helpers(tu, 'reb_simulation_save_to_file')
    diffvars = set()
    for f_ in fns:
        for e in walk(cfront.body(f_)):
            if e.get('kind') == 'CallExpr' and callee_name(e) == 'reb_binary_diff':
                a = call_args(e)
                for x in a[4:6]:
                    diffvars.add(render(x).replace('&', '').replace('(', '').replace(')', '').replace('*', '').strip())
    # values returned by a helper that returns the diff buffer
    changed = True
    while changed:
        changed = False
        for f_ in fns:
            rets = [render(x['inner'][0]).strip('()') for x in walk(cfront.body(f_)) if x.get('kind') == 'ReturnStmt' and x.get('inner')]
            if any(r_ in diffvars for r_ in rets):
                for g_ in fns:
                    for e in walk(cfront.body(g_)):
                        tgt = None
                        if is_assign(e) and strip(e['inner'][1], casts=True).get('kind') == 'CallExpr' and callee_name(strip(e['inner'][1], casts=True)) == f_['name']:
                            tgt = render(e['inner'][0])
                        if e.get('kind') == 'VarDecl' and 'init' in e:
                            init = [c for c in e.get('inner', []) if c.get('kind') not in ('FullComment',)]
                            if init and strip(init[-1], casts=True).get('kind') == 'CallExpr' and callee_name(strip(init[-1], casts=True)) == f_['name']:
                                tgt = e['name']
                        if tgt and tgt not in diffvars:
                            diffvars.add(tgt)
                            changed = True
    anchor(diffvars, 'reb_simulation_save_to_file computes the delta with reb_binary_diff')
    n = 0
    for f_ in fns:
        for ifs in walk(cfront.body(f_)):
            if ifs.get('kind') != 'IfStmt':
                continue
            names = {x['referencedDecl']['name'] for x in walk(ifs['inner'][0]) if x.get('kind') == 'DeclRefExpr'}
            if not (names & diffvars):
                continue
            n += 1
            for br in ifs['inner'][1:]:
                if not br.get('kind'):
                    continue
                leaves = [x for x in walk(br) if x.get('kind') == 'ReturnStmt' or (x.get('kind') == 'CallExpr' and callee_name(x) in ('reb_simulation_warning', 'reb_simulation_error'))]
                if leaves:
                    ctx.report(rule, '%s:emptydelta' % f_['name'], 'src/simulationarchive.c:%s %s' % (line_of(ifs), f_['name']),
                               'the append path tests the delta buffer (%s) and leaves or warns: an empty delta - the state equals the first snapshot - is a valid snapshot, dropping it shifts the index of every later one' % render(ifs['inner'][0]))
                    break
    ctx.covered(rule, 'append path: no exit or warning depends on the delta buffer being empty (%s)' % ', '.join(sorted(diffvars)), n + 1, floor=1)


def rule_schedule_direction(ctx, rule='R06.12'):
    """R06.12: the interval schedule of the archive works in both directions of time: simulationarchive_next is advanced by
    sign(dt) * interval, and "a snapshot is due" means sign*next <= sign*t. An ordering comparison between the schedule time
    and the simulation time that is not taken through the same sign factor on both sides is right for one direction only
    (a backward run never sees its snapshots become due). Every such comparison in the library is collected."""
    n = 0
    samples = []
    for cfile, tu in sorted(cfront.load_tus().items()):
        for fname, fn in sorted(tu.funcs.items()):
            if cfront.body(fn) is None or cfront.basename(fn.get('_locfile') or fn.get('_file')) != cfile:
                continue
            for e in walk(cfront.body(tu.func(fname))):
                if e.get('kind') != 'BinaryOperator' or e.get('opcode') not in ('<', '<=', '>', '>='):
                    continue
                a, b = render(e['inner'][0]).replace(' ', ''), render(e['inner'][1]).replace(' ', '')
                sides = (a, b)
                if not any(re.search(r'simulationarchive_next\b(?!_step)', x) for x in sides):
                    continue
                other = b if re.search(r'simulationarchive_next\b(?!_step)', a) else a
                if not re.search(r'(^|[^\w.])r\.t\b', other):
                    continue        # compared with wall-clock time or a step count: no direction
                n += 1
                where = 'src/%s:%s %s' % (cfile, line_of(e), fname)

                def factor(x):
                    m_ = re.match(r'^\(*(\w+)\*', x)
                    return m_.group(1) if m_ else None
                fa, fb = factor(a), factor(b)
                if fa is None or fa != fb:
                    ctx.report(rule, '%s:direction' % fname, where,
                               'the schedule time and the simulation time are compared as %s without a common sign factor: for a negative timestep the comparison points the wrong way and snapshots of a backward integration never become due (or are always due)' % render(e))
                else:
                    samples.append('%s: %s' % (where, render(e)))
    ctx.covered(rule, 'ordering comparisons between simulationarchive_next and r->t carry the sign of the timestep on both sides', n, floor=1, samples=samples)


def run(ctx):
    from . import protocol
    protocol.rule_filename_replaced(ctx, 'R06.14')       # re-arming the archive with another file writes to that file
    protocol.rule_diff_truth_table(ctx, 'R17.10')        # a snapshot is a delta: one-sided NaN is a difference
    from . import edges
    edges.rule_snapshot_index(ctx, 'R06.13')         # snapshot k is snapshot k for every index
    edges.rule_time_direction(ctx, 'R08.12')         # time may be negative and may run backwards: the schedule
    from . import pyrules
    pyrules.rule_keyword_constructor(ctx, 'R05.13')  # Simulation(filename=..., snapshot=k) loads snapshot k
    rule_schedule_direction(ctx)
    from . import pyrules
    pyrules.rule_selector_truthiness(ctx, 'R06.11', ('Simulation', 'Simulationarchive'))   # snapshot 0 is a snapshot
    rule_empty_delta(ctx)
    rule_counter_update(ctx)
    rule_index_growth(ctx)
    rule_index_arrays(ctx)
    bytesacct.rule_writer(ctx, 'R06.1', [('binarydiff.c', 'reb_binary_diff'), ('simulationarchive.c', 'reb_simulation_save_to_file')], floor=4)
    rule_append_protocol(ctx)
    rule_reader(ctx)
    rule_cadence(ctx)
    serial.rule_R05_3(ctx)
    serial.rule_R05_2(ctx)                 # a snapshot is written and read through the descriptor table: each row designates the member it names
    from . import c17
    c17.rule_accumulation(ctx, 'R06.6')   # the delta encoder decides with the same flags which fields changed
    ctx.not_decided.append('arbitrary histories of operations between snapshots; that the index walk accepts every well-formed file; the times array of snapshots whose time equals that of the first')
