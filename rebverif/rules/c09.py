"""C09 - deferred synchronisation never changes the physics: static necessary conditions on the operator words."""
from ..core import AnalysisError, anchor
from .. import cfront, normal
from ..cfront import walk, strip, callee_name, call_args, render, line_of, is_assign
import re
from . import compose as C, x4
from .x4 import Poly

from . import pathcond
from .. import core as _core


def _variants():
    """(label, scheme, base flags, safe flag, sync flag, source) for every scheme that can defer its last half step."""
    out = []
    for kname, kv in C.whfast_kernels():
        for corr in (0, 3, 5, 7, 11, 17):
            for c2 in (0, 1):
                out.append(('whfast:%s:c%d:c2%d' % (kname.replace('REB_WHFAST_KERNEL_', ''), corr, c2), 'whfast',
                            {'r.ri_whfast.kernel': kv, 'r.ri_whfast.corrector': corr, 'r.ri_whfast.corrector2': c2},
                            'r.ri_whfast.safe_mode', 'r.ri_whfast.is_synchronized', 'src/integrator_whfast.c'))
    for tname, tv in C.saba_types():
        out.append(('saba:' + tname, 'saba', {'r.ri_saba.type': tv}, 'r.ri_saba.safe_mode', 'r.ri_saba.is_synchronized', 'src/integrator_saba.c'))
    for tname, tv in C.eos_types():
        out.append(('eos:' + tname, 'eos', {'r.ri_eos.phi0': tv}, 'r.ri_eos.safe_mode', 'r.ri_eos.is_synchronized', 'src/integrator_eos.c'))
    out.append(('mercurius', 'mercurius', {}, 'r.ri_mercurius.safe_mode', 'r.ri_mercurius.is_synchronized', 'src/integrator_mercurius.c'))
    return out


def _run(scheme, flags, actions):
    """Like compose.run but the second WHFast corrector is an opaque one-parameter operator: corrector2(-1) is the
    inverse of corrector2(+1) only to the order of the scheme, not as a word, so it is trusted as such here."""
    if scheme != 'whfast':
        return C.run(scheme, flags, actions)
    s = C.SCHEMES['whfast']
    d = C.db()
    fl = dict(s.base_flags)
    fl.update(flags)
    it = x4.Interp(d['funcs'], d['enums'], d['tabs'], s.ops | {'reb_whfast_apply_corrector2'},
                   (set(s.descend) | C._reaches_ops(s)) - {'reb_whfast_apply_corrector2'}, fl)
    for a in actions:
        if a == 'step':
            it.call(s.part1, ['@r'])
            it.trace.append(('FORCE', []))
            it.call(s.part2, ['@r'])
        else:
            it.call(s.sync, ['@r'])
    return it, None


def _word(scheme, it):
    g = dict(C.SCHEMES[scheme].groups)
    g['corrector2'] = {'reb_whfast_apply_corrector2'}
    out = []
    for nm, args in it.trace:
        for gn in ('drift', 'kick', 'jump', 'encounter', 'corrector', 'corrector2'):
            if gn in g and nm in g[gn] and args:
                out.append((gn, tuple(args)))
    return C.reduce_word(out)


def rule_equivalence(ctx):
    """R09.1/R09.4: k safe-mode steps and k deferred steps followed by one synchronise are the same operator word
    (adjacent applications of one operator added, inverse pairs cancelled), for k = 1, 2, 3; COM drift likewise."""
    n = 0
    samples = []
    for label, scheme, base, fsafe, fsync, src in _variants():
        if ctx.tier == 'quick' and label.startswith('whfast') and ':c5:' in label or ':c7:' in label or ':c11:' in label:
            if ctx.tier == 'quick':
                continue
        for k in (1, 2, 3):
            fs = dict(base)
            fs[fsafe], fs[fsync] = 1, 1
            a, _ = _run(scheme, fs, ('step',) * k)
            fd = dict(base)
            fd[fsafe], fd[fsync] = 0, 1
            b, _ = _run(scheme, fd, ('step',) * k + ('sync',))
            wa, wb = _word(scheme, a), _word(scheme, b)
            n += 1
            key = '%s:k%d' % (label, k)
            if not C.words_equal(wa, wb):
                # locate first difference
                i = 0
                while i < min(len(wa), len(wb)) and C.words_equal([wa[i]], [wb[i]]):
                    i += 1
                ctx.report('R09.1', key, '%s part1/part2/synchronize' % src,
                           '%d deferred step(s) + synchronise is not the same operator sequence as %d safe-mode step(s): first difference at operator %d: safe %s vs deferred %s'
                           % (k, k, i, C.word_str(wa[i:i + 3]), C.word_str(wb[i:i + 3])))
            ta, tb = C.totals(scheme, a.trace), C.totals(scheme, b.trace)
            for g in ('com', 'time'):
                if g in ta and not C.approx_eq(ta[g], tb[g]):
                    ctx.report('R09.1', key + ':' + g, '%s' % src, 'total %s advance differs between safe (%s) and deferred (%s) mode' % (g, ta[g], tb[g]))
            # synchronising twice is synchronising once
            c, _ = _run(scheme, fd, ('step',) * k + ('sync', 'sync'))
            if not C.words_equal(_word(scheme, c), wb) or c.flags.get(fsync) != b.flags.get(fsync):
                ctx.report('R09.2', key + ':idempotent', '%s synchronize' % src, 'a second synchronise applies further operators: %s' % C.word_str(_word(scheme, c)[len(wb):]))
            # after synchronise the integrator is marked synchronised; after a deferred step it is not
            if _p(b.flags.get(fsync)) != 1:
                ctx.report('R09.2', key + ':flag', '%s synchronize' % src, 'is_synchronized is %s after synchronise' % b.flags.get(fsync))
        if len(samples) < 6:
            samples.append('%s: safe word == deferred+sync word (%d operators for 3 steps)' % (label, len(wa)))
    ctx.covered('R09.1', 'option combinations x (1,2,3 steps): reduced operator word of safe mode == deferred mode + synchronise; synchronise idempotent', n, floor=100, samples=samples)


def _p(v):
    if isinstance(v, Poly):
        return int(v.value()) if v.is_const() else None
    return v


def rule_keep_unsynchronized(ctx):
    """R09.3: in every synchronize that supports keep_unsynchronized, the backup memcpy of the Jacobi state precedes
    every operator application, the restore memcpy follows them, both copy the same number of bytes as was
    allocated, and is_synchronized is only set when the state is not restored."""
    sites = [('integrator_whfast.c', 'reb_integrator_whfast_synchronize', 'keep_unsynchronized'),
             ('integrator_saba.c', 'reb_integrator_saba_synchronize', 'keep_unsynchronized')]
    n = 0
    n9 = 0
    samples = []
    for cfile, fname, flag in sites:
        tu = cfront.load_tu(cfile)
        fn = tu.func(fname)
        calls = []   # (line, callee, args rendered)
        for e in walk(cfront.body(fn)):
            if e.get('kind') == 'CallExpr':
                calls.append((line_of(e), callee_name(e), [render(a) for a in call_args(e)]))
        copies = [c for c in calls if c[1] == 'memcpy']
        mallocs = [c for c in calls if c[1] == 'malloc']
        ops = [c for c in calls if c[1] in C.WH_OPS or c[1] in ('reb_whfast_apply_corrector', 'reb_whfast_apply_corrector2', 'reb_saba_corrector_step')]
        anchor(len(copies) == 2 and mallocs, '%s: one backup and one restore memcpy and a scratch malloc' % fname)
        n += 1
        where = 'src/%s %s' % (cfile, fname)
        backup, restore = copies
        # direction: backup copies p_jh into the scratch buffer, restore copies it back
        if not ('p_jh' in backup[2][1] and 'p_jh' in restore[2][0] and backup[2][0] == restore[2][1]):
            ctx.report('R09.3', fname + ':direction', where, 'backup/restore do not copy p_jh to the scratch buffer and back: %s / %s' % (backup[2], restore[2]))
        from . import extents as _ext
        _L = {k_: v_ for k_, v_ in _ext.lets(fn).items()}
        norm = lambda s: _ext.resolve(s, _L).replace('(', '').replace(')', '').replace(' ', '')
        def factors(s):
            return sorted(norm(s).split('*'))
        if factors(backup[2][2]) != factors(restore[2][2]):
            ctx.report('R09.3', fname + ':size', where, 'backup copies %s bytes but restore copies %s bytes' % (backup[2][2], restore[2][2]))
        if factors(mallocs[0][2][0]) != factors(backup[2][2]):
            ctx.report('R09.3', fname + ':alloc', where, 'scratch buffer holds %s bytes but %s bytes are backed up' % (mallocs[0][2][0], backup[2][2]))
        # the state that is saved must be the whole Jacobi array: r->N particles (variational particles included)
        # names that denote r->N in this function: r.N itself and locals initialised with exactly r->N
        allN = {'r.N'}
        for d_ in walk(cfront.body(fn)):
            if d_.get('kind') == 'VarDecl' and 'init' in d_:
                init_ = [c_ for c_ in d_.get('inner', []) if c_.get('kind') not in ('FullComment',)]
                if init_ and render(init_[-1]) == 'r.N':
                    allN.add(d_['name'])
        if not (set(factors(backup[2][2])) & allN):
            ctx.report('R09.3', fname + ':extent', where, 'backup covers %s, not all r->N particles of p_jh (variational particles are advanced by the Kepler step too)' % backup[2][2])
        # the particles handed back are computed from the synchronised copy: every conversion to inertial coordinates reads
        # p_jh before the restore puts the mid-step state back
        readers = [c for c in calls if c[1] and ('_to_inertial' in c[1])]
        anchor(readers, '%s converts the synchronised coordinates to the inertial frame' % fname)
        for c in readers:
            n += 1
            if not (backup[0] < c[0] < restore[0]):
                ctx.report('R09.3', fname + ':order:' + c[1], where,
                           '%s at line %s runs after the restore memcpy (line %s): with keep_unsynchronized the particles are filled from the mid-step state again, so the state handed back lacks the closing operators' % (c[1], c[0], restore[0]))
        for c in ops:
            if not (backup[0] < c[0] < restore[0]):
                ctx.report('R09.3', fname + ':order:' + c[1], where, 'operator %s at line %s is not between the backup (line %s) and the restore (line %s)' % (c[1], c[0], backup[0], restore[0]))
        samples.append('%s: backup line %s, %d operator calls, restore line %s' % (where, backup[0], len(ops), restore[0]))
        # R09.9 (pairing): the scratch buffer is allocated and filled under exactly the path conditions under which it is
        # restored and released. A backup taken on a path that never restores it leaks the buffer on every call and reads
        # p_jh where the guard of the restore (is_synchronized == 0) does not hold, i.e. possibly before p_jh exists.
        pc = pathcond.conditions(fn)
        by = {}
        import re as _re2
        # atoms that are the outcome of a call (`!reb_integrator_whfast_init(r)`, an error return of a helper) guard
        # non-recoverable error exits; they are not part of the pairing
        is_call_atom = lambda a_: bool(_re2.match(r'^!?\(?[A-Za-z_]\w*\(.*\)\)?$', a_))
        for e in walk(cfront.body(fn)):
            if e.get('kind') == 'CallExpr' and callee_name(e) in ('malloc', 'memcpy', 'free'):
                by.setdefault(callee_name(e), []).append(frozenset(a_ for a_ in pc.get(id(e), ()) if not is_call_atom(a_)))
        anchor(len(by.get('malloc', [])) == 1 and len(by.get('free', [])) >= 1, '%s: scratch malloc and free' % fname)
        n9 += 1
        acq, rel = by['malloc'][0], by['free']
        # `if (sync_pj)` is the same test as the condition under which sync_pj was assigned (it starts out as NULL)
        holder = None
        for e in walk(cfront.body(fn)):
            if cfront.is_assign(e) and any(x.get('kind') == 'CallExpr' and callee_name(x) == 'malloc' for x in walk(e['inner'][1])):
                holder = render(e['inner'][0])
        if holder:
            own = lambda cs: frozenset(c_ for c_ in cs if c_ != holder) | (acq if holder in cs else frozenset())
            rel = [own(r_) for r_ in rel]
            by['memcpy'] = [own(c_) for c_ in by['memcpy']]
        if by['memcpy'][0] != acq:
            ctx.report('R09.9', fname + ':backup-cond', where, 'scratch buffer allocated under {%s} but filled under {%s}' % (', '.join(sorted(acq)), ', '.join(sorted(by['memcpy'][0]))))
        if acq not in rel or by['memcpy'][1] != acq:
            ctx.report('R09.9', fname + ':pairing', where,
                       'scratch copy of p_jh is taken under {%s} but restored under {%s} and released under {%s}: on the other paths the buffer leaks and p_jh is read although nothing is to be synchronised (p_jh may not be allocated yet)'
                       % (', '.join(sorted(acq)), ', '.join(sorted(by['memcpy'][1])), ' | '.join(', '.join(sorted(r_)) for r_ in rel)))
        # X4: with keep_unsynchronized=1 the flag stays 0 after synchronise
        scheme = 'whfast' if 'whfast' in fname else 'saba'
        pre = 'r.ri_%s.' % scheme
        it, _ = C.run(scheme, {pre + 'safe_mode': 0, pre + 'is_synchronized': 1, pre + 'keep_unsynchronized': 1, pre + 'type': 0}, ('step', 'sync'))
        n += 1
        if _p(it.flags.get(pre + 'is_synchronized')) != 0:
            ctx.report('R09.3', fname + ':flag', where, 'with keep_unsynchronized the integrator is marked synchronised although its internal state was restored')
    ctx.covered('R09.9', 'keep_unsynchronized scratch buffer: path conditions of malloc and backup memcpy == those of restore memcpy and free', n9, floor=2)
    ctx.covered('R09.3', 'keep_unsynchronized: backup memcpy / operators / restore memcpy ordering, equal byte counts covering all r->N particles, flag untouched', n, floor=4, samples=samples)


def rule_sync_before_callbacks(ctx):
    """R09.5: in reb_simulation_step every call of pre/post_timestep_modifications is preceded by
    reb_simulation_synchronize and followed by setting the recalculation flags."""
    tu = cfront.load_tu('rebound.c')
    fn = tu.func('reb_simulation_step')
    n = 0
    samples = []
    for ifs in walk(cfront.body(fn)):
        if ifs.get('kind') != 'IfStmt':
            continue
        cond = render(ifs['inner'][0])
        if 'timestep_modifications' not in cond:
            continue
        seq = []
        for e in walk(ifs['inner'][1]):
            if e.get('kind') == 'CallExpr':
                nm = callee_name(e)
                if nm is None:
                    nm = 'callback:' + render(e['inner'][0])
                seq.append(nm)
            elif cfront.is_assign(e):
                seq.append('set:' + render(e['inner'][0]))
        n += 1
        cb = [i for i, s in enumerate(seq) if s.startswith('callback:')]
        where = 'src/rebound.c:%s reb_simulation_step' % line_of(ifs)
        if not cb:
            continue
        i = cb[0]
        if 'reb_simulation_synchronize' not in seq[:i]:
            ctx.report('R09.5', 'step:%s:sync' % seq[i], where, 'the user callback %s is invoked without a preceding reb_simulation_synchronize: it sees unsynchronised particles' % seq[i])
        after = seq[i + 1:]
        for flag in ('r.ri_whfast.recalculate_coordinates_this_timestep', 'r.ri_mercurius.recalculate_coordinates_this_timestep'):
            if 'set:' + flag not in after:
                ctx.report('R09.5', 'step:%s:%s' % (seq[i], flag.split('.')[1]), where, 'after the callback %s the flag %s is not set: changes made by the callback are overwritten by the cached Jacobi/heliocentric state' % (seq[i], flag))
        samples.append('%s: %s' % (where, seq))
    ctx.covered('R09.5', 'callback sites in reb_simulation_step: synchronise before, recalculation flags after', n, floor=2, samples=samples)


def _sim_member_of(tname):
    """member of struct reb_simulation whose type is struct <tname>"""
    from .. import layout
    for m in layout.record_layouts()['reb_simulation'].members:
        if '*' not in m.ctype and m.ctype.replace('struct ', '').strip() == tname:
            return m.name
    return None


def _canon_member(e):
    """r.ri_X.member for a MemberExpr reached through r->ri_X, a local pointer to it or a parameter of that struct type"""
    e = strip(e)
    if e.get('kind') != 'MemberExpr':
        return None
    b = strip(e['inner'][0])
    bt = cfront.qtype(b).replace('const', '').replace('struct', '').replace('*', '').replace('restrict', '').strip()
    if bt == 'reb_simulation':
        return 'r.' + e['name']
    host = _sim_member_of(bt)
    if host:
        return 'r.%s.%s' % (host, e['name'])
    return None


def _eval3(c, env):
    """three-valued evaluation of a condition over canonical member paths: True / False / None (not determined).
    Atoms that do not speak about the integrator selection or its deferred-mode flags are the trigger of the site
    (a callback is installed, a particle is being rescaled): they count as true, negated or not."""
    v = _ev(c, env)
    return True if v == 'trigger' else v


def _ev(c, env):
    c = strip(c)
    k = c.get('kind')
    if k == 'UnaryOperator' and c.get('opcode') == '!':
        v = _ev(c['inner'][0], env)
        return v if v in (None, 'trigger') else (not v)
    if k == 'BinaryOperator' and c.get('opcode') in ('&&', '||'):
        a, b = _ev(c['inner'][0], env), _ev(c['inner'][1], env)
        if a == 'trigger' and b == 'trigger':
            return 'trigger'
        a = True if a == 'trigger' else a
        b = True if b == 'trigger' else b
        if c['opcode'] == '&&':
            if a is False or b is False:
                return False
            return True if (a is True and b is True) else None
        if a is True or b is True:
            return True
        return False if (a is False and b is False) else None

    def val(x):
        x = strip(x)
        if x.get('kind') == 'IntegerLiteral':
            return int(x['value'])
        if x.get('kind') == 'DeclRefExpr' and x.get('referencedDecl', {}).get('kind') == 'EnumConstantDecl':
            return x['referencedDecl']['name']
        p_ = _canon_member(x)
        if p_ is not None and _STATE.search(p_):
            return env.get(p_, ('?', p_))
        return ('trigger', None)
    if k == 'BinaryOperator' and c.get('opcode') in ('==', '!='):
        a, b = val(c['inner'][0]), val(c['inner'][1])
        for v in (a, b):
            if isinstance(v, tuple):
                return 'trigger' if v[0] == 'trigger' else None
        return (a == b) if c['opcode'] == '==' else (a != b)
    a = val(c)
    if isinstance(a, tuple):
        return 'trigger' if a[0] == 'trigger' else None
    return bool(a)


import re as _re
_STATE = _re.compile(r'(\.integrator$|safe_mode$|is_synchronized$)')


def rule_cache_invalidation(ctx):
    """R09.10: integrators that keep their own copy of the coordinates between steps (a flag named recalculate_*_this_timestep
    read in part1 next to safe_mode) must be told when anything outside the integrator changes the particles. For every
    function outside the integrator files that raises such a flag, and every integrator that reads it, one of the raising
    sites must be reached when that integrator runs in deferred mode (its safe_mode = 0, synchronised at the site)."""
    itu = cfront.load_tu('integrator.c')
    disp = {}
    p1 = itu.func('reb_integrator_part1')
    for sw in walk(cfront.body(p1)):
        if sw.get('kind') == 'CaseStmt':
            lab = [x for x in walk(sw['inner'][0]) if x.get('kind') == 'DeclRefExpr']
            callee = None
            for x in walk(sw['inner'][-1]):
                if x.get('kind') == 'CallExpr':
                    callee = callee_name(x)
                    break
            if lab and callee:
                disp[lab[0]['referencedDecl']['name']] = callee
    # the same dispatch written as an if-chain: calls under a path condition `<integrator> == CONSTANT`
    pcd = pathcond.conditions(p1, nodes=True)
    for x in walk(cfront.body(p1)):
        if x.get('kind') == 'CallExpr' and callee_name(x):
            for c_ in pcd.get(id(x), []):
                c_ = strip(c_)
                if c_.get('kind') == 'BinaryOperator' and c_.get('opcode') == '==':
                    for side in c_['inner']:
                        side = strip(side, casts=True)
                        if side.get('kind') == 'DeclRefExpr' and side.get('referencedDecl', {}).get('kind') == 'EnumConstantDecl':
                            disp.setdefault(side['referencedDecl']['name'], callee_name(x))
    anchor(len(disp) >= 8, 'reb_integrator_part1: switch over the integrators')
    consumers = {}     # flag -> [(enum, safe_mode path, refuses variational)]
    import glob, os
    files = sorted(os.path.basename(f) for f in glob.glob(os.path.join(_core.REPO, 'src', 'integrator_*.c')))
    part1 = {}
    for f in files:
        try:
            tu = cfront.load_tu(f)
        except Exception:
            continue
        for enum, callee in disp.items():
            if callee in tu.funcs:
                part1[enum] = (f, tu.func(callee))
    for enum, (f, fn) in sorted(part1.items()):
        refuses = False
        for ifs in walk(cfront.body(fn)):
            if ifs.get('kind') != 'IfStmt':
                continue
            cond = ifs['inner'][0]
            mem = [_canon_member(x) for x in walk(cond) if x.get('kind') == 'MemberExpr']
            mem = [m for m in mem if m]
            if any(m == 'r.N_var_config' or m == 'r.N_var' for m in mem) and any(callee_name(x) in ('reb_simulation_error', 'reb_simulation_warning') for x in walk(ifs['inner'][1]) if x.get('kind') == 'CallExpr'):
                refuses = True
            flags = [m for m in mem if _re.search(r'recalculate_\w+_this_timestep$', m) and 'coordinates' in m]
            safe = [m for m in mem if m.endswith('.safe_mode')]
            for fl in flags:
                if safe:
                    consumers.setdefault(fl, {})[enum] = (safe[0], refuses, f)
        # the same decision hoisted into a local (const int recalc = safe_mode || flag): reads anywhere in part1
        allmem = [_canon_member(x) for x in walk(cfront.body(fn)) if x.get('kind') == 'MemberExpr']
        allmem = [m for m in allmem if m]
        fl_any = [m for m in allmem if _re.search(r'recalculate_\w+_this_timestep$', m) and 'coordinates' in m]
        sf_any = [m for m in allmem if m.endswith('.safe_mode')]
        for fl in fl_any:
            if sf_any and enum not in consumers.get(fl, {}):
                # only reads count: the flag must occur outside the left side of an assignment
                lhs = {id(strip(e['inner'][0])) for e in walk(cfront.body(fn)) if cfront.is_assign(e)}
                if any(x.get('kind') == 'MemberExpr' and _canon_member(x) == fl and id(x) not in lhs for x in walk(cfront.body(fn))):
                    consumers.setdefault(fl, {})[enum] = (sf_any[0], refuses, f)
    anchor(len(consumers) >= 2 and sum(len(v) for v in consumers.values()) >= 3, 'integrators that read a recalculate_coordinates flag next to safe_mode in part1')
    n = 0
    samples = []
    for cfile in sorted(os.path.basename(f) for f in glob.glob(os.path.join(_core.REPO, 'src', '*.c'))):
        if cfile.startswith('integrator_') or cfile in ('output.c', 'input.c'):
            continue
        try:
            tu = cfront.load_tu(cfile)
        except Exception:
            continue
        for fname in sorted(tu.funcs):
            fn = tu.func(fname)
            body = cfront.body(fn)
            if body is None:
                continue
            sites = {}
            # sites are grouped by the top-level statement of the function they sit in (one group per callback block)
            for gi, top in enumerate(body.get('inner', []) or []):
                for e in walk(top):
                    if cfront.is_assign(e) and e.get('opcode') == '=':
                        fl = _canon_member(e['inner'][0])
                        if fl in consumers and render(e['inner'][1]) == '1':
                            sites.setdefault((fl, gi), []).append(e)
            if not sites:
                continue
            pc = pathcond.conditions(fn, nodes=True)
            loops_txt = ' '.join(render(l['inner'][2] if l.get('kind') == 'ForStmt' and l['inner'][2] else l['inner'][0]) for l in walk(body) if l.get('kind') in ('ForStmt', 'WhileStmt'))
            for (fl, gi), es in sorted(sites.items()):
                var_only = all(any('N_var_config' in render(c_) for c_ in pc.get(id(e), [])) for e in es) or fname.endswith('_var')
                for enum, (safe, refuses, f) in sorted(consumers[fl].items()):
                    if var_only and refuses:
                        continue
                    pre = safe.rsplit('.', 1)[0]
                    env = {'r.integrator': enum, safe: 0, pre + '.is_synchronized': 1}
                    n += 1
                    verdicts = []
                    for e in es:
                        vs = [_eval3(c_, env) for c_ in pc.get(id(e), [])]
                        verdicts.append(False if any(v is False for v in vs) else (None if any(v is None for v in vs) else True))
                    if not any(v is True for v in verdicts):
                        e = es[0]
                        ctx.report('R09.10', '%s:%s:%s' % (fname, fl.split('.', 1)[1], enum), 'src/%s:%s %s' % (cfile, line_of(e), fname),
                                   '%s changes the particles and raises %s, but not when %s runs with %s = 0 (site conditions: %s): %s keeps advancing its cached coordinates and the change is lost, while safe mode picks it up'
                                   % (fname, fl, enum, safe, ' ; '.join(' && '.join(render(c_) for c_ in pc.get(id(x), [])) or 'unconditional' for x in es), f))
                    samples.append('%s %s under %s: %s' % (fname, fl, enum, verdicts))
    # last-seen-value idiom inside the integrators: `if (seen OP now) { seen = now; ...; flag = 1; }` notices every change of
    # the particle count only with OP `!=` (removals shrink it, additions grow it; both leave the cached coordinates stale)
    n12 = 0
    for f in files:
        try:
            tu = cfront.load_tu(f)
        except Exception:
            continue
        for fname in sorted(tu.funcs):
            fn = tu.func(fname)
            if cfront.body(fn) is None:
                continue
            L = None
            for ifs in walk(cfront.body(fn)):
                if ifs.get('kind') != 'IfStmt':
                    continue
                c = strip(ifs['inner'][0])
                if not (c.get('kind') == 'BinaryOperator' and c.get('opcode') in ('!=', '<', '>', '<=', '>=', '==')):
                    # the comparison may be one operand of a larger condition (a || b): take the first comparison whose two
                    # sides are copied onto each other in the block
                    cands = [x for x in walk(c) if x.get('kind') == 'BinaryOperator' and x.get('opcode') in ('!=', '<', '>', '<=', '>=', '==')]
                    pick = None
                    for x in cands:
                        a_, b_ = render(x['inner'][0]), render(x['inner'][1])
                        if any(cfront.is_assign(e) and e.get('opcode') == '=' and {render(e['inner'][0]), render(e['inner'][1])} == {a_, b_} for e in walk(ifs['inner'][1])):
                            pick = x
                            break
                    if pick is None:
                        continue
                    c = pick
                raises = [e for e in walk(ifs['inner'][1]) if cfront.is_assign(e) and (_canon_member(e['inner'][0]) or '') in consumers and render(e['inner'][1]) == '1']
                if not raises:
                    continue
                if L is None:
                    from . import extents
                    L = extents.lets(fn)
                a, b = render(c['inner'][0]), render(c['inner'][1])
                copies = [e for e in walk(ifs['inner'][1]) if cfront.is_assign(e) and e.get('opcode') == '=' and {render(e['inner'][0]), render(e['inner'][1])} == {a, b}]
                if not copies:
                    continue
                # the block must own a cache of coordinates: it (re)allocates an array of particles
                owns = [e for e in walk(ifs['inner'][1]) if cfront.is_assign(e) and 'struct reb_particle *' in cfront.qtype(e['inner'][0])
                        and any(x.get('kind') == 'CallExpr' and callee_name(x) in ('realloc', 'malloc', 'calloc') for x in walk(e['inner'][1]))]
                if not owns:
                    continue
                n12 += 1
                if c['opcode'] != '!=':
                    ctx.report('R09.10', '%s:lastseen:%s' % (fname, _canon_member(raises[0]['inner'][0]).split('.', 1)[1]), 'src/%s:%s %s' % (f, line_of(ifs), fname),
                               'the cached coordinates are declared stale only when %s %s %s, but the block records the new value as the one last seen: a change of the particle count in the other direction (%s) goes unnoticed and the integrator advances coordinates of particles that no longer exist'
                               % (a, c['opcode'], b, 'a removal' if c['opcode'] in ('<', '<=') else 'an addition'))
    anchor(n12 >= 1, 'last-seen particle count test that raises a recalculate_coordinates flag (WHFast init)')
    n += n12
    ctx.covered('R09.10', 'functions outside the integrators that raise a recalculate_coordinates flag x integrators reading that flag: raised in deferred mode', n, floor=4, samples=samples[:8])


def rule_frames(ctx):
    """R09.6 (MERCURIUS): coordinate-frame typestate over every sequence of step/synchronise calls up to length 4:
    synchronise leaves the particles in the inertial frame, so the next step must convert back before any operator."""
    import itertools
    n = 0
    samples = []
    TO_DH, TO_IN = 'CALL:reb_integrator_mercurius_inertial_to_dh', 'CALL:reb_integrator_mercurius_dh_to_inertial'
    g = C.SCHEMES['mercurius'].groups
    opnames = set().union(*[g[k] for k in ('kick', 'jump', 'com', 'drift', 'encounter')])
    RCRIT = 'set:r.ri_mercurius.recalculate_r_crit_this_timestep=1'
    seqs = [seq for L in (1, 2, 3, 4) for seq in itertools.product(('step', 'sync'), repeat=L)]
    # a request to recompute the critical radii alone (a particle was added or changed size) while a step is pending
    seqs += [('step', RCRIT, 'step'), ('step', RCRIT, 'step', 'sync'), ('step', 'step', RCRIT, 'step'), ('step', RCRIT, 'sync', 'step'), (RCRIT, 'step', 'step')]
    for safe in (0, 1):
        if True:
            for seq in seqs:
                it, _ = C.run('mercurius', {'r.ri_mercurius.safe_mode': safe, 'r.ri_mercurius.is_synchronized': 1,
                                            'r.ri_mercurius.recalculate_coordinates_this_timestep': 1}, seq)
                n += 1
                frame = 'inertial'
                bad = None
                for nm, args in it.trace:
                    if nm == TO_DH:
                        if frame == 'dh':
                            bad = 'inertial_to_dh applied to particles that already are in heliocentric coordinates'
                            break
                        frame = 'dh'
                    elif nm == TO_IN:
                        if frame == 'inertial':
                            bad = 'dh_to_inertial applied to particles that already are in inertial coordinates'
                            break
                        frame = 'inertial'
                    elif nm in opnames and frame != 'dh':
                        bad = 'operator %s is applied while the particles are in the inertial frame' % nm.replace('reb_integrator_mercurius_', '')
                        break
                if bad:
                    ctx.report('R09.6', 'mercurius:frames:safe%d:%s' % (safe, '-'.join(seq)), 'src/integrator_mercurius.c part1/part2/synchronize',
                               'call sequence %s with safe_mode=%d: %s (the conversion flag is not set where the frame changes)' % ('+'.join(seq), safe, bad))
                # whenever the integrator claims to be synchronised, the particles must be in the inertial frame
                if _p(it.flags.get('r.ri_mercurius.is_synchronized')) == 1 and frame != 'inertial' and 'step' in seq:
                    ctx.report('R09.6', 'mercurius:frames:safe%d:%s:end' % (safe, '-'.join(seq)), 'src/integrator_mercurius.c',
                               'after %s the integrator is marked synchronised but the particles are left in heliocentric coordinates' % '+'.join(seq))
    samples.append('mercurius: %d call sequences' % n)
    ctx.covered('R09.6', 'MERCURIUS coordinate-frame typestate over all step/synchronise sequences up to length 4, safe_mode 0/1', n, floor=60, samples=samples)


def rule_python_snapshot_pickup(ctx):
    """R09.7: Simulationarchive.getSimulation hands back a snapshot that may be in the unsynchronised state. The
    keep_unsynchronized switches decide whether synchronize()/integrate() preserve the cached mid-step state; they have
    to be set before the first call that synchronises, in every branch, and both integrators that honour the switch
    (WHFast, SABA) have to receive it."""
    import ast
    from .. import pyfront
    db = pyfront.pydb()
    path = [p for p in db.files if p.endswith('simulationarchive.py')]
    anchor(path, 'rebound/simulationarchive.py')
    tree = db.files[path[0]]
    fn = None
    for node in ast.walk(tree):
        if isinstance(node, ast.FunctionDef) and node.name == 'getSimulation':
            fn = node
    anchor(fn is not None, 'Simulationarchive.getSimulation')
    n = 0
    samples = []

    def blocks(stmts):
        yield stmts
        for st in stmts:
            for fld in ('body', 'orelse', 'finalbody'):
                sub = getattr(st, fld, None)
                if isinstance(sub, list) and sub and isinstance(sub[0], ast.stmt):
                    yield from blocks(sub)

    SYNC = {'synchronize', 'integrate', 'step', 'steps'}
    # integrators whose init refuses keep_unsynchronized together with safe_mode (taken from the C sources)
    refuses = {}
    for cfile, sub in (('integrator_whfast.c', 'ri_whfast'), ('integrator_saba.c', 'ri_saba')):
        tu = cfront.load_tu(cfile)
        for fname, f_ in tu.funcs.items():
            for ifs in walk(cfront.body(f_)):
                if ifs.get('kind') == 'IfStmt':
                    c = render(ifs['inner'][0]).replace(' ', '')
                    if sub + '.keep_unsynchronized==1' in c and sub + '.safe_mode==1' in c and any(callee_name(e) == 'reb_simulation_error' for e in walk(ifs['inner'][1]) if e.get('kind') == 'CallExpr'):
                        refuses[sub] = 'src/%s:%s %s' % (cfile, line_of(ifs), fname)
    anchor(set(refuses) == {'ri_whfast', 'ri_saba'}, 'keep_unsynchronized/safe_mode compatibility tests in the WHFast and SABA init')

    # ---- R09.7: no switch is set on a path on which a synchronising call may already have run (path walk, may-analysis)
    def is_setter(st):
        return isinstance(st, ast.Assign) and any(isinstance(t, ast.Attribute) and t.attr == 'keep_unsynchronized' for t in st.targets)

    def has_sync(st):
        return any(isinstance(c, ast.Call) and isinstance(c.func, ast.Attribute) and c.func.attr in SYNC for c in ast.walk(st))
    all_setters = []
    late = []

    def flow(stmts, synced):
        """returns (may-have-synchronised after the list, list always leaves the function)"""
        for st in stmts:
            if isinstance(st, ast.If):
                s1, t1 = flow(st.body, synced)
                s2, t2 = flow(st.orelse, synced)
                if t1 and t2:
                    return synced, True
                synced = (s1 and not t1) or (s2 and not t2) or (synced and False)
                synced = (False if t1 else s1) or (False if t2 else s2)
                continue
            if isinstance(st, (ast.For, ast.While, ast.With, ast.Try)):
                s1, _ = flow(getattr(st, 'body', []), synced)
                synced = synced or s1
                continue
            if is_setter(st):
                all_setters.append(st)
                if synced:
                    late.append(st)
            if has_sync(st):
                synced = True
            if isinstance(st, (ast.Return, ast.Raise)):
                return synced, True
        return synced, False
    flow(fn.body, False)
    n += 1 + len(all_setters)
    where0 = 'rebound/simulationarchive.py:%d Simulationarchive.getSimulation' % fn.lineno
    if not all_setters:
        ctx.report('R09.7', 'getSimulation:missing', where0, 'getSimulation never sets a keep_unsynchronized switch: a picked-up snapshot is synchronised for good and the continued run is not bit-identical')
    for st in late:
        tgt = ast.unparse(st.targets[0])
        ctx.report('R09.7', 'getSimulation:%s:order' % tgt.split('.')[-2] if '.' in tgt else tgt, 'rebound/simulationarchive.py:%d Simulationarchive.getSimulation' % st.lineno,
                   '%s is assigned on a path on which synchronize()/integrate() may already have run: the synchronisation overwrites the cached mid-step state before the switch takes effect' % tgt)
    if any(has_sync(x) for x in ast.walk(fn) if isinstance(x, ast.stmt)) and all_setters:
        samples.append('%s: %d switch assignments, none after a synchronising call' % (where0, len(all_setters)))

    # ---- R09.8: a switch written as sim.ri_X.keep_unsynchronized is raised only under a test of that integrator
    def setters_in(st, guard, out):
        if isinstance(st, ast.Assign):
            for t in st.targets:
                if isinstance(t, ast.Attribute) and t.attr == 'keep_unsynchronized':
                    out.append((ast.unparse(t.value), guard, st.lineno))
        elif isinstance(st, ast.If):
            g = set(guard)
            for c in ast.walk(st.test):
                if isinstance(c, ast.Compare) and len(c.ops) == 1 and isinstance(c.comparators[0], ast.Constant) and isinstance(c.ops[0], ast.Eq) \
                        and ((isinstance(c.left, ast.Attribute) and c.left.attr == 'integrator') or isinstance(c.left, ast.Name)):
                    g.add(c.comparators[0].value)
                if isinstance(c, ast.Compare) and len(c.ops) == 1 and isinstance(c.ops[0], ast.In) and isinstance(c.comparators[0], (ast.Tuple, ast.List, ast.Set)):
                    g.add('in:' + ','.join(str(e_.value) for e_ in c.comparators[0].elts if isinstance(e_, ast.Constant)))
            for b_ in st.body:
                setters_in(b_, frozenset(g), out)
            for b_ in st.orelse:
                setters_in(b_, guard, out)
        elif isinstance(st, (ast.For, ast.While, ast.With, ast.Try)):
            for b_ in getattr(st, 'body', []):
                setters_in(b_, guard, out)
    found = []
    for st in fn.body:
        setters_in(st, frozenset(), found)
    for k, g, ln in found:
        sub = k.split('.')[-1]
        if sub in refuses:
            n += 1
            if sub[3:] not in g:
                ctx.report('R09.8', 'getSimulation:%s:unguarded' % sub, 'rebound/simulationarchive.py:%s Simulationarchive.getSimulation' % ln,
                           '%s.keep_unsynchronized is set whatever integrator the snapshot uses, but %s refuses keep_unsynchronized=1 while %s.safe_mode is 1 (only the safe_mode of the integrator in use is examined): a snapshot of another Wisdom-Holman integrator cannot be continued'
                           % (k, refuses[sub], sub))
    ctx.covered('R09.7', 'Python getSimulation: keep_unsynchronized of WHFast and SABA set before the first synchronising call in every branch, and only on the integrator whose safe_mode was examined (R09.8)', n, floor=2, samples=samples)


def rule_exact_finish(ctx, rule='R09.11'):
    """R09.11: reb_check_exit shortens the last step of an exact_finish_time integration right after a synchronise. With
    keep_unsynchronized that synchronise is undone and the shortened step starts from the cached mid-step state of the
    full step, so the C code relies on its caller: whoever asks for exact_finish_time = 1 must have switched
    keep_unsynchronized off. Simulationarchive.getSimulation is that caller in the Python layer. The function is
    evaluated for every (mode, integrator, safe_mode, keep_unsynchronized argument) combination."""
    import ast
    from .. import pyfront
    from . import pyeval
    db = pyfront.pydb()
    path = [p for p in db.files if p.endswith('simulationarchive.py')]
    anchor(path, 'rebound/simulationarchive.py')
    fn = None
    for node in ast.walk(db.files[path[0]]):
        if isinstance(node, ast.FunctionDef) and node.name == 'getSimulation':
            fn = node
    anchor(fn is not None, 'Simulationarchive.getSimulation')
    # the synchronise + shortened step in reb_check_exit, and the switches the synchronise routines honour
    tu = cfront.load_tu('rebound.c')
    from .. import normal
    short = [e for ce in normal.with_new_helpers(tu, 'reb_check_exit') for e in walk(cfront.body(ce)) if cfront.is_assign(e) and render(e['inner'][0]) == 'r.dt']
    anchor(short, 'reb_check_exit shortens r->dt for exact_finish_time')
    # the accepted modes: every string the parameter `mode` is compared with, directly or through a named list/dict
    named = {}
    for a_ in ast.walk(fn):
        if isinstance(a_, ast.Assign) and len(a_.targets) == 1 and isinstance(a_.targets[0], ast.Name):
            named[a_.targets[0].id] = a_.value
    modes = []

    def strings(node, depth=0):
        if isinstance(node, ast.Constant) and isinstance(node.value, str):
            return [node.value]
        if isinstance(node, (ast.List, ast.Tuple, ast.Set)):
            return [x for e_ in node.elts for x in strings(e_, depth)]
        if isinstance(node, ast.Dict):
            return [x for k_ in node.keys for x in strings(k_, depth)]
        if isinstance(node, ast.Name) and node.id in named and depth < 3:
            return strings(named[node.id], depth + 1)
        if isinstance(node, ast.Call) and node.args and depth < 3:
            return strings(node.args[0], depth + 1) if not isinstance(node.func, ast.Attribute) else strings(node.func.value, depth + 1)
        return []
    for c in ast.walk(fn):
        if isinstance(c, ast.Compare) and isinstance(c.left, ast.Name) and c.left.id == 'mode':
            for cmp_ in c.comparators:
                for v_ in strings(cmp_):
                    if v_ not in modes:
                        modes.append(v_)
    anchor(len(modes) >= 3, 'getSimulation: accepted modes (strings the mode argument is compared with)')
    subs = {'whfast': 'sim.ri_whfast', 'saba': 'sim.ri_saba'}
    n = 0
    bad = {}
    samples = []
    for integ in ('whfast', 'saba', 'mercurius', 'ias15'):
        dom = {'mode': modes, 'keep_unsynchronized': [0, 1], 'sim.integrator': [integ], 't': [pyeval.UNK]}
        for sub in ('sim.ri_whfast', 'sim.ri_saba', 'sim.ri_mercurius'):
            dom[sub + '.safe_mode'] = [0, 1] if sub.endswith(integ) else [1]
        for env, r in pyeval.paths(fn, dom, late={'sim'}):
            for ln, callee, kw, snap in r.events:
                if not callee.endswith('.integrate'):
                    continue
                n += 1
                eft = kw.get('exact_finish_time', 0)
                if integ in subs and eft == 0 and (subs[integ] + '.keep_unsynchronized') not in snap:
                    bad.setdefault((ln, integ), []).append('mode=%s: %s.keep_unsynchronized is never assigned - the caller\'s keep_unsynchronized argument does not reach the integrator in use' % (env['mode'], subs[integ]))
                if eft == 0 or integ not in subs:
                    continue
                kkey = subs[integ] + '.keep_unsynchronized'
                if kkey not in snap:
                    bad.setdefault((ln, integ), []).append('mode=%s: %s is never assigned before integrate() - the switch of the integrator in use keeps whatever the snapshot stored' % (env['mode'], kkey))
                    continue
                keep = snap.get(kkey, pyeval.UNK)
                if keep is pyeval.UNK:
                    raise AnalysisError('%s: the value getSimulation stores in %s.keep_unsynchronized (mode=%s) is not a constant the evaluator can follow' % (rule, subs[integ], env['mode']))
                if keep != 0:
                    bad.setdefault((ln, integ), []).append('mode=%s keep_unsynchronized=%s safe_mode=%s -> exact_finish_time=%s with %s.keep_unsynchronized=%s'
                                                           % (env['mode'], env['keep_unsynchronized'], env[subs[integ] + '.safe_mode'], eft, subs[integ], keep))
        samples.append('%s: evaluated' % integ)
    for (ln, integ), why in sorted(bad.items()):
        ctx.report(rule, 'getSimulation:exact:%s' % integ, 'rebound/simulationarchive.py:%s Simulationarchive.getSimulation' % ln,
                   'integrate(..., exact_finish_time=1) is reached with keep_unsynchronized still on (%s; %d combinations): reb_check_exit (src/rebound.c:%s) shortens the last step after a synchronise that is undone, so the shortened step starts from the mid-step state of the full step'
                   % (why[0], len(why), line_of(short[0])))
    ctx.covered(rule, 'getSimulation evaluated over mode x integrator x safe_mode x keep_unsynchronized: exact_finish_time=1 only with the switch off', n, floor=16, samples=samples)


def rule_discarded_updates(ctx, rule='R09.12'):
    """R09.12: with keep_unsynchronized a function saves the cached coordinates, synchronises them, uses the result and puts
    the saved copy back. The operators applied by the synchronise call are meant to be undone - but an update written
    directly into the cache between the two copies (the explicit half step of the variational centre of mass in WHFast's
    part2) is undone with them. Every direct compound assignment to the saved buffer between backup and restore must be
    applied again after the restore."""
    from . import extents
    n = 0
    samples = []
    for cfile in ('integrator_whfast.c', 'integrator_saba.c', 'integrator_mercurius.c', 'integrator_eos.c'):
        tu = cfront.load_tu(cfile)
        for fname in sorted(tu.funcs):
            fn = tu.func(fname)
            b = cfront.body(fn)
            if b is None:
                continue
            L = extents.lets(fn)
            R_ = lambda e: extents.canon(extents.resolve(render(e), L)).replace('&', '')
            copies = [(line_of(e), R_(call_args(e)[0]), R_(call_args(e)[1])) for e in walk(b) if e.get('kind') == 'CallExpr' and callee_name(e) == 'memcpy' and len(call_args(e)) == 3]
            for (l1, d1, s1) in copies:
                for (l2, d2, s2) in copies:
                    if l2 > l1 and d2 == s1 and s2 == d1:
                        buf = s1
                        n += 1
                        between, after = [], []
                        for e in walk(b):
                            if cfront.is_assign(e) and e['opcode'] in ('+=', '-=', '*=', '/='):
                                l0 = strip(e['inner'][0], casts=True)
                                base = l0
                                while base.get('kind') in ('MemberExpr', 'ArraySubscriptExpr'):
                                    base = strip(base['inner'][0], casts=True)
                                if R_(base) == buf or R_(base).startswith(buf):
                                    txt = render(e).replace(' ', '')
                                    if l1 < line_of(e) < l2:
                                        between.append((txt, line_of(e)))
                                    elif line_of(e) > l2:
                                        after.append(txt)
                        for txt, ln in between:
                            if txt not in after:
                                ctx.report(rule, '%s:discarded:%s' % (fname, txt[:40]), 'src/%s:%s %s' % (cfile, ln, fname),
                                           'the update %s is written into %s between its backup (line %s) and its restore (line %s) and is not applied again afterwards: with keep_unsynchronized it is lost every step' % (txt, buf, l1, l2))
                        samples.append('src/%s %s: %s saved at line %s, restored at line %s, %d direct update(s) in between' % (cfile, fname, buf, l1, l2, len(between)))
    ctx.covered(rule, 'direct updates of a saved-and-restored coordinate cache are re-applied after the restore', n, floor=3, samples=samples)


def rule_sync_inputs(ctx, rule='R09.13'):
    """R09.13: integrate() resets some members of the simulation every time it is called (r->dt_last_done = 0 before the
    loop: "no step taken yet in this call"). A synchronisation completes the step that was left open, possibly during an
    earlier call of integrate(); what it computes must therefore not be read from a member that integrate() has reset in
    between - the pending half kick would be taken with step size 0. Effect/def-use rule: the members assigned a literal
    before the main loop of reb_simulation_integrate_raw are not read by any synchronize function of an integrator (or by a
    function it calls in its file)."""
    tus = cfront.load_tus()
    tu = tus['rebound.c']
    fns = normal.with_new_helpers(tu, 'reb_simulation_integrate_raw')
    reset = {}
    for fn in fns:
        for st in cfront.body(fn).get('inner', []):
            if st.get('kind') in ('WhileStmt', 'ForStmt', 'DoStmt') and any(x.get('kind') == 'CallExpr' and callee_name(x) == 'reb_simulation_step' for x in walk(st)):
                break
            e = strip(st)
            if is_assign(e) and e['opcode'] == '=' and strip(e['inner'][1], casts=True).get('kind') in ('FloatingLiteral', 'IntegerLiteral'):
                m = re.match(r'^r\.(\w+)$', render(e['inner'][0]).replace(' ', ''))
                if m:
                    reset[m.group(1)] = line_of(e)
    anchor(reset, 'members reset by reb_simulation_integrate_raw before its loop')
    disp = tus['integrator.c'].func('reb_simulation_synchronize') if 'reb_simulation_synchronize' in tus['integrator.c'].funcs else None
    anchor(disp is not None, 'reb_simulation_synchronize in integrator.c')
    targets = sorted({callee_name(e) for e in walk(cfront.body(disp)) if e.get('kind') == 'CallExpr' and (callee_name(e) or '').endswith('_synchronize')})
    anchor(len(targets) >= 5, 'synchronize functions dispatched by reb_simulation_synchronize (found %s)' % targets)
    n = 0
    for fname in targets:
        cfile = next((c for c, t_ in tus.items() if fname in t_.funcs and cfront.body(t_.funcs[fname]) is not None and cfront.basename(t_.funcs[fname].get('_locfile') or t_.funcs[fname].get('_file')) == c), None)
        if cfile is None:
            continue
        t_ = tus[cfile]
        seen, todo = set(), [(fname, 0)]
        while todo:
            f_, d_ = todo.pop()
            if f_ in seen or f_ not in t_.funcs or cfront.body(t_.funcs[f_]) is None:
                continue
            seen.add(f_)
            for e in walk(cfront.body(t_.func(f_))):
                if e.get('kind') == 'CallExpr' and callee_name(e) in t_.funcs and d_ < 3 and cfront.basename(t_.funcs[callee_name(e)].get('_locfile') or t_.funcs[callee_name(e)].get('_file')) == cfile:
                    todo.append((callee_name(e), d_ + 1))
        for f_ in sorted(seen):
            body_ = cfront.body(t_.func(f_))
            written = {id(strip(a_['inner'][0])) for a_ in walk(body_) if is_assign(a_) and a_['opcode'] == '='}
            for e in walk(body_):
                if e.get('kind') == 'MemberExpr' and e.get('name') in reset and render(e).replace(' ', '') == 'r.' + e['name'] and id(e) not in written:
                    n += 1
                    ctx.report(rule, '%s:%s' % (f_, e['name']), 'src/%s:%s %s (reached from %s)' % (cfile, line_of(e), f_, fname),
                               'the synchronisation reads r->%s, which reb_simulation_integrate_raw sets to %s at the start of every call (src/rebound.c:%s): a step left open by one call of integrate() and completed in the next is completed with the reset value'
                               % (e['name'], '0', reset[e['name']]))
        n += 1
    ctx.covered(rule, 'synchronize functions do not read members that integrate() resets on entry (%s)' % ', '.join(sorted(reset)), n, floor=5)


def run(ctx):
    from . import protocol
    protocol.rule_corrector_typestate(ctx, 'R01.14')     # the corrector is undone exactly by its inverse
    protocol.rule_integrator_conjuncts(ctx, 'R07.13')
    from . import c08 as _c08
    _c08.rule_exit_machine(ctx)     # R08.2/R08.3: the state is synchronised before the last step is shortened
    from . import serial as _serial
    _serial.rule_R05_2(ctx)         # R05.2: the synchronisation flags are saved under their own name
    from . import pyrules
    pyrules.rule_internal_flags(ctx, 'R10.11')     # selecting modules never discards an unsynchronised state
    from . import c19
    c19.rule_serving_is_readonly(ctx)     # R19.4: saving or copying an unsynchronised simulation does not change it
    rule_sync_inputs(ctx)
    rule_python_snapshot_pickup(ctx)
    rule_exact_finish(ctx)
    rule_frames(ctx)
    rule_equivalence(ctx)
    rule_keep_unsynchronized(ctx)
    rule_sync_before_callbacks(ctx)
    rule_cache_invalidation(ctx)
    rule_discarded_updates(ctx)
    ctx.not_decided.append('rounding-level equality of merged and split drifts; the EOS truncation claim; WHFast512 (AVX512 build is not the analysed configuration in the quick tier)')
