"""X1 - component isomorphism: the x, y and z statements of a vector formula must be the same formula under an
axis permutation (parallel x->y->z or the 3-cycle), decided by tree renaming and, failing that, by polynomial identity."""
import re

from ..core import AnalysisError
from .. import cfront
from ..cfront import strip, walk, toks, render, qtype, is_assign, line_of, callee_name, call_args

AXES = 'xyz'
PAR = [{'x': 'y'}, {'y': 'z'}]                       # statement1->2, statement2->3 (parallel)
CYC = {'x': 'y', 'y': 'z', 'z': 'x'}                 # same map for both steps (cross products)
IJK = [{'i': 'j'}, {'j': 'k'}]
TRANS = [{'x': 'y', 'y': 'x'}, {'y': 'z', 'z': 'y'}]  # symmetric tensor rows

# Functions whose component formulas are anisotropic by design (function -> reason). Out of scope for X1.
# Functions that are only partly anisotropic are checked; their anisotropic stanzas are listed in ANISOTROPIC_GROUPS.
ANISOTROPIC = {
    'operator_H012': 'SEI epicycle solution treats x,y,z differently',
    'reb_rotation_init_orbit': 'Euler angles',
    'reb_rotation_init_angle_axis': 'axis-angle',
    'reb_rotation_to_orbital': 'Euler angles',
    'reb_rotation_init_from_to': 'degenerate-axis selection is per component by design',
    'reb_rotation_init_to_new_axes': 'constructs a frame',
    'reb_display_init': 'graphics',
    'reb_rotation_to_mat4df': 'matrix entries xx,xy,xz are not a vector triple',
}


def _lv_name(lv):
    """(base, name) of an lvalue tuple: member name or identifier; base is the rest (hashable)."""
    if lv[0] == 'mem':
        return lv[1], lv[2][1]
    if lv[0] == 'id':
        return ('<local>',), lv[1]
    return None


def _axis_pos(n1, n2, n3):
    """Position at which three equal-length names carry x,y,z (and agree elsewhere), else None."""
    if not (len(n1) == len(n2) == len(n3)):
        return None
    pos = [i for i in range(len(n1)) if not (n1[i] == n2[i] == n3[i])]
    if len(pos) != 1:
        return None
    i = pos[0]
    if (n1[i], n2[i], n3[i]) == ('x', 'y', 'z'):
        return i
    return None


def statements(comp):
    """Flatten a CompoundStmt into (line, lvalue toks, op, rhs toks, node) or None per statement."""
    out = []
    for st in comp.get('inner', []):
        k = st.get('kind')
        if k == 'DeclStmt':
            for d in st.get('inner', []):
                if d.get('kind') == 'VarDecl':
                    init = [c for c in d.get('inner', []) if c.get('kind') not in ('FullComment',)]
                    if init and 'init' in d:
                        out.append((line_of(d) or line_of(st), ('id', d['name']), '=', toks(init[-1]), d))
                    else:
                        out.append(None)
                else:
                    out.append(None)
        else:
            s = strip(st)
            if is_assign(s):
                out.append((line_of(s), toks(s['inner'][0]), s['opcode'], toks(s['inner'][1]), s))
            else:
                out.append(None)
    return out


def vocabulary(fn, extra=()):
    """(identifier names, member names) visible in the function: renaming never leaves its own name space."""
    ids, mems = set(), set(extra)
    for n in walk(fn):
        k = n.get('kind')
        if k == 'DeclRefExpr':
            ids.add(n['referencedDecl']['name'])
        elif k == 'MemberExpr':
            mems.add(n['name'])
        elif k in ('VarDecl', 'ParmVarDecl') and n.get('name'):
            ids.add(n['name'])
    return ids, mems


MEMBER_VOCAB = {'x', 'y', 'z', 'vx', 'vy', 'vz', 'ax', 'ay', 'az', 'mx', 'my', 'mz', 'ix', 'iy', 'iz',
                'N_ghost_x', 'N_ghost_y', 'N_ghost_z', 'N_root_x', 'N_root_y', 'N_root_z',
                'mxx', 'mxy', 'mxz', 'myy', 'myz', 'mzz'}


def _sym_canon(name, vocab):
    """dydx -> dxdy when only the sorted spelling exists (symmetric tensor names)."""
    if name in vocab:
        return name
    pos = [i for i, ch in enumerate(name) if ch in AXES]
    if len(pos) == 2:
        a, b = pos
        sw = list(name)
        sw[a], sw[b] = sw[b], sw[a]
        sw = ''.join(sw)
        if sw in vocab:
            return sw
    return None


def rename_name(name, amap, vocab, kind):
    """Image of an identifier/member under an axis map, kept only if it is a name of the same name space.
    A permutation (transposition, 3-cycle) replaces all mapped letters at once; the parallel map x->y replaces
    exactly one occurrence."""
    if name in amap and len(name) == 1:
        return amap[name] if (amap[name] in vocab or kind == 'mem') else name
    if len(amap) > 1:
        c = ''.join(amap.get(ch, ch) for ch in name)
        if c != name:
            c2 = _sym_canon(c, vocab)
            if c2:
                return c2
    cands = []
    for i, ch in enumerate(name):
        if ch in amap:
            c = name[:i] + amap[ch] + name[i + 1:]
            if c in vocab and c != name:
                cands.append(c)
    if len(cands) == 1:
        return cands[0]
    if len(cands) > 1:
        # prefer the last position (vx, ddx, N_ghost_x all carry the axis last)
        return cands[-1]
    return name


def rename_tree(t, amap, vocab, ijk=None, dig=None, additive=False):
    """additive: we are at an additive position of a subscript / shift count, where a literal offset may progress
    0->1->2 (x0[3*k+0], x0[3*k+1], ...); multiplicative factors (the 3 or 6 stride) never change."""
    k = t[0]
    if k in ('id', 'fld'):
        n = t[1]
        voc = vocab[0] if k == 'id' else vocab[1]
        if ijk and len(n) == 1 and n in ijk:
            return (k, ijk[n])
        if ijk and k == 'id' and len(n) > 1 and n[0] in ijk and (ijk[n[0]] + n[1:]) in voc:
            return (k, ijk[n[0]] + n[1:])      # i_cell -> j_cell -> k_cell: the same coupled index family under a common suffix
        r = rename_name(n, amap, voc, 'id' if k == 'id' else 'mem')
        if dig == 'names' and k == 'id' and r == n:
            m_ = re.match(r'^(.*?)(\d)$', n)
            if m_:
                c = m_.group(1) + str(int(m_.group(2)) + 1)
                if c in voc:
                    r = c
        return (k, r)
    if k == 'lit':
        if dig and dig != 'names' and additive and re.match(r'^\d+$', t[1]):
            return ('lit', str(int(t[1]) + 1))
        return t
    if k == 'idx':
        return ('idx', rename_tree(t[1], amap, vocab, ijk, dig, False), rename_tree(t[2], amap, vocab, ijk, dig, True))
    if k == 'bin' and t[1] in ('<<', '>>'):
        return ('bin', t[1], rename_tree(t[2], amap, vocab, ijk, dig, False), rename_tree(t[3], amap, vocab, ijk, dig, True))
    if k == 'bin' and t[1] in ('+', '-'):
        return ('bin', t[1], rename_tree(t[2], amap, vocab, ijk, dig, additive), rename_tree(t[3], amap, vocab, ijk, dig, additive))
    out = [k]
    for c in t[1:]:
        out.append(rename_tree(c, amap, vocab, ijk, dig, False) if isinstance(c, tuple) else c)
    return tuple(out)


def _commut_norm(t):
    """Normalise commutative + and * by sorting operands (flattened)."""
    if not isinstance(t, tuple):
        return t
    k = t[0]
    if k == 'bin' and t[1] in ('+', '*'):
        ops = []

        def flat(u):
            if isinstance(u, tuple) and u[0] == 'bin' and u[1] == t[1]:
                flat(u[2])
                flat(u[3])
            else:
                ops.append(_commut_norm(u))
        flat(t)
        return ('nary', t[1]) + tuple(sorted(ops, key=repr))
    if k == 'cast':
        return _commut_norm(t[2])
    return tuple(_commut_norm(c) if isinstance(c, tuple) else c for c in t)


def to_sympy(t, syms):
    import sympy as sp
    k = t[0]
    if k == 'lit':
        try:
            return sp.Rational(t[1]) if re.match(r'^-?\d+$', t[1]) else sp.Rational(str(float(t[1])))
        except Exception:
            raise ValueError('literal')
    if k in ('id', 'mem', 'idx'):
        s = render(t)
        if s not in syms:
            syms[s] = sp.Symbol('s%d' % len(syms))
        return syms[s]
    if k == 'bin':
        a, b = to_sympy(t[2], syms), to_sympy(t[3], syms)
        op = t[1]
        if op == '+':
            return a + b
        if op == '-':
            return a - b
        if op == '*':
            return a * b
        if op == '/':
            return a / b
        raise ValueError('op ' + op)
    if k == 'un':
        a = to_sympy(t[2], syms)
        if t[1] == '-':
            return -a
        if t[1] == '+':
            return a
        raise ValueError('unop')
    if k == 'cast':
        return to_sympy(t[2], syms)
    if k == 'call':
        f = sp.Function(render(t[1]))
        return f(*[to_sympy(a, syms) for a in t[2:]])
    if k == 'cond':
        s = 'cond:' + render(t)
        if s not in syms:
            syms[s] = sp.Symbol('s%d' % len(syms))
        return syms[s]
    raise ValueError('kind ' + k)


def algebraic_equal(t_renamed, t2):
    import sympy as sp
    syms = {}
    try:
        a = to_sympy(t_renamed, syms)
        b = to_sympy(t2, syms)
    except ValueError:
        return None
    try:
        return sp.expand(a - b) == 0 or sp.simplify(a - b) == 0
    except Exception:
        return None


def related(t1, t2, step, vocab):
    """Is t2 the image of t1 under an admissible axis map for this step (0: stmt1->2, 1: stmt2->3)?
    Returns the label of the first map family that works, else None."""
    fams = [('parallel', PAR[step], None, None), ('cyclic', CYC, None, None), ('transposition', TRANS[step], None, None),
            ('parallel+ijk', PAR[step], IJK[step], None), ('parallel+digits', PAR[step], None, True),
            ('parallel+ijk+digits', PAR[step], IJK[step], True), ('parallel+namedigits', PAR[step], None, 'names')]
    n2 = _commut_norm(t2)
    for label, amap, ijk, dig in fams:
        r = rename_tree(t1, amap, vocab, ijk, dig)
        if r == t2 or _commut_norm(r) == n2:
            return label
    for label, amap, ijk, dig in fams[:3]:
        r = rename_tree(t1, amap, vocab, ijk, dig)
        if algebraic_equal(r, t2):
            return label + '(algebraic)'
    return None


# (function, component name of the first lvalue, enclosing case) -> reason: anisotropic stanzas inside otherwise isotropic functions
# (keyed by the member written, not by the name of the variable that holds it)
ANISOTROPIC_GROUPS = {
    ('reb_boundary_get_ghostbox', 'x', 'REB_BOUNDARY_SHEAR'): 'shear-periodic images are shifted in y by the shear offset (R15.2 decides this stanza)',
    ('reb_boundary_get_ghostbox', 'vx', 'REB_BOUNDARY_SHEAR'): 'shear velocity offset applies to vy only (R15.2 decides this stanza)',
    ('reb_collision_resolve_hardsphere', 'vx', None): 'rotation back from the frame aligned with the line of centres (two planar rotations, anisotropic by construction)',
    ('reb_particle_from_orbit_err', 'x', None): 'Euler rotation from the orbital plane: the reference plane is special',
    ('reb_particle_from_orbit_err', 'vx', None): 'Euler rotation from the orbital plane: the reference plane is special',
    ('reb_particle_from_pal', 'x', None): 'Pal coordinates: the reference plane is special',
    ('reb_particle_from_pal', 'vx', None): 'Pal coordinates: the reference plane is special',
    ('reb_tools_spherical_to_xyz', 'x', None): 'spherical coordinates',
}


def compounds_with_case(node, case=None):
    """Yield (CompoundStmt, enclosing case enumerator or None)."""
    k = node.get('kind')
    if k == 'CaseStmt':
        lab = None
        for x in walk(node['inner'][0]):
            if x.get('kind') == 'DeclRefExpr' and x['referencedDecl'].get('kind') == 'EnumConstantDecl':
                lab = x['referencedDecl']['name']
        case = lab or case
    if k == 'CompoundStmt':
        yield node, case
        # a case label applies to the following sibling statements of the same compound
        cur = case
        for c in node.get('inner', []):
            if c.get('kind') == 'CaseStmt':
                for x in walk(c['inner'][0]):
                    if x.get('kind') == 'DeclRefExpr' and x['referencedDecl'].get('kind') == 'EnumConstantDecl':
                        cur = x['referencedDecl']['name']
            elif c.get('kind') == 'DefaultStmt':
                cur = 'default'
            yield from compounds_with_case(c, cur)
        return
    for c in node.get('inner', []) or []:
        if isinstance(c, dict):
            yield from compounds_with_case(c, case)


def check_function(tu, fn, report, stats, rule='X1'):
    name = fn['name']
    vocab = vocabulary(fn, MEMBER_VOCAB)
    for comp, case in compounds_with_case(cfront.body(fn)):
        stmts = statements(comp)
        i = 0
        while i + 2 < len(stmts):
            tri = stmts[i:i + 3]
            if not all(tri):
                i += 1
                continue
            lvs = [_lv_name(t[1]) for t in tri]
            if not all(lvs) or not (lvs[0][0] == lvs[1][0] == lvs[2][0]):
                i += 1
                continue
            pos = _axis_pos(lvs[0][1], lvs[1][1], lvs[2][1])
            if pos is None:
                i += 1
                continue
            if (name, lvs[0][1], case) in ANISOTROPIC_GROUPS:
                stats['excluded'] = stats.get('excluded', 0) + 1
                i += 3
                continue
            stats['groups'] += 1
            where = 'src/%s:%s %s' % (tu.cfile, tri[0][0], name)
            key = '%s:%s' % (name, render(tri[0][1]))
            if not (tri[0][2] == tri[1][2] == tri[2][2]):
                report(rule, key + ':op', where, 'component statements use different assignment operators: %s / %s / %s'
                       % (tri[0][2], tri[1][2], tri[2][2]))
                i += 3
                continue
            r12 = related(tri[0][3], tri[1][3], 0, vocab)
            r23 = related(tri[1][3], tri[2][3], 1, vocab)
            fam12 = r12.split('(')[0].split('+')[0] if r12 else None
            fam23 = r23.split('(')[0].split('+')[0] if r23 else None
            if r12 and r23 and fam12 == fam23:
                if len(stats['samples']) < 5:
                    stats['samples'].append('%s: %s = ... [%s]' % (where, render(tri[0][1]), r12))
            else:
                bad = 1 if not r12 else 2
                a, b = tri[bad - 1], tri[bad]
                if r12 and r23:
                    msg = 'components are related by different axis maps (%s vs %s)' % (r12, r23)
                else:
                    msg = ('the %s-component is not the %s-component formula with the axes renamed: "%s %s %s" vs "%s %s %s"'
                           % ('yz'[bad - 1], 'xy'[bad - 1], render(b[1]), b[2], render(b[3])[:160], render(a[1]), a[2], render(a[3])[:160]))
                report(rule, key, 'src/%s:%s %s' % (tu.cfile, b[0], name), msg)
            i += 3
    return stats


def run_files(ctx, rule, cfiles, only=None, skip=()):
    """only: None, a set of function names (all files) or {cfile: set of function names}."""
    tus = cfront.load_tus(cfiles)
    stats = {'groups': 0, 'samples': []}
    nfun = 0
    for c in cfiles:
        tu = tus[c]
        for name, fn in sorted(tu.funcs.items()):
            if cfront.basename(fn.get('_locfile') or fn.get('_file')) != c:
                continue
            if isinstance(only, dict):
                if c in only and name not in only[c]:
                    continue
            elif only is not None and name not in only:
                continue
            if name in ANISOTROPIC or name in skip:
                continue
            nfun += 1
            check_function(tu, fn, ctx.report, stats, rule)
    return stats, nfun


AXIS_MEMBERS = {'x': ('', 'x'), 'y': ('', 'y'), 'z': ('', 'z'), 'vx': ('v', 'x'), 'vy': ('v', 'y'), 'vz': ('v', 'z'), 'ax': ('a', 'x'), 'ay': ('a', 'y'), 'az': ('a', 'z')}


def _axis_neutral(e):
    """(neutral text, set of axes) of an expression: member names x/y/z, vx.., ax.. replaced by a placeholder"""
    axes = set()

    def r(n):
        n = strip(n)
        k = n.get('kind')
        if k == 'MemberExpr':
            base = r(n['inner'][0])
            nm = n['name']
            if nm in AXIS_MEMBERS:
                axes.add(AXIS_MEMBERS[nm][1])
                return '%s.%s#' % (base, AXIS_MEMBERS[nm][0])
            if len(nm) > 2 and nm[-2] == '_' and nm[-1] in 'xyz':
                axes.add(nm[-1])
                return '%s.%s#' % (base, nm[:-1])
            return '%s.%s' % (base, nm)
        if k in ('BinaryOperator',):
            return '(%s%s%s)' % (r(n['inner'][0]), n['opcode'], r(n['inner'][1]))
        if k == 'UnaryOperator':
            return '%s(%s)' % (n.get('opcode'), r(n['inner'][0]))
        if k == 'CallExpr':
            return '%s(%s)' % (callee_name(n) or r(n['inner'][0]), ','.join(r(a) for a in call_args(n)))
        if k == 'ArraySubscriptExpr':
            return '%s[%s]' % (r(n['inner'][0]), r(n['inner'][1]))
        if k == 'DeclRefExpr':
            return n['referencedDecl']['name']
        if k in ('IntegerLiteral', 'FloatingLiteral'):
            return n.get('value', '?')
        if k in ('CStyleCastExpr', 'ImplicitCastExpr', 'ParenExpr'):
            return r(n['inner'][0])
        return render(n)
    return r(e), axes


def check_condition_triples(cfile, fn, report, rule):
    """Chains of || or && whose operands are the same test per axis (|p.x - c.x| > w/2 || |p.y - c.y| > w/2 || ...):
    every test that occurs for two axes occurs for all three, exactly once each. Returns the number of chains examined."""
    n = 0
    seen = set()

    def flatten(e, op):
        e = strip(e)
        if e.get('kind') == 'BinaryOperator' and e.get('opcode') == op:
            return flatten(e['inner'][0], op) + flatten(e['inner'][1], op)
        return [e]
    for e in walk(cfront.body(fn)):
        if e.get('kind') == 'BinaryOperator' and e.get('opcode') in ('||', '&&', '*') and id(e) not in seen:
            ops = flatten(e, e['opcode'])
            for x in walk(e):
                if x.get('kind') == 'BinaryOperator' and x.get('opcode') == e['opcode']:
                    seen.add(id(x))
            groups = {}
            for o in ops:
                txt, axes = _axis_neutral(o)
                if len(axes) == 1:
                    groups.setdefault(txt, []).append((next(iter(axes)), o))
            for txt, members in groups.items():
                axes = sorted(a for a, _ in members)
                if len(members) < 2 and not (len(ops) == 3 and len(groups) >= 2):
                    continue
                if len(members) < 2:
                    continue
                if e['opcode'] == '*' and len(members) != 3:
                    continue            # products of two per-axis factors are areas; three are a volume or a count of cells
                n += 1
                if axes != ['x', 'y', 'z']:
                    dup = sorted({a for a in axes if axes.count(a) > 1})
                    miss = sorted(set('xyz') - set(axes))
                    report(rule, '%s:axes:%s' % (fn['name'], txt[:40]), 'src/%s:%s %s' % (cfile, line_of(e), fn['name']),
                           'the per-axis test %s is made for the axes %s: %s%s - the condition does not treat the three directions alike'
                           % (txt.replace('#', '<axis>'), axes, ('%s twice' % ','.join(dup)) if dup else '', (' %s never' % ','.join(miss)) if miss else ''))
    return n
