"""Extents of loops over the particle array: which of r->N (all, variational included), r->N - r->N_var (real particles)
or the active count a loop covers, with locals let-inlined."""
import re

from .. import cfront
from ..cfront import walk, strip, render, line_of, qtype


def loop_vars(fn):
    out = set()
    for f in walk(cfront.body(fn)):
        if f.get('kind') == 'ForStmt' and f['inner'][0] and f['inner'][0].get('kind') == 'DeclStmt':
            for d in f['inner'][0].get('inner', []):
                if d.get('kind') == 'VarDecl':
                    out.add(d['name'])
    return out


def lets(fn):
    out = {}
    lv = loop_vars(fn)
    for d in walk(cfront.body(fn)):
        if d.get('kind') == 'VarDecl' and d.get('name') in lv:
            continue
        if d.get('kind') == 'VarDecl' and 'init' in d:
            init = [c for c in d.get('inner', []) if c.get('kind') not in ('FullComment',)]
            if init:
                out.setdefault(d['name'], render(init[-1]))
    return out


def named_values(fn):
    """locals that only name a value or a place (never assigned again, one initialiser text): xmax = boxsize.x/2.,
    p = &particles[i], boundary = r->boundary ... - conditions and updates are read with these names resolved."""
    mutated = {render(e['inner'][0]) for e in walk(cfront.body(fn)) if cfront.is_assign(e)}
    mutated |= {render(x['inner'][0]) for x in walk(cfront.body(fn)) if x.get('kind') == 'UnaryOperator' and x.get('opcode') in ('++', '--')}
    lv = loop_vars(fn)
    seen = {}
    for d in walk(cfront.body(fn)):
        if d.get('kind') == 'VarDecl' and 'init' in d and d.get('name') not in lv:
            init = [c for c in d.get('inner', []) if c.get('kind') not in ('FullComment',)]
            if init:
                seen.setdefault(d['name'], set()).add(render(init[-1]).replace(' ', ''))
    return {k: next(iter(v)) for k, v in seen.items() if len(v) == 1 and k not in mutated}


def resolve(s, L, depth=0):
    if depth > 6:
        return s

    def rep(m):
        w = m.group(0)
        if w in L and w != 'r':
            return '(' + resolve(L[w], L, depth + 1) + ')'
        return w
    s = re.sub(r'(?<![\w.])[A-Za-z_]\w*(?![\w(.])', rep, s)

    def rep_alias(m):
        w = m.group(1)
        # a local that merely names a member path (const struct reb_vec3d boxsize = r->boxsize): boxsize.y -> r.boxsize.y
        tgt = L.get(w, '').replace(' ', '')
        tgt = tgt.strip('()')
        if tgt.startswith('&'):
            tgt = tgt[1:].strip('()')          # pointer to a member (ri = &(r->ri_whfast)): ri->x is r.ri_whfast.x
        if w in L and w != 'r' and re.match(r'^[A-Za-z_][\w.\[\]]*$', tgt):
            # the target may itself start with an alias (p = &particles[i]; particles = r->particles)
            head = re.match(r'^([A-Za-z_]\w*)(.*)$', tgt)
            if head and head.group(1) in L and head.group(1) not in ('r', w) and depth < 6:
                inner = L[head.group(1)].replace(' ', '').strip('()')
                if inner.startswith('&'):
                    inner = inner[1:].strip('()')
                if re.match(r'^[A-Za-z_][\w.\[\]]*$', inner):
                    tgt = inner + head.group(2)
            return tgt + '.'
        return m.group(0)
    return re.sub(r'(?<![\w.])([A-Za-z_]\w*)\.(?=[A-Za-z_])', rep_alias, s)


def canon(s):
    return s.replace(' ', '').replace('(', '').replace(')', '')


REAL = 'r.N-r.N_var'
ALL = 'r.N'


def particle_loops(fn, node=None):
    """[(for node, loop variable, resolved bound (canonical), arrays of struct reb_particle subscripted by the variable)]"""
    L = lets(fn)
    out = []
    for f in walk(node or cfront.body(fn)):
        if f.get('kind') != 'ForStmt':
            continue
        cond = f['inner'][2]
        if not cond or not cond.get('kind'):
            continue
        cs = strip(cond)
        if cs.get('kind') != 'BinaryOperator' or cs['opcode'] not in ('<', '<=', '>', '>='):
            continue
        var = render(cs['inner'][0])
        descending = cs['opcode'] in ('>', '>=')
        subs = set()
        for e in walk(f['inner'][-1]):
            if e.get('kind') == 'ArraySubscriptExpr' and render(e['inner'][1]) == var and 'reb_particle' in qtype(e):
                subs.add(render(e['inner'][0]))
        if not subs:
            continue
        if descending:
            # for (i = X-1; i >= 0; i--): the extent is the initial value plus one
            ini = None
            for d in walk(f['inner'][0] or {}):
                if d.get('kind') == 'VarDecl' and d.get('name') == var and 'init' in d:
                    i0 = [c_ for c_ in d.get('inner', []) if c_.get('kind') not in ('FullComment',)]
                    ini = render(i0[-1]) if i0 else None
            if ini is None:
                continue
            b = canon(resolve(ini, {k: v for k, v in L.items() if k != var}))
            b = b[:-2] if b.endswith('-1') else b + '+1'
            out.append((f, var, b, sorted(subs)))
            continue
        out.append((f, var, canon(resolve(render(cs['inner'][1]), {k: v for k, v in L.items() if k != var})), sorted(subs)))
    return out
